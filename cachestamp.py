"""cargo decides whether a cached artefact is fresh by comparing modification times.  The scratch copies the
checks build in keep /repo's modification times, so a source file whose CONTENT differs from what the cache
was last built from, but whose mtime is older than the cached artefacts (a tree restored from a snapshot or
an archive, a different VERIF_REPO), would be taken for fresh and a stale artefact would be verified.
`stamp` compares content hashes with the ones recorded for the last build in that cache directory and gives
every changed file the current time; if the last build is not known to have finished, every file is stamped.
`finished` records that the build the stamp was made for has run."""
import fcntl
import hashlib
import json
import os
import time


def _hashes(scratch):
  out = {}
  for top in ('Cargo.toml', 'Cargo.lock', 'crates', 'std'):
    p = os.path.join(scratch, top)
    if os.path.isfile(p):
      out[top] = hashlib.sha256(open(p, 'rb').read()).hexdigest()
      continue
    for root, dirs, files in os.walk(p):
      dirs[:] = [d for d in dirs if d != 'target']
      for f in files:
        fp = os.path.join(root, f)
        try:
          out[os.path.relpath(fp, scratch)] = hashlib.sha256(open(fp, 'rb').read()).hexdigest()
        except OSError:
          pass
  return out


def stamp(scratch, cache_dir):
  os.makedirs(cache_dir, exist_ok=True)
  mf = os.path.join(cache_dir, 'source_hashes.json')
  now = time.time()
  with open(os.path.join(cache_dir, 'source_hashes.lock'), 'w') as lk:
    fcntl.flock(lk, fcntl.LOCK_EX)
    try:
      old = json.load(open(mf))
    except (OSError, ValueError):
      old = {'complete': False, 'hashes': {}}
    new = _hashes(scratch)
    everything = not old.get('complete')
    n = 0
    for rel, h in new.items():
      if everything or old['hashes'].get(rel) != h:
        try:
          os.utime(os.path.join(scratch, rel), (now, now))
          n += 1
        except OSError:
          pass
    # a file that disappeared changes the crate too: stamp the crate's manifest
    for rel in old.get('hashes', {}):
      if rel not in new:
        parts = rel.split(os.sep)
        if parts[0] == 'crates' and len(parts) > 2:
          t = os.path.join(scratch, parts[0], parts[1], 'Cargo.toml')
          if os.path.exists(t):
            os.utime(t, (now, now))
    json.dump({'complete': False, 'hashes': new}, open(mf, 'w'))
  return n


def finished(cache_dir):
  mf = os.path.join(cache_dir, 'source_hashes.json')
  try:
    with open(os.path.join(cache_dir, 'source_hashes.lock'), 'w') as lk:
      fcntl.flock(lk, fcntl.LOCK_EX)
      m = json.load(open(mf))
      m['complete'] = True
      json.dump(m, open(mf, 'w'))
  except (OSError, ValueError):
    pass
