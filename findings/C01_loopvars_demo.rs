
// demo appended to crates/samlang-compiler/src/lib.rs (cfg(test)): a self tail call that permutes its
// parameters must swap them; the emitted loop may not read a parameter it has just overwritten
#[cfg(test)]
mod verif_loopvars_demo {
  use samlang_heap::Heap;
  use std::collections::HashMap;

  #[test]
  fn verif_loopvars_demo() {
    let heap = &mut Heap::new();
    let mod_ref = heap.alloc_module_reference_from_string_vec(vec!["Demo".to_string()]);
    let text = r#"class Main {
  function alternate(a: int, b: int, n: int): int = if n == 0 { a } else { Main.alternate(b, a, n - 1) }
  function main(): unit = {
    let _ = Process.println(Str.fromInt(Main.alternate("10".toInt(), "20".toInt(), "2".toInt())));
  }
}"#;
    let mut sources = HashMap::from([(mod_ref, text.to_string())]);
    for (m, s) in samlang_parser::builtin_std_raw_sources(heap) {
      sources.insert(m, s);
    }
    let result = super::compile_sources(heap, sources, vec![mod_ref], false).ok().unwrap();
    let ts = result.text_code_results.get("Demo.ts").unwrap();
    // the assignments `x = y;` at the end of the loop body, in order
    let body = ts.split("while (true) {").nth(1).unwrap().split("\n  }\n").next().unwrap();
    let mut assigned: Vec<&str> = Vec::new();
    for line in body.lines().map(|l| l.trim()) {
      if line.starts_with("let ") || line.starts_with("if ") || line == "}" || line == "break;" {
        assigned.clear();
        continue;
      }
      if let Some((lhs, rhs)) = line.trim_end_matches(';').split_once(" = ") {
        assert!(
          !assigned.contains(&rhs),
          "`{line}` reads `{rhs}` after it was overwritten; alternate(10, 20, 2) then returns 20 instead of 10:\n{body}"
        );
        assigned.push(lhs);
      }
    }
  }
}
