
// demo appended to crates/samlang-compiler/src/lib.rs: a type argument solved from a function-type hint must satisfy its bound
#[cfg(test)]
mod verif_hint_bound_demo {
  use samlang_heap::Heap;
  use std::collections::HashMap;
  #[test]
  fn verif_hint_bound_demo() {
    let heap = &mut Heap::new();
    let mod_ref = heap.alloc_module_reference_from_string_vec(vec!["Demo".to_string()]);
    let text = "interface Cmp { method cmp(): int }\nclass Main {\n  function <T: Cmp> f(a: T): int = a.cmp()\n  function main(): unit = {\n    let g: (int) -> int = Main.f;\n    let _ = Process.println(Str.fromInt(g(3)));\n  }\n}";
    let mut sources = HashMap::from([(mod_ref, text.to_string())]);
    for (m, s) in samlang_parser::builtin_std_raw_sources(heap) {
      sources.insert(m, s);
    }
    let r = std::panic::catch_unwind(std::panic::AssertUnwindSafe(|| super::compile_sources(heap, sources, vec![mod_ref], false).is_err()));
    assert_eq!(Some(true), r.ok(), "a type argument that violates its bound (T := int, T: Cmp) must be rejected with a diagnostic");
  }
}
