
// demo appended to crates/samlang-printer/src/source_printer.rs (cfg(test)): formatting a literal with an
// escaped quote must re-parse without errors to the same literal
#[cfg(test)]
mod verif_strlit_demo {
  use samlang_ast::source::{Literal, Toplevel, expr};
  use samlang_errors::ErrorSet;
  use samlang_heap::{Heap, ModuleReference};
  use samlang_parser::parse_source_module_from_text;

  fn literal_of(heap: &mut Heap, src: &str) -> (usize, Option<String>, String) {
    let mut error_set = ErrorSet::new();
    let m = parse_source_module_from_text(src, ModuleReference::DUMMY, heap, &mut error_set);
    let printed = super::super::pretty_print_source_module(heap, 100, &m);
    let errors = error_set.group_errors().values().map(|v| v.len()).sum::<usize>();
    let lit = match m.toplevels.first() {
      Some(Toplevel::Class(c)) => match c.members.members.first().map(|mem| &mem.body) {
        Some(expr::E::Literal(_, Literal::String(s))) => Some(s.as_str(heap).to_string()),
        _ => None,
      },
      _ => None,
    };
    (errors, lit, printed)
  }

  #[test]
  fn verif_strlit_demo() {
    let heap = &mut Heap::new();
    let src = "class Main { function f(): Str = \"a\\\"b\" }";
    let (e1, l1, printed) = literal_of(heap, src);
    assert_eq!(0, e1);
    assert_eq!(Some("a\"b".to_string()), l1);
    let (e2, l2, _) = literal_of(heap, &printed);
    assert_eq!((0, l1), (e2, l2), "formatted text was:\n{printed}");
  }
}
