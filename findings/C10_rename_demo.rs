
// demo appended to crates/samlang-services/src/server_state.rs: after a rename and an update the incremental
// diagnostics must equal those of a freshly started server
#[cfg(test)]
mod verif_rename_demo {
  use super::ServerState;
  use samlang_heap::{Heap, ModuleReference};
  use std::collections::HashMap;

  fn fresh(heap_sources: Vec<(&str, &str)>) -> String {
    let mut heap = Heap::new();
    let mut m = HashMap::new();
    for (n, t) in heap_sources {
      m.insert(heap.alloc_module_reference_from_string_vec(vec![n.to_string()]), t.to_string());
    }
    ServerState::new(heap, false, m).get_error_dump()
  }

  #[test]
  fn verif_rename_demo() {
    let a_text = "class Foo(val x: int) { function make(): Foo = Foo.init(1) }";
    let b_old = "import { Foo } from A\nclass Main { function f(): Foo = Foo.make() }";
    let b_new = "import { Foo } from C\nclass Main { function f(): Foo = Foo.make() }";
    let mut heap = Heap::new();
    let a = heap.alloc_module_reference_from_string_vec(vec!["A".to_string()]);
    let b = heap.alloc_module_reference_from_string_vec(vec!["B".to_string()]);
    let c = heap.alloc_module_reference_from_string_vec(vec!["C".to_string()]);
    let mut state = ServerState::new(heap, false, HashMap::from([(a, a_text.to_string()), (b, b_old.to_string())]));
    assert_eq!("", state.get_error_dump());
    state.rename_module(vec![(a, c)]);
    state.update(vec![(b, b_new.to_string())]);
    let incremental = state.get_error_dump();
    let from_scratch = fresh(vec![("C", a_text), ("B", b_new)]);
    assert_eq!(from_scratch, incremental);
    let _: ModuleReference = c;
  }
}
