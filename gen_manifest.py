#!/usr/bin/env python3
"""Regenerates MANIFEST.json from registry.py + manifest_meta.json (developer tool, not run by checks)."""
import json, os, sys
VERIF = os.path.dirname(os.path.abspath(__file__))
sys.path.insert(0, VERIF)
import registry
meta = json.load(open(os.path.join(VERIF, 'manifest_meta.json')))
checks = []
for pid in sorted(registry.PROPERTIES):
  m = meta['checks'][pid]
  checks.append({
    'property_id': pid,
    'quick_cmd': './check %s --tier quick' % pid,
    'thorough_cmd': './check %s --tier thorough' % pid,
    'evidence_file': '/verif/evidence/%s.json' % pid,
    'replay_cmd_template': './check %s --replay {path}' % pid,
    'engine': 'contracts',
    'level_claimed': {'category': m['category'], 'text': m['text'], 'design_ref': m['design_ref']},
    'level_note': m['note'],
    'technique': m['technique'],
  })
na = [{'property_id': k, 'reason': v} for k, v in sorted(meta['not_applicable'].items()) if k not in registry.PROPERTIES]
man = {
  'version': 1,
  'setup_cmd': './setup.sh',
  'hooks': {
    'guard': 'kani',
    'enable': 'no commit to /repo: checks rsync /repo into a scratch copy and append one `#[cfg(kani)] #[path=...] mod verif_kani;` line per anchored file; Verus units are composed from text extracted from /repo on every run',
    'baseline_off_cmd': 'cd /repo && cargo test --workspace --no-fail-fast --offline',
    'source_commits': [],
    'add_only': True,
  },
  'engines': [{'name': 'contracts', 'path': '/verif/check', 'serves_properties': sorted(registry.PROPERTIES),
               'kind_free_text': 'contract-based deductive verification: Verus on functions extracted verbatim from /repo each run (vx/), Kani function/harness proofs on the real crates in a scratch copy (kx/)'}],
  'checks': checks,
  'not_applicable': na,
  'notes': meta.get('notes', ''),
}
json.dump(man, open(os.path.join(VERIF, 'MANIFEST.json'), 'w'), indent=1)
print('MANIFEST.json: %d checks, %d not_applicable' % (len(checks), len(na)))
