"""Developer CLI: python3 -m kx.cli <unit> [--tier thorough] [--timeout N] [harness ...]"""
import os, sys, shutil, json
sys.path.insert(0, os.path.dirname(os.path.dirname(os.path.abspath(__file__))))
import registry
from kx import run as kxrun

def main():
  args = sys.argv[1:]
  unit = args[0]
  tier = 'quick'
  timeout = 300
  pb = False
  hs = []
  i = 1
  while i < len(args):
    if args[i] == '--tier': tier = args[i+1]; i += 2
    elif args[i] == '--timeout': timeout = int(args[i+1]); i += 2
    elif args[i] == '--playback': pb = True; i += 1
    else: hs.append(args[i]); i += 1
  spec = registry.KANI_UNITS[unit]
  if not hs:
    hs = [h for h, m in spec['harnesses'].items() if m['tier'] == 'quick' or tier == 'thorough']
  repo = os.environ.get('VERIF_REPO', '/repo')
  scratch = kxrun.prepare_scratch(repo, spec['splices'])
  try:
    res, wall, raw, cmd = kxrun.run_harnesses(scratch, spec['crate'], spec['module'], hs, jobs=spec.get('jobs', 8), timeout_s=timeout, playback=pb)
    for h in hs:
      r = res[h]
      print('%-50s %-12s checks=%-4s failed=%-3s t=%s %s' % (h, r['result'], r['checks'], r['failed'], r['time_s'], r['covers'] or ''))
      for c in r['failed_checks'][:6]:
        print('      FAILED CHECK: %s @ %s' % (c['description'], c['location']))
      if r.get('playback'):
        print(r['playback'])
    print('wall %.1fs' % wall)
    if any(r['result'] in ('BUILD_ERROR', 'NO_RESULT') for r in res.values()):
      print(raw[-3000:])
  finally:
    shutil.rmtree(scratch, ignore_errors=True)

main()
