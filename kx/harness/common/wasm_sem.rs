// Shared target semantics (DESIGN.md section 2.4): WebAssembly i32 instructions.  None = trap.
// Included textually by every Kani harness that talks about operator meaning, so C01/C02/C04
// cannot drift apart.
include!("/verif/kx/harness/common/wasm_sem_core.rs");

fn any_op() -> BinaryOperator {
  let k: u8 = kani::any();
  kani::assume(k < 16);
  op_of(k)
}
