// Shared target semantics (DESIGN.md section 2.4): WebAssembly i32 instructions.  None = trap.
// Included textually by every Kani harness that talks about operator meaning, so C01/C02/C04
// cannot drift apart.
fn wasm_sem(op: BinaryOperator, a: i32, b: i32) -> Option<i32> {
  match op {
    BinaryOperator::MUL => Some(a.wrapping_mul(b)),
    BinaryOperator::DIV => {
      if b == 0 || (a == i32::MIN && b == -1) {
        None
      } else {
        Some(a.wrapping_div(b))
      }
    }
    BinaryOperator::MOD => {
      if b == 0 {
        None
      } else {
        Some(a.wrapping_rem(b))
      }
    }
    BinaryOperator::PLUS => Some(a.wrapping_add(b)),
    BinaryOperator::MINUS => Some(a.wrapping_sub(b)),
    BinaryOperator::LAND => Some(a & b),
    BinaryOperator::LOR => Some(a | b),
    BinaryOperator::SHL => Some(a.wrapping_shl(b as u32)),
    BinaryOperator::SHR => Some(((a as u32).wrapping_shr(b as u32)) as i32),
    BinaryOperator::XOR => Some(a ^ b),
    BinaryOperator::LT => Some((a < b) as i32),
    BinaryOperator::LE => Some((a <= b) as i32),
    BinaryOperator::GT => Some((a > b) as i32),
    BinaryOperator::GE => Some((a >= b) as i32),
    BinaryOperator::EQ => Some((a == b) as i32),
    BinaryOperator::NE => Some((a != b) as i32),
  }
}

fn op_of(k: u8) -> BinaryOperator {
  match k {
    0 => BinaryOperator::MUL,
    1 => BinaryOperator::DIV,
    2 => BinaryOperator::MOD,
    3 => BinaryOperator::PLUS,
    4 => BinaryOperator::MINUS,
    5 => BinaryOperator::LAND,
    6 => BinaryOperator::LOR,
    7 => BinaryOperator::SHL,
    8 => BinaryOperator::SHR,
    9 => BinaryOperator::XOR,
    10 => BinaryOperator::LT,
    11 => BinaryOperator::LE,
    12 => BinaryOperator::GT,
    13 => BinaryOperator::GE,
    14 => BinaryOperator::EQ,
    _ => BinaryOperator::NE,
  }
}
