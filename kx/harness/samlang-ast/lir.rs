// Kani unit `tsops` (C04): the TypeScript expression emitted for each operator by
// lir::Statement::pretty_print_internal (Binary arm), real printer.
use super::*;

fn rs_stub() -> std::hash::RandomState {
  unsafe { std::mem::transmute::<(u64, u64), std::hash::RandomState>((0u64, 0u64)) }
}

fn op_of(k: u8) -> BinaryOperator {
  match k {
    0 => BinaryOperator::MUL,
    1 => BinaryOperator::DIV,
    2 => BinaryOperator::MOD,
    3 => BinaryOperator::PLUS,
    4 => BinaryOperator::MINUS,
    5 => BinaryOperator::LAND,
    6 => BinaryOperator::LOR,
    7 => BinaryOperator::SHL,
    8 => BinaryOperator::SHR,
    9 => BinaryOperator::XOR,
    10 => BinaryOperator::LT,
    11 => BinaryOperator::LE,
    12 => BinaryOperator::GT,
    13 => BinaryOperator::GE,
    14 => BinaryOperator::EQ,
    _ => BinaryOperator::NE,
  }
}

/// The JavaScript operator token whose meaning (on numbers holding 32-bit integers) is compared
/// with the WebAssembly instruction in Verus unit `opsem`.
fn js_token(op: BinaryOperator) -> &'static str {
  match op {
    BinaryOperator::MUL => "*",
    BinaryOperator::DIV => "/",
    BinaryOperator::MOD => "%",
    BinaryOperator::PLUS => "+",
    BinaryOperator::MINUS => "-",
    BinaryOperator::LAND => "&",
    BinaryOperator::LOR => "|",
    BinaryOperator::SHL => "<<",
    BinaryOperator::SHR => ">>>",
    BinaryOperator::XOR => "^",
    BinaryOperator::LT => "<",
    BinaryOperator::LE => "<=",
    BinaryOperator::GT => ">",
    BinaryOperator::GE => ">=",
    BinaryOperator::EQ => "==",
    BinaryOperator::NE => "!=",
  }
}

fn printed(op: BinaryOperator, str_typed: bool) -> String {
  let heap = Heap::kani_empty();
  let table = SymbolTable::kani_empty();
  let strs: HashMap<PStr, usize> = HashMap::new();
  let (t1, t2) = if str_typed { (Type::Id(TypeNameId::STR), Type::Id(TypeNameId::STR)) } else { (Type::Int32, Type::Int32) };
  let st = Statement::Binary {
    name: PStr::LOWER_Z,
    operator: op,
    e1: Expression::Variable(PStr::LOWER_A, t1),
    e2: Expression::Variable(PStr::LOWER_B, t2),
  };
  // pre-sized so that the printer's push_str calls never reallocate (keeps the CBMC query small)
  let mut s = String::with_capacity(96);
  st.pretty_print_internal(&heap, &table, &strs, 0, &None, &mut s);
  // the values were only read; skipping their (large, recursive) drop glue keeps the query small
  std::mem::forget(st);
  std::mem::forget(heap);
  std::mem::forget(table);
  std::mem::forget(strs);
  s
}

/// the templates of the TypeScript back end: `A op B`; truncating division is written
/// `Math.floor(A / B)`; comparisons are wrapped in Number(..); string (in)equality compares the
/// payloads `A[1] === B[1]`
fn expected(op: BinaryOperator, str_typed: bool) -> String {
  let mut s = String::with_capacity(96);
  s.push_str("let z = ");
  let is_cmp = matches!(
    op,
    BinaryOperator::LT | BinaryOperator::LE | BinaryOperator::GT | BinaryOperator::GE | BinaryOperator::EQ | BinaryOperator::NE
  );
  if op == BinaryOperator::DIV {
    s.push_str("Math.floor(a / b)");
  } else if is_cmp {
    s.push_str("Number(");
    if str_typed && matches!(op, BinaryOperator::EQ | BinaryOperator::NE) {
      s.push_str("a[1] ");
      s.push_str(js_token(op));
      s.push_str("= b[1]");
    } else {
      s.push_str("a ");
      s.push_str(js_token(op));
      s.push_str(" b");
    }
    s.push(')');
  } else {
    s.push_str("a ");
    s.push_str(js_token(op));
    s.push_str(" b");
  }
  s.push_str(";\n");
  s
}

fn check(k: u8) {
  let op = op_of(k);
  let str_typed: bool = kani::any();
  let got = printed(op, str_typed);
  let want = expected(op, str_typed);
  assert!(got.as_bytes() == want.as_bytes());
}

macro_rules! op_harness {
  ($name:ident, $k:expr) => {
    #[kani::proof]
    #[kani::stub(std::hash::RandomState::new, rs_stub)]
    #[kani::unwind(40)]
    fn $name() {
      check($k);
    }
  };
}
op_harness!(ts_op_mul, 0);
op_harness!(ts_op_div, 1);
op_harness!(ts_op_mod, 2);
op_harness!(ts_op_plus, 3);
op_harness!(ts_op_minus, 4);
op_harness!(ts_op_land, 5);
op_harness!(ts_op_lor, 6);
op_harness!(ts_op_shl, 7);
op_harness!(ts_op_shr, 8);
op_harness!(ts_op_xor, 9);
op_harness!(ts_op_lt, 10);
op_harness!(ts_op_le, 11);
op_harness!(ts_op_gt, 12);
op_harness!(ts_op_ge, 13);
op_harness!(ts_op_eq, 14);
op_harness!(ts_op_ne, 15);
