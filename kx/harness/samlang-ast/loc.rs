// Kani unit `loc` (C14): Position order and Location::{contains_position, contains, union}
// of crates/samlang-ast/src/loc.rs over all u32 quadruples.
use super::*;

fn any_pos() -> Position {
  Position(kani::any(), kani::any())
}

fn any_module() -> ModuleReference {
  let k: u8 = kani::any();
  kani::assume(k < 3);
  match k {
    0 => ModuleReference::ROOT,
    1 => ModuleReference::DUMMY,
    _ => ModuleReference::STD_TUPLES,
  }
}

/// start <= end
fn any_wf_loc(m: ModuleReference) -> Location {
  let l = Location { module_reference: m, start: any_pos(), end: any_pos() };
  kani::assume(l.start <= l.end);
  l
}

fn lex_lt(p: Position, q: Position) -> bool {
  p.0 < q.0 || (p.0 == q.0 && p.1 < q.1)
}

#[kani::proof]
#[kani::unwind(2)]
fn position_order_is_lexicographic_line_then_column() {
  let (p, q) = (any_pos(), any_pos());
  assert!((p < q) == lex_lt(p, q));
  assert!((p > q) == lex_lt(q, p));
  assert!((p <= q) == !lex_lt(q, p));
  assert!((p >= q) == !lex_lt(p, q));
  assert!((p == q) == (p.0 == q.0 && p.1 == q.1));
  // total
  assert!(p < q || p == q || p > q);
}

#[kani::proof]
#[kani::unwind(2)]
fn contains_position_is_the_closed_interval() {
  let m = any_module();
  let l = Location { module_reference: m, start: any_pos(), end: any_pos() };
  let p = any_pos();
  assert!(l.contains_position(p) == (!lex_lt(p, l.start) && !lex_lt(l.end, p)));
}

#[kani::proof]
#[kani::unwind(2)]
fn contains_is_nesting_reflexive_transitive() {
  let m = any_module();
  let (a, b, c) = (any_wf_loc(m), any_wf_loc(m), any_wf_loc(m));
  assert!(a.contains(&a));
  assert!(a.contains(&b) == (a.start <= b.start && b.end <= a.end));
  if a.contains(&b) && b.contains(&c) {
    assert!(a.contains(&c));
  }
  if a.contains(&b) && b.contains(&a) {
    assert!(a.start == b.start && a.end == b.end);
  }
}

#[kani::proof]
#[kani::unwind(2)]
fn union_is_the_least_enclosing_range() {
  let m = any_module();
  let (a, b) = (any_wf_loc(m), any_wf_loc(m));
  let u = a.union(&b);
  assert!(u.module_reference == m);
  assert!(u.start <= u.end); // start not after end
  assert!(u.contains(&a) && u.contains(&b)); // encloses its sub-parts
  let c = any_wf_loc(m);
  if c.contains(&a) && c.contains(&b) {
    assert!(c.contains(&u)); // least
  }
  // commutative, idempotent
  let v = b.union(&a);
  assert!(u.start == v.start && u.end == v.end);
  let w = a.union(&a);
  assert!(w.start == a.start && w.end == a.end);
  // a position inside either operand is inside the union
  let p = any_pos();
  if a.contains_position(p) || b.contains_position(p) {
    assert!(u.contains_position(p));
  }
}

#[kani::proof]
#[kani::unwind(2)]
#[kani::should_panic]
fn union_of_different_modules_panics() {
  let (m1, m2) = (any_module(), any_module());
  kani::assume(m1 != m2);
  let (a, b) = (any_wf_loc(m1), any_wf_loc(m2));
  let _ = a.union(&b);
}
