// Kani unit `mirbin` (C02): operand reordering / comparison flipping / MINUS-literal
// normalisation in crates/samlang-ast/src/mir.rs (Statement::binary_unwrapped,
// Statement::flexible_order_binary), real functions and the real `Ord for Expression`.
use super::*;
use crate::hir::BinaryOperator;
include!("/verif/kx/harness/common/wasm_sem.rs");

const LETTERS: [char; 3] = ['a', 'b', 'c'];

/// An arbitrary operand: any i32 literal, any i31 literal, one of three variables, one of
/// three string names (names are inline one-letter handles, so no heap is needed).
fn any_expr() -> (Expression, u8, u8) {
  let kind: u8 = kani::any();
  kani::assume(kind < 4);
  let idx: u8 = kani::any();
  kani::assume(idx < 3);
  let n: i32 = kani::any();
  let e = match kind {
    0 => Expression::Int32Literal(n),
    1 => Expression::Int31Literal(n),
    2 => Expression::StringName(PStr::one_letter_literal(LETTERS[idx as usize])),
    _ => Expression::Variable(VariableName { name: PStr::one_letter_literal(LETTERS[idx as usize]), type_: INT_32_TYPE }),
  };
  (e, kind, idx)
}

/// Value of an operand under a valuation (variables) / address assignment (string names).
fn eval(e: &Expression, vars: &[i32; 3], strs: &[i32; 3]) -> i32 {
  match e {
    Expression::Int32Literal(n) | Expression::Int31Literal(n) => *n,
    Expression::StringName(p) => strs[letter_index(*p)],
    Expression::Variable(v) => vars[letter_index(v.name)],
  }
}

fn letter_index(p: PStr) -> usize {
  if p == PStr::LOWER_A {
    0
  } else if p == PStr::LOWER_B {
    1
  } else {
    2
  }
}

#[kani::proof]
#[kani::unwind(17)]
fn binary_unwrapped_same_value() {
  let op = any_op();
  let (e1, _, _) = any_expr();
  let (e2, _, _) = any_expr();
  let vars: [i32; 3] = kani::any();
  let strs: [i32; 3] = kani::any();
  let before = wasm_sem(op, eval(&e1, &vars, &strs), eval(&e2, &vars, &strs));
  let b = Statement::binary_unwrapped(PStr::LOWER_Z, op, e1, e2);
  assert!(b.name == PStr::LOWER_Z);
  let after = wasm_sem(b.operator, eval(&b.e1, &vars, &strs), eval(&b.e2, &vars, &strs));
  assert!(before == after);
}

#[kani::proof]
#[kani::unwind(17)]
fn flexible_order_binary_same_value() {
  let op = any_op();
  let (e1, _, _) = any_expr();
  let (e2, _, _) = any_expr();
  let vars: [i32; 3] = kani::any();
  let strs: [i32; 3] = kani::any();
  let before = wasm_sem(op, eval(&e1, &vars, &strs), eval(&e2, &vars, &strs));
  let (op2, f1, f2) = Statement::flexible_order_binary(op, e1, e2);
  let after = wasm_sem(op2, eval(&f1, &vars, &strs), eval(&f2, &vars, &strs));
  assert!(before == after);
}

#[kani::proof]
#[kani::unwind(17)]
fn binary_flexible_unwrapped_same_value() {
  let op = any_op();
  let (e1, _, _) = any_expr();
  let (e2, _, _) = any_expr();
  let vars: [i32; 3] = kani::any();
  let strs: [i32; 3] = kani::any();
  let before = wasm_sem(op, eval(&e1, &vars, &strs), eval(&e2, &vars, &strs));
  let b = Statement::binary_flexible_unwrapped(PStr::LOWER_Z, op, e1, e2);
  let after = wasm_sem(b.operator, eval(&b.e1, &vars, &strs), eval(&b.e2, &vars, &strs));
  assert!(before == after);
}

/// the normal form is canonical: both operand orders of a commutative operator give the same triple
#[kani::proof]
#[kani::unwind(17)]
fn flexible_order_binary_is_order_insensitive_for_commutative_ops() {
  let k: u8 = kani::any();
  kani::assume(k == 0 || k == 3 || k == 5 || k == 6 || k == 9 || k == 14 || k == 15);
  let op = op_of(k);
  let (e1, _, _) = any_expr();
  let (e2, _, _) = any_expr();
  kani::assume(e1 != e2);
  let (o1, a1, a2) = Statement::flexible_order_binary(op, e1, e2);
  let (o2, b1, b2) = Statement::flexible_order_binary(op, e2, e1);
  assert!(o1 == o2 && a1 == b1 && a2 == b2);
}
