// Kani unit `mirbin` (C02): operand reordering / comparison flipping / MINUS-literal
// normalisation in crates/samlang-ast/src/mir.rs (Statement::binary_unwrapped,
// Statement::flexible_order_binary), real functions and the real `Ord for Expression`.
//
// The contracts are structural (which operator / operand order comes out) plus the value identity
// each rewrite relies on, checked per operator where SAT can do it; commutativity of the 32-bit
// multiplier is Verus lemma algebra::lemma_wrapping_mul_commutes.
use super::*;
use crate::hir::BinaryOperator;
include!("/verif/kx/harness/common/wasm_sem.rs");

const LETTERS: [char; 3] = ['a', 'b', 'c'];

/// An arbitrary operand: any i32 literal, any i31 literal, one of three variables, one of
/// three string names (names are inline one-letter handles, so no heap is needed).
fn any_expr() -> Expression {
  let kind: u8 = kani::any();
  kani::assume(kind < 4);
  let idx: u8 = kani::any();
  kani::assume(idx < 3);
  let n: i32 = kani::any();
  match kind {
    0 => Expression::Int32Literal(n),
    1 => Expression::Int31Literal(n),
    2 => Expression::StringName(PStr::one_letter_literal(LETTERS[idx as usize])),
    _ => Expression::Variable(VariableName { name: PStr::one_letter_literal(LETTERS[idx as usize]), type_: INT_32_TYPE }),
  }
}

/// structural identity of operands
fn same(e1: &Expression, e2: &Expression) -> bool {
  match (e1, e2) {
    (Expression::Int32Literal(a), Expression::Int32Literal(b)) => a == b,
    (Expression::Int31Literal(a), Expression::Int31Literal(b)) => a == b,
    (Expression::StringName(a), Expression::StringName(b)) => a == b,
    (Expression::Variable(a), Expression::Variable(b)) => a.name == b.name,
    _ => false,
  }
}

/// the operator that denotes the same relation with its operands exchanged (None: not exchangeable)
fn exchanged(op: BinaryOperator) -> Option<BinaryOperator> {
  match op {
    BinaryOperator::MUL
    | BinaryOperator::PLUS
    | BinaryOperator::LAND
    | BinaryOperator::LOR
    | BinaryOperator::XOR
    | BinaryOperator::EQ
    | BinaryOperator::NE => Some(op),
    BinaryOperator::LT => Some(BinaryOperator::GT),
    BinaryOperator::GT => Some(BinaryOperator::LT),
    BinaryOperator::LE => Some(BinaryOperator::GE),
    BinaryOperator::GE => Some(BinaryOperator::LE),
    BinaryOperator::DIV | BinaryOperator::MOD | BinaryOperator::MINUS | BinaryOperator::SHL | BinaryOperator::SHR => None,
  }
}

/// binary_unwrapped leaves the statement alone, except that `e - n` becomes `e + (-n)` for a
/// literal n other than i32::MIN (whose negation does not exist)
#[kani::proof]
#[kani::unwind(17)]
fn binary_unwrapped_shape() {
  let op = any_op();
  let (e1, e2) = (any_expr(), any_expr());
  let b = Statement::binary_unwrapped(PStr::LOWER_Z, op, e1, e2);
  assert!(b.name == PStr::LOWER_Z);
  assert!(same(&b.e1, &e1));
  match (op, &e2) {
    (BinaryOperator::MINUS, Expression::Int32Literal(n)) if *n != i32::MIN => {
      assert!(b.operator == BinaryOperator::PLUS);
      assert!(same(&b.e2, &Expression::Int32Literal(n.wrapping_neg())));
      // the identity the rewrite relies on, for every value of e1
      let x: i32 = kani::any();
      assert!(wasm_sem(BinaryOperator::MINUS, x, *n) == wasm_sem(BinaryOperator::PLUS, x, n.wrapping_neg()));
    }
    _ => {
      assert!(b.operator == op);
      assert!(same(&b.e2, &e2));
    }
  }
}

/// flexible_order_binary returns the (normalised) operands in the given order with the same
/// operator, or exchanged with the exchanged operator; never exchanged for / % - << >>>
#[kani::proof]
#[kani::unwind(17)]
fn flexible_order_binary_shape() {
  let op = any_op();
  let (e1, e2) = (any_expr(), any_expr());
  let n = Statement::binary_unwrapped(PStr::LOWER_Z, op, e1, e2);
  let (op2, f1, f2) = Statement::flexible_order_binary(op, e1, e2);
  let kept = op2 == n.operator && same(&f1, &n.e1) && same(&f2, &n.e2);
  let swapped = exchanged(n.operator) == Some(op2) && same(&f1, &n.e2) && same(&f2, &n.e1);
  assert!(kept || swapped);
  kani::cover!(swapped && !kept);
}

#[kani::proof]
#[kani::unwind(17)]
fn binary_flexible_unwrapped_is_the_composition() {
  let op = any_op();
  let (e1, e2) = (any_expr(), any_expr());
  let (op2, f1, f2) = Statement::flexible_order_binary(op, e1, e2);
  let direct = Statement::binary_unwrapped(PStr::LOWER_Z, op2, f1, f2);
  let b = Statement::binary_flexible_unwrapped(PStr::LOWER_Z, op, e1, e2);
  assert!(b.name == PStr::LOWER_Z && b.operator == direct.operator && same(&b.e1, &direct.e1) && same(&b.e2, &direct.e2));
}

/// exchanging the operands and the operator keeps the value (every exchangeable operator except
/// MUL, whose commutativity modulo 2^32 is a Verus lemma)
#[kani::proof]
#[kani::unwind(2)]
fn exchanged_operator_same_value() {
  let op = any_op();
  kani::assume(op != BinaryOperator::MUL);
  let (a, b): (i32, i32) = (kani::any(), kani::any());
  if let Some(op2) = exchanged(op) {
    assert!(wasm_sem(op, a, b) == wasm_sem(op2, b, a));
  }
}

/// the normal form is canonical: both operand orders of a commutative operator give the same triple
#[kani::proof]
#[kani::unwind(17)]
fn flexible_order_binary_is_order_insensitive_for_commutative_ops() {
  let k: u8 = kani::any();
  kani::assume(k == 0 || k == 3 || k == 5 || k == 6 || k == 9 || k == 14 || k == 15);
  let op = op_of(k);
  let (e1, e2) = (any_expr(), any_expr());
  kani::assume(e1 != e2);
  let (o1, a1, a2) = Statement::flexible_order_binary(op, e1, e2);
  let (o2, b1, b2) = Statement::flexible_order_binary(op, e2, e1);
  assert!(o1 == o2 && same(&a1, &b1) && same(&a2, &b2));
}

// ---- helper for Kani units that only carry a &SymbolTable (see Heap::kani_empty)
impl SymbolTable {
  pub(crate) fn kani_empty() -> SymbolTable {
    SymbolTable {
      type_name_interning_table: HashMap::new(),
      type_name_lookup_table: HashMap::new(),
      subtype_to_parent: HashMap::new(),
    }
  }
}
