// Kani unit `prec` (C08): the precedence table the formatter uses to decide about parentheses
// (expr::BinaryOperator::precedence, expr::E::precedence in crates/samlang-ast/src/source.rs) against
// the binding levels of the grammar as the property states them:
//     ||  <  &&  <  comparisons  <  + -  <  * / %  <  ::  <  unary  <  postfix / primary
use super::*;
use super::expr::{BinaryOperator, ExpressionCommon, UnaryOperator, E};

/// binding level in the grammar (higher binds tighter)
fn grammar_level(op: BinaryOperator) -> u8 {
  match op {
    BinaryOperator::OR => 0,
    BinaryOperator::AND => 1,
    BinaryOperator::LT | BinaryOperator::LE | BinaryOperator::GT | BinaryOperator::GE | BinaryOperator::EQ | BinaryOperator::NE => 2,
    BinaryOperator::PLUS | BinaryOperator::MINUS => 3,
    BinaryOperator::MUL | BinaryOperator::DIV | BinaryOperator::MOD => 4,
    BinaryOperator::CONCAT => 5,
  }
}

fn any_bin_op() -> BinaryOperator {
  let k: u8 = kani::any();
  kani::assume(k < 14);
  match k {
    0 => BinaryOperator::MUL,
    1 => BinaryOperator::DIV,
    2 => BinaryOperator::MOD,
    3 => BinaryOperator::PLUS,
    4 => BinaryOperator::MINUS,
    5 => BinaryOperator::LT,
    6 => BinaryOperator::LE,
    7 => BinaryOperator::GT,
    8 => BinaryOperator::GE,
    9 => BinaryOperator::EQ,
    10 => BinaryOperator::NE,
    11 => BinaryOperator::AND,
    12 => BinaryOperator::OR,
    _ => BinaryOperator::CONCAT,
  }
}

fn leaf() -> E<()> {
  E::Literal(ExpressionCommon::dummy(()), Literal::Bool(true))
}

fn binary(op: BinaryOperator) -> E<()> {
  E::Binary(expr::Binary {
    common: ExpressionCommon::dummy(()),
    operator_preceding_comments: NO_COMMENT_REFERENCE,
    operator: op,
    e1: Box::new(leaf()),
    e2: Box::new(leaf()),
  })
}

/// the table is order-reversing w.r.t. the grammar levels (smaller number = binds tighter), for every
/// pair of the 14 operators
#[kani::proof]
#[kani::unwind(4)]
fn operator_precedence_mirrors_grammar_levels() {
  let (a, b) = (any_bin_op(), any_bin_op());
  assert!((a.precedence() < b.precedence()) == (grammar_level(a) > grammar_level(b)));
  assert!((a.precedence() == b.precedence()) == (grammar_level(a) == grammar_level(b)));
}

/// the same claim without `::` (the paired restricted obligation of the known finding about CONCAT)
#[kani::proof]
#[kani::unwind(4)]
fn operator_precedence_mirrors_grammar_levels_except_concat() {
  let (a, b) = (any_bin_op(), any_bin_op());
  kani::assume(a != BinaryOperator::CONCAT && b != BinaryOperator::CONCAT);
  assert!((a.precedence() < b.precedence()) == (grammar_level(a) > grammar_level(b)));
  assert!((a.precedence() == b.precedence()) == (grammar_level(a) == grammar_level(b)));
}

/// the same through E::precedence, and every binary expression binds looser than unary, which binds
/// looser than postfix / primary expressions
#[kani::proof]
#[kani::unwind(4)]
fn expression_precedence_mirrors_grammar_levels() {
  let (a, b) = (any_bin_op(), any_bin_op());
  let (ea, eb) = (binary(a), binary(b));
  let neg = E::Unary(expr::Unary { common: ExpressionCommon::dummy(()), operator: UnaryOperator::NEG, argument: Box::new(leaf()) });
  let lf = leaf();
  let (pa, pb, pn, pl) = (ea.precedence(), eb.precedence(), neg.precedence(), lf.precedence());
  // the values are only inspected; skipping the (large, recursive) drop glue keeps the query small
  std::mem::forget(ea);
  std::mem::forget(eb);
  std::mem::forget(neg);
  std::mem::forget(lf);
  if a != BinaryOperator::CONCAT && b != BinaryOperator::CONCAT {
    assert!((pa < pb) == (grammar_level(a) > grammar_level(b)));
  }
  assert!(pn < pa);
  assert!(pl < pn);
}
