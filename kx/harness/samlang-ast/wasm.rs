// Kani unit `wasmops` (C01, C04): the WebAssembly instruction chosen for each operator by
// InlineInstruction::pretty_print (crates/samlang-ast/src/wasm.rs), real printer.
use super::*;
use crate::hir::BinaryOperator;

fn rs_stub() -> std::hash::RandomState {
  unsafe { std::mem::transmute::<(u64, u64), std::hash::RandomState>((0u64, 0u64)) }
}

/// The WebAssembly instruction whose meaning is `wasm_sem(op)` of kx/harness/common/wasm_sem.rs:
/// signed division/remainder/comparisons, logical (unsigned) right shift.
fn instruction_for(op: BinaryOperator) -> &'static str {
  match op {
    BinaryOperator::MUL => "i32.mul",
    BinaryOperator::DIV => "i32.div_s",
    BinaryOperator::MOD => "i32.rem_s",
    BinaryOperator::PLUS => "i32.add",
    BinaryOperator::MINUS => "i32.sub",
    BinaryOperator::LAND => "i32.and",
    BinaryOperator::LOR => "i32.or",
    BinaryOperator::SHL => "i32.shl",
    BinaryOperator::SHR => "i32.shr_u",
    BinaryOperator::XOR => "i32.xor",
    BinaryOperator::LT => "i32.lt_s",
    BinaryOperator::LE => "i32.le_s",
    BinaryOperator::GT => "i32.gt_s",
    BinaryOperator::GE => "i32.ge_s",
    BinaryOperator::EQ => "i32.eq",
    BinaryOperator::NE => "i32.ne",
  }
}

fn op_of(k: u8) -> BinaryOperator {
  match k {
    0 => BinaryOperator::MUL,
    1 => BinaryOperator::DIV,
    2 => BinaryOperator::MOD,
    3 => BinaryOperator::PLUS,
    4 => BinaryOperator::MINUS,
    5 => BinaryOperator::LAND,
    6 => BinaryOperator::LOR,
    7 => BinaryOperator::SHL,
    8 => BinaryOperator::SHR,
    9 => BinaryOperator::XOR,
    10 => BinaryOperator::LT,
    11 => BinaryOperator::LE,
    12 => BinaryOperator::GT,
    13 => BinaryOperator::GE,
    14 => BinaryOperator::EQ,
    _ => BinaryOperator::NE,
  }
}

fn printed(op: BinaryOperator, is_ref: bool) -> String {
  let heap = Heap::kani_empty();
  let table = mir::SymbolTable::kani_empty();
  let ins = InlineInstruction::Binary {
    v1: Box::new(InlineInstruction::Unreachable),
    op,
    v2: Box::new(InlineInstruction::LocalGet(PStr::LOWER_B)),
    is_ref_comparison: is_ref,
  };
  // pre-sized so that the printer's push_str calls never reallocate (keeps the CBMC query small)
  let mut s = String::with_capacity(96);
  ins.pretty_print(&mut s, &heap, &table);
  // the values were only read; skipping their drop glue keeps the query small
  std::mem::forget(ins);
  std::mem::forget(heap);
  std::mem::forget(table);
  s
}

fn expected(op: BinaryOperator, is_ref: bool) -> String {
  // built with push_str (format! is very expensive under CBMC)
  let (a, b) = ("(unreachable)", "(local.get $b)");
  let mut s = String::with_capacity(96);
  if is_ref && op == BinaryOperator::EQ {
    s.push_str("(ref.eq ");
    s.push_str(a);
    s.push(' ');
    s.push_str(b);
    s.push(')');
  } else if is_ref && op == BinaryOperator::NE {
    s.push_str("(i32.xor (ref.eq ");
    s.push_str(a);
    s.push(' ');
    s.push_str(b);
    s.push_str(") (i32.const 1))");
  } else {
    // operands in source order: first operand first
    s.push('(');
    s.push_str(instruction_for(op));
    s.push(' ');
    s.push_str(a);
    s.push(' ');
    s.push_str(b);
    s.push(')');
  }
  s
}

fn check(k: u8, is_ref: bool) {
  let op = op_of(k);
  let got = printed(op, is_ref);
  let want = expected(op, is_ref);
  assert!(got.as_bytes() == want.as_bytes());
}

macro_rules! op_harness {
  ($name:ident, $k:expr) => {
    #[kani::proof]
    #[kani::stub(std::hash::RandomState::new, rs_stub)]
    #[kani::unwind(64)]
    fn $name() {
      check($k, kani::any());
    }
  };
}
op_harness!(wasm_op_mul, 0);
op_harness!(wasm_op_div, 1);
op_harness!(wasm_op_mod, 2);
op_harness!(wasm_op_plus, 3);
op_harness!(wasm_op_minus, 4);
op_harness!(wasm_op_land, 5);
op_harness!(wasm_op_lor, 6);
op_harness!(wasm_op_shl, 7);
op_harness!(wasm_op_shr, 8);
op_harness!(wasm_op_xor, 9);
op_harness!(wasm_op_lt, 10);
op_harness!(wasm_op_le, 11);
op_harness!(wasm_op_gt, 12);
op_harness!(wasm_op_ge, 13);
op_harness!(wasm_op_eq, 14);
op_harness!(wasm_op_ne, 15);
