// Kani unit `pstr` (C17 layer A): the 16-byte handle, run on the real union code.
// Spliced under cfg(kani) as a child module of crates/samlang-heap/src/lib.rs, so private items are visible.
use super::*;

const FORBIDDEN_UTF8_BYTE: fn(u8) -> bool = |b| b == 0xC0 || b == 0xC1 || b >= 0xF5;

/// any byte string of length 0..=17 whose bytes can occur in UTF-8 (a superset of the valid
/// strings of that length: only enlarges the domain), viewed as &str.  from_str_opt / eq / cmp
/// read bytes and length only.
fn any_str(buf: &[u8; 17]) -> &str {
  let len: usize = kani::any();
  kani::assume(len <= 17);
  let mut i = 0;
  while i < 17 {
    kani::assume(!FORBIDDEN_UTF8_BYTE(buf[i]));
    i += 1;
  }
  unsafe { std::str::from_utf8_unchecked(&buf[..len]) }
}

fn bits(r: &PStrPrivateRepr) -> u128 {
  unsafe { r.heap_id }
}

// ---- obligation 1: ids round-trip, tag byte is 255
#[kani::proof]
#[kani::unwind(19)]
fn pstr_from_id_roundtrip() {
  let id: u32 = kani::any();
  let r = PStrPrivateRepr::from_id(id);
  assert!(r.as_heap_id() == Some(id));
  assert!(r.as_inline_str() == Err(id));
  assert!((bits(&r) >> 120) == 255);
}

// ---- obligation 2: inline iff len <= 15; reads back the exact bytes; never looks like an id
#[kani::proof]
#[kani::unwind(19)]
fn pstr_inline_roundtrip() {
  let buf: [u8; 17] = kani::any();
  let s = any_str(&buf);
  match PStrPrivateRepr::from_str_opt(s) {
    Some(r) => {
      assert!(s.len() <= 15);
      assert!(r.as_heap_id().is_none());
      match r.as_inline_str() {
        Ok(back) => assert!(back.as_bytes() == s.as_bytes()),
        Err(_) => assert!(false),
      }
    }
    None => assert!(s.len() > 15),
  }
  kani::cover!(s.len() == 15);
  kani::cover!(s.len() == 16);
}

// ---- obligation 2 again over exactly the valid UTF-8 strings (thorough tier: `from_utf8` on 17 symbolic
// bytes is expensive); the quick-tier harness above covers a superset of this domain
#[kani::proof]
#[kani::unwind(19)]
fn pstr_inline_roundtrip_exact_utf8() {
  let buf: [u8; 17] = kani::any();
  let len: usize = kani::any();
  kani::assume(len <= 17);
  let r = std::str::from_utf8(&buf[..len]);
  kani::assume(r.is_ok());
  let s = r.unwrap();
  match PStrPrivateRepr::from_str_opt(s) {
    Some(r) => {
      assert!(s.len() <= 15);
      assert!(r.as_heap_id().is_none());
      match r.as_inline_str() {
        Ok(back) => assert!(back.as_bytes() == s.as_bytes()),
        Err(_) => assert!(false),
      }
    }
    None => assert!(s.len() > 15),
  }
}

// ---- obligation 3: from_string agrees with from_str_opt bit for bit; Err returns the string
#[kani::proof]
#[kani::unwind(19)]
fn pstr_from_string_agrees() {
  let buf: [u8; 17] = kani::any();
  let s = any_str(&buf);
  let owned = unsafe { String::from_utf8_unchecked(s.as_bytes().to_vec()) };
  match (PStrPrivateRepr::from_string(owned), PStrPrivateRepr::from_str_opt(s)) {
    (Ok(a), Some(b)) => assert!(bits(&a) == bits(&b)),
    (Err(back), None) => assert!(back.as_bytes() == s.as_bytes()),
    _ => assert!(false),
  }
}

// ---- obligation 4: raw equality is string equality (inline) / id equality; inline never equals id
#[kani::proof]
#[kani::unwind(19)]
fn pstr_eq_inline_inline() {
  let buf1: [u8; 17] = kani::any();
  let buf2: [u8; 17] = kani::any();
  let s1 = any_str(&buf1);
  let s2 = any_str(&buf2);
  if let (Some(r1), Some(r2)) = (PStrPrivateRepr::from_str_opt(s1), PStrPrivateRepr::from_str_opt(s2)) {
    assert!((r1 == r2) == (s1.as_bytes() == s2.as_bytes()));
    assert!((PStr(r1) == PStr(r2)) == (s1.as_bytes() == s2.as_bytes()));
    kani::cover!(r1 == r2 && s1.len() == 15);
    kani::cover!(r1 != r2 && s1.len() == s2.len());
  }
}

#[kani::proof]
#[kani::unwind(19)]
fn pstr_eq_inline_id() {
  let buf: [u8; 17] = kani::any();
  let s = any_str(&buf);
  let id: u32 = kani::any();
  if let Some(r1) = PStrPrivateRepr::from_str_opt(s) {
    let r2 = PStrPrivateRepr::from_id(id);
    assert!(r1 != r2);
    assert!(r1.cmp(&r2) == std::cmp::Ordering::Less);
    assert!(r2.cmp(&r1) == std::cmp::Ordering::Greater);
  }
}

#[kani::proof]
#[kani::unwind(19)]
fn pstr_eq_id_id() {
  let id1: u32 = kani::any();
  let id2: u32 = kani::any();
  let r1 = PStrPrivateRepr::from_id(id1);
  let r2 = PStrPrivateRepr::from_id(id2);
  assert!((r1 == r2) == (id1 == id2));
  assert!((r1.cmp(&r2) == std::cmp::Ordering::Equal) == (id1 == id2));
  assert!(r1.partial_cmp(&r2) == Some(r1.cmp(&r2)));
}

// ---- obligation 4b: cmp == Equal iff eq (inline/inline)
#[kani::proof]
#[kani::unwind(19)]
fn pstr_cmp_equal_iff_eq_inline() {
  let buf1: [u8; 17] = kani::any();
  let buf2: [u8; 17] = kani::any();
  let s1 = any_str(&buf1);
  let s2 = any_str(&buf2);
  if let (Some(r1), Some(r2)) = (PStrPrivateRepr::from_str_opt(s1), PStrPrivateRepr::from_str_opt(s2)) {
    assert!((r1.cmp(&r2) == std::cmp::Ordering::Equal) == (r1 == r2));
  }
}

// ---- obligation 4c: hash feeds exactly the 128 compared bits
struct RecordingHasher {
  bytes: [u8; 16],
  n: usize,
  overflow: bool,
}
impl std::hash::Hasher for RecordingHasher {
  fn finish(&self) -> u64 {
    0
  }
  fn write(&mut self, b: &[u8]) {
    let mut i = 0;
    while i < b.len() {
      if self.n < 16 {
        self.bytes[self.n] = b[i];
        self.n += 1;
      } else {
        self.overflow = true;
      }
      i += 1;
    }
  }
}

#[kani::proof]
#[kani::unwind(19)]
fn pstr_hash_feeds_raw_bits() {
  let raw: u128 = kani::any();
  let r = PStrPrivateRepr { heap_id: raw };
  let mut h = RecordingHasher { bytes: [0; 16], n: 0, overflow: false };
  std::hash::Hash::hash(&r, &mut h);
  assert!(h.n == 16 && !h.overflow);
  assert!(u128::from_ne_bytes(h.bytes) == raw);
}

// ---- obligation 5: the const-fn literal constructors equal from_str_opt of the same bytes
fn same_as_from_bytes(p: PStr, b: &[u8]) -> bool {
  let s = unsafe { std::str::from_utf8_unchecked(b) };
  match PStrPrivateRepr::from_str_opt(s) {
    Some(r) => bits(&r) == bits(&p.0),
    None => false,
  }
}

#[kani::proof]
#[kani::unwind(17)]
fn pstr_letter_literals_1_to_4() {
  let c: char = kani::any();
  kani::assume(c.is_ascii());
  assert!(same_as_from_bytes(PStr::one_letter_literal(c), &[c as u8]));
  let b2: [u8; 2] = kani::any();
  assert!(same_as_from_bytes(PStr::two_letter_literal(&b2), &b2));
  let b3: [u8; 3] = kani::any();
  assert!(same_as_from_bytes(PStr::three_letter_literal(&b3), &b3));
  let b4: [u8; 4] = kani::any();
  assert!(same_as_from_bytes(PStr::four_letter_literal(&b4), &b4));
}

#[kani::proof]
#[kani::unwind(17)]
fn pstr_letter_literals_5_to_8() {
  let b5: [u8; 5] = kani::any();
  assert!(same_as_from_bytes(PStr::five_letter_literal(&b5), &b5));
  let b6: [u8; 6] = kani::any();
  assert!(same_as_from_bytes(PStr::six_letter_literal(&b6), &b6));
  let b7: [u8; 7] = kani::any();
  assert!(same_as_from_bytes(PStr::seven_letter_literal(&b7), &b7));
  let b8: [u8; 8] = kani::any();
  assert!(same_as_from_bytes(PStr::eight_letter_literal(&b8), &b8));
}

#[kani::proof]
#[kani::unwind(17)]
fn pstr_letter_literals_9_12() {
  let b9: [u8; 9] = kani::any();
  assert!(same_as_from_bytes(PStr::nine_letter_literal(&b9), &b9));
  let b12: [u8; 12] = kani::any();
  assert!(same_as_from_bytes(PStr::twelve_letter_literal(&b12), &b12));
}

// ---- facts the Verus unit `heap` assumes about named constants and the empty string
#[kani::proof]
#[kani::unwind(17)]
fn pstr_constants_are_inline() {
  assert!(PStr::DUMMY_MODULE.0.as_heap_id().is_none());
  assert!(PStr::STD.0.as_heap_id().is_none());
  assert!(PStr::TUPLES.0.as_heap_id().is_none());
  assert!(PStr::EMPTY.0.as_heap_id().is_none());
  assert!(PStrPrivateRepr::from_str_opt("").is_some());
  assert!(same_as_from_bytes(PStr::EMPTY, b""));
  assert!(same_as_from_bytes(PStr::DUMMY_MODULE, b"DUMMY"));
  assert!(same_as_from_bytes(PStr::STD, b"std"));
  assert!(same_as_from_bytes(PStr::TUPLES, b"tuples"));
}

// ---- PStr::create_inline_opt is from_str_opt wrapped (contract used by the Verus unit)
#[kani::proof]
#[kani::unwind(19)]
fn pstr_create_inline_opt_wraps() {
  let buf: [u8; 17] = kani::any();
  let s = any_str(&buf);
  match (PStr::create_inline_opt(s), PStrPrivateRepr::from_str_opt(s)) {
    (Some(p), Some(r)) => assert!(bits(&p.0) == bits(&r)),
    (None, None) => {}
    _ => assert!(false),
  }
}

// ---- helper for Kani units in other crates: a Heap with empty tables, built as a struct literal.
// `Heap::new()` inserts into std HashMaps (SipHash), which CBMC cannot execute; harnesses that only
// *carry* a &Heap (inline handles never touch the tables) use this together with a stub for
// `RandomState::new`.
impl Heap {
  pub fn kani_empty() -> Heap {
    Heap {
      str_pointer_table: Vec::new(),
      module_reference_pointer_table: Vec::new(),
      interned_string: HashMap::new(),
      interned_static_str: HashMap::new(),
      interned_module_reference: HashMap::new(),
      unmarked_module_references: HashSet::new(),
      sweep_index: 0,
    }
  }
}

/// stub for std::hash::RandomState::new (reads OS randomness through foreign calls)
pub fn kani_random_state_stub() -> std::hash::RandomState {
  unsafe { std::mem::transmute::<(u64, u64), std::hash::RandomState>((0u64, 0u64)) }
}
