// Kani unit `fold` (C02, C05): constant folding and algebraic merging in
// crates/samlang-optimization/src/conditional_constant_propagation.rs, real functions.
use super::*;
include!("/verif/kx/harness/common/wasm_sem.rs");

/// Contract of evaluate_bin_op, taken from the property: it never panics, and when it folds
/// (`Some(v)`) the value is exactly what the target computes; an operation that traps at run
/// time is never folded away.
fn fold_contract(op: BinaryOperator) {
  let a: i32 = kani::any();
  let b: i32 = kani::any();
  match evaluate_bin_op(op, a, b) {
    Some(v) => assert!(wasm_sem(op, a, b) == Some(v)),
    None => {}
  }
}

#[kani::proof]
#[kani::unwind(2)]
fn fold_mul() {
  fold_contract(BinaryOperator::MUL)
}
#[kani::proof]
#[kani::unwind(2)]
fn fold_plus() {
  fold_contract(BinaryOperator::PLUS)
}
#[kani::proof]
#[kani::unwind(2)]
fn fold_minus() {
  fold_contract(BinaryOperator::MINUS)
}
#[kani::proof]
#[kani::unwind(2)]
fn fold_land() {
  fold_contract(BinaryOperator::LAND)
}
#[kani::proof]
#[kani::unwind(2)]
fn fold_lor() {
  fold_contract(BinaryOperator::LOR)
}
#[kani::proof]
#[kani::unwind(2)]
fn fold_xor() {
  fold_contract(BinaryOperator::XOR)
}
#[kani::proof]
#[kani::unwind(2)]
fn fold_shl() {
  fold_contract(BinaryOperator::SHL)
}
#[kani::proof]
#[kani::unwind(2)]
fn fold_shr() {
  fold_contract(BinaryOperator::SHR)
}
#[kani::proof]
#[kani::unwind(2)]
fn fold_comparisons() {
  let k: u8 = kani::any();
  kani::assume(k >= 10 && k < 16);
  fold_contract(op_of(k))
}

/// DIV / MOD: panic-freedom, trap preservation (None exactly when the target traps, or a
/// conservative None), and the quotient/remainder law instead of a second divider.
#[kani::proof]
#[kani::unwind(2)]
fn fold_div_no_panic_and_traps_kept() {
  let a: i32 = kani::any();
  let b: i32 = kani::any();
  let r = evaluate_bin_op(BinaryOperator::DIV, a, b);
  if b == 0 || (a == i32::MIN && b == -1) {
    assert!(r.is_none());
  }
}
#[kani::proof]
#[kani::unwind(2)]
fn fold_mod_no_panic_and_traps_kept() {
  let a: i32 = kani::any();
  let b: i32 = kani::any();
  let r = evaluate_bin_op(BinaryOperator::MOD, a, b);
  if b == 0 {
    assert!(r.is_none());
  }
  if a == i32::MIN && b == -1 {
    assert!(r.is_none() || r == Some(0));
  }
}
/// BOUNDED stand-in (|a|, |b| <= 1024 plus the range ends): the folded quotient / remainder obey the
/// truncating-division law.  The full-domain version needs a 32-bit divider and multiplier in one
/// SAT query and does not finish; full-domain panic-freedom and trap preservation are proved above.
#[kani::proof]
#[kani::unwind(2)]
fn fold_div_mod_value_bounded() {
  let a: i32 = kani::any();
  let b: i32 = kani::any();
  kani::assume((-1024 <= a && a <= 1024) || a == i32::MIN || a == i32::MAX);
  kani::assume(-1024 <= b && b <= 1024);
  kani::assume(b != 0 && !(a == i32::MIN && b == -1));
  let q = evaluate_bin_op(BinaryOperator::DIV, a, b);
  let r = evaluate_bin_op(BinaryOperator::MOD, a, b);
  assert!(q.is_some() && r.is_some());
  let (a, b, q, r) = (a as i64, b as i64, q.unwrap() as i64, r.unwrap() as i64);
  assert!(q * b + r == a);
  assert!(r.abs() < b.abs());
  assert!(r == 0 || (r < 0) == (a < 0));
}

// ---- merge_binary_expression: (x inner.op c1) outer_op c2  ==  x m.op m.e2, for every x
fn sem_chain(x: i32, inner_op: BinaryOperator, c1: i32, outer_op: BinaryOperator, c2: i32) -> Option<i32> {
  match wasm_sem(inner_op, x, c1) {
    Some(t) => wasm_sem(outer_op, t, c2),
    None => None,
  }
}

fn merged(inner_op: BinaryOperator, c1: i32, outer_op: BinaryOperator, c2: i32) -> Option<(BinaryOperator, i32)> {
  let inner = BinaryExpression {
    operator: inner_op,
    e1: VariableName { name: PStr::LOWER_A, type_: INT_32_TYPE },
    e2: c1,
  };
  merge_binary_expression(outer_op, &inner, c2).map(|m| {
    assert!(m.e1.name == PStr::LOWER_A);
    (m.operator, m.e2)
  })
}

#[kani::proof]
#[kani::unwind(17)]
fn merge_plus_same_value() {
  // (x inner c1) + c2: merged only for inner PLUS, and then equal for every x
  let inner_op = any_op();
  kani::assume(!matches!(inner_op, BinaryOperator::DIV | BinaryOperator::MOD | BinaryOperator::MUL));
  let (c1, c2, x): (i32, i32, i32) = (kani::any(), kani::any(), kani::any());
  if let Some((op, c)) = merged(inner_op, c1, BinaryOperator::PLUS, c2) {
    assert!(wasm_sem(op, x, c) == sem_chain(x, inner_op, c1, BinaryOperator::PLUS, c2));
  }
  kani::cover!(merged(inner_op, c1, BinaryOperator::PLUS, c2).is_some());
}

#[kani::proof]
#[kani::unwind(17)]
fn merge_plus_refuses_div_mod_mul_inner() {
  let k: u8 = kani::any();
  kani::assume(k < 3);
  let (c1, c2): (i32, i32) = (kani::any(), kani::any());
  assert!(merged(op_of(k), c1, BinaryOperator::PLUS, c2).is_none());
}

/// (x * c1) * c2: merged only for inner MUL and then into x * (c1 *wrapping c2).  That this
/// has the same value for every x is associativity in Z/2^32 — Verus lemma
/// `lemma_wrapping_mul_assoc` in unit `algebra` (a 32-bit multiplier identity is out of SAT reach).
#[kani::proof]
#[kani::unwind(17)]
fn merge_mul_result_form() {
  let inner_op = any_op();
  let (c1, c2): (i32, i32) = (kani::any(), kani::any());
  match merged(inner_op, c1, BinaryOperator::MUL, c2) {
    Some((op, c)) => {
      assert!(inner_op == BinaryOperator::MUL && op == BinaryOperator::MUL);
      assert!(c == c1.wrapping_mul(c2));
    }
    None => assert!(inner_op != BinaryOperator::MUL),
  }
}

#[kani::proof]
#[kani::unwind(17)]
fn merge_refused_for_other_outer_operators() {
  let inner_op = any_op();
  let k: u8 = kani::any();
  kani::assume(k == 1 || k == 2 || (k >= 4 && k < 10));
  let (c1, c2): (i32, i32) = (kani::any(), kani::any());
  assert!(merged(inner_op, c1, op_of(k), c2).is_none());
}

#[kani::proof]
#[kani::unwind(17)]
fn merge_eq_ne_same_value() {
  let inner_op = any_op();
  let k: u8 = kani::any();
  kani::assume(k == 14 || k == 15);
  let outer_op = op_of(k);
  let (c1, c2, x): (i32, i32, i32) = (kani::any(), kani::any(), kani::any());
  if let Some((op, c)) = merged(inner_op, c1, outer_op, c2) {
    assert!(wasm_sem(op, x, c) == sem_chain(x, inner_op, c1, outer_op, c2));
  }
}

/// `(x + a) < c  ==>  x < c - a` for all x: FALSE under wrap-around (x = MAX, a = 1, c = 0).
#[kani::proof]
#[kani::unwind(17)]
fn merge_ordering_same_value_all_inputs() {
  let inner_op = any_op();
  let k: u8 = kani::any();
  kani::assume(k >= 10 && k < 14);
  let outer_op = op_of(k);
  let (c1, c2, x): (i32, i32, i32) = (kani::any(), kani::any(), kani::any());
  if let Some((op, c)) = merged(inner_op, c1, outer_op, c2) {
    assert!(wasm_sem(op, x, c) == sem_chain(x, inner_op, c1, outer_op, c2));
  }
}

/// the same, restricted to runs in which `x + a` does not overflow (the language leaves
/// overflow to the implementation); the compile-time `c - a` must not overflow either
#[kani::proof]
#[kani::unwind(17)]
fn merge_ordering_same_value_no_overflow() {
  let inner_op = any_op();
  let k: u8 = kani::any();
  kani::assume(k >= 10 && k < 14);
  let outer_op = op_of(k);
  let (c1, c2, x): (i32, i32, i32) = (kani::any(), kani::any(), kani::any());
  kani::assume(x.checked_add(c1).is_some());
  kani::assume(c2.checked_sub(c1).is_some());
  if let Some((op, c)) = merged(inner_op, c1, outer_op, c2) {
    assert!(wasm_sem(op, x, c) == sem_chain(x, inner_op, c1, outer_op, c2));
  }
  kani::cover!(merged(inner_op, c1, outer_op, c2).is_some());
}
