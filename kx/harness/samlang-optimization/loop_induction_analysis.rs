// Kani unit `induction` (C02): algebra on loop-invariant expressions and derived induction
// variables, guard operators, in crates/samlang-optimization/src/loop_induction_analysis.rs.
use super::*;
use samlang_ast::mir::INT_32_TYPE;
include!("/verif/kx/harness/common/wasm_sem.rs");

const LETTERS: [char; 3] = ['a', 'b', 'c'];

fn letter_index(p: PStr) -> usize {
  if p == PStr::LOWER_A {
    0
  } else if p == PStr::LOWER_B {
    1
  } else {
    2
  }
}

fn any_pli() -> PotentialLoopInvariantExpression {
  if kani::any() {
    PotentialLoopInvariantExpression::Int(kani::any())
  } else {
    let idx: u8 = kani::any();
    kani::assume(idx < 3);
    PotentialLoopInvariantExpression::Var(VariableName {
      name: PStr::one_letter_literal(LETTERS[idx as usize]),
      type_: INT_32_TYPE,
    })
  }
}

fn eval(e: &PotentialLoopInvariantExpression, vars: &[i32; 3]) -> i32 {
  match e {
    PotentialLoopInvariantExpression::Int(i) => *i,
    PotentialLoopInvariantExpression::Var(v) => vars[letter_index(v.name)],
  }
}

/// a derived induction variable {base, m, i} denotes base * m + i (wrapping, as the target computes)
fn eval_div(d: &DerivedInductionVariable, vars: &[i32; 3]) -> i32 {
  vars[letter_index(d.base_name)].wrapping_mul(eval(&d.multiplier, vars)).wrapping_add(eval(&d.immediate, vars))
}

fn any_div() -> DerivedInductionVariable {
  let idx: u8 = kani::any();
  kani::assume(idx < 3);
  DerivedInductionVariable {
    base_name: PStr::one_letter_literal(LETTERS[idx as usize]),
    multiplier: any_pli(),
    immediate: any_pli(),
  }
}

#[kani::proof]
#[kani::unwind(17)]
fn merge_invariant_addition_same_value() {
  let (a, b) = (any_pli(), any_pli());
  let vars: [i32; 3] = kani::any();
  if let Some(r) = merge_invariant_addition_for_loop_optimization(&a, &b) {
    assert!(eval(&r, &vars) == eval(&a, &vars).wrapping_add(eval(&b, &vars)));
  }
}

#[kani::proof]
#[kani::unwind(17)]
fn merge_invariant_multiplication_same_value() {
  let (a, b) = (any_pli(), any_pli());
  let vars: [i32; 3] = kani::any();
  if let Some(r) = merge_invariant_multiplication_for_loop_optimization(&a, &b) {
    assert!(eval(&r, &vars) == eval(&a, &vars).wrapping_mul(eval(&b, &vars)));
  }
}

fn same_pli(a: &PotentialLoopInvariantExpression, b: &PotentialLoopInvariantExpression) -> bool {
  match (a, b) {
    (PotentialLoopInvariantExpression::Int(x), PotentialLoopInvariantExpression::Int(y)) => x == y,
    (PotentialLoopInvariantExpression::Var(x), PotentialLoopInvariantExpression::Var(y)) => x.name == y.name,
    _ => false,
  }
}

/// `d + c`: only the immediate changes, and it changes by c (additions only: checked by value)
#[kani::proof]
#[kani::unwind(17)]
fn merge_constant_addition_into_derived_same_value() {
  let d = any_div();
  let c = any_pli();
  let vars: [i32; 3] = kani::any();
  if let Some(r) = merge_constant_operation_into_derived_induction_variable(&d, true, &c) {
    assert!(r.base_name == d.base_name);
    assert!(same_pli(&r.multiplier, &d.multiplier));
    assert!(eval(&r.immediate, &vars) == eval(&d.immediate, &vars).wrapping_add(eval(&c, &vars)));
  }
}

/// `d * c`: the result has the shape {b, m*c, i*c}.  That b*(m*c) + i*c == (b*m + i)*c modulo 2^32
/// is Verus lemma algebra::lemma_wrapping_distribute (32-bit multiplier identity, out of SAT reach).
#[kani::proof]
#[kani::unwind(17)]
fn merge_constant_multiplication_into_derived_shape() {
  let d = any_div();
  let c = any_pli();
  if let Some(r) = merge_constant_operation_into_derived_induction_variable(&d, false, &c) {
    assert!(r.base_name == d.base_name);
    let vars: [i32; 3] = kani::any();
    // multiplier and immediate are both scaled by c
    match (&d.multiplier, &d.immediate, &c) {
      (PotentialLoopInvariantExpression::Int(m), PotentialLoopInvariantExpression::Int(i), PotentialLoopInvariantExpression::Int(cv)) => {
        assert!(same_pli(&r.multiplier, &PotentialLoopInvariantExpression::Int(m.wrapping_mul(*cv))));
        assert!(same_pli(&r.immediate, &PotentialLoopInvariantExpression::Int(i.wrapping_mul(*cv))));
      }
      (_, _, PotentialLoopInvariantExpression::Int(cv)) => {
        // non-constant parts can only be scaled by 1
        assert!(*cv == 1);
        assert!(same_pli(&r.multiplier, &d.multiplier) && same_pli(&r.immediate, &d.immediate));
      }
      (_, _, PotentialLoopInvariantExpression::Var(_)) => {
        // scaling by a variable: only {b, 1, 1} -> {b, v, v}
        assert!(same_pli(&d.multiplier, &PotentialLoopInvariantExpression::Int(1)));
        assert!(same_pli(&d.immediate, &PotentialLoopInvariantExpression::Int(1)));
        assert!(same_pli(&r.multiplier, &c) && same_pli(&r.immediate, &c));
      }
    }
    let _ = vars;
  }
}

/// `d1 + d2` over the same base: multipliers and immediates are added component-wise (by value:
/// additions only).  That b*(m1+m2) + (i1+i2) == (b*m1+i1) + (b*m2+i2) modulo 2^32 is Verus lemma
/// algebra::lemma_wrapping_add_derived.
#[kani::proof]
#[kani::unwind(17)]
fn merge_variable_addition_into_derived_componentwise() {
  let (d1, d2) = (any_div(), any_div());
  let vars: [i32; 3] = kani::any();
  match merge_variable_addition_into_derived_induction_variable(&d1, &d2) {
    Some(r) => {
      assert!(d1.base_name == d2.base_name && r.base_name == d1.base_name);
      assert!(eval(&r.multiplier, &vars) == eval(&d1.multiplier, &vars).wrapping_add(eval(&d2.multiplier, &vars)));
      assert!(eval(&r.immediate, &vars) == eval(&d1.immediate, &vars).wrapping_add(eval(&d2.immediate, &vars)));
    }
    None => {}
  }
}

fn guard_holds(g: GuardOperator, a: i32, b: i32) -> bool {
  match g {
    GuardOperator::LT => a < b,
    GuardOperator::LE => a <= b,
    GuardOperator::GT => a > b,
    GuardOperator::GE => a >= b,
  }
}

fn any_guard() -> GuardOperator {
  let k: u8 = kani::any();
  kani::assume(k < 4);
  match k {
    0 => GuardOperator::LT,
    1 => GuardOperator::LE,
    2 => GuardOperator::GT,
    _ => GuardOperator::GE,
  }
}

#[kani::proof]
#[kani::unwind(2)]
fn guard_invert_is_negation_and_to_op_is_faithful() {
  let g = any_guard();
  let (a, b): (i32, i32) = (kani::any(), kani::any());
  assert!(guard_holds(g.invert(), a, b) == !guard_holds(g, a, b));
  assert!(wasm_sem(g.to_op(), a, b) == Some(guard_holds(g, a, b) as i32));
}

/// The loop is `cc = a op b; if (inv ? !cc : cc) break;` — the guard operator must hold exactly
/// while the loop keeps running.
#[kani::proof]
#[kani::unwind(2)]
fn get_guard_operator_is_the_continue_condition() {
  let op = any_op();
  let inv: bool = kani::any();
  let (a, b): (i32, i32) = (kani::any(), kani::any());
  match get_guard_operator(op, inv) {
    Some(g) => {
      let cc = wasm_sem(op, a, b).unwrap() != 0;
      let breaks = if inv { !cc } else { cc };
      assert!(guard_holds(g, a, b) == !breaks);
    }
    None => {
      assert!(!matches!(op, BinaryOperator::LT | BinaryOperator::LE | BinaryOperator::GT | BinaryOperator::GE));
    }
  }
}

// ---- contracts of std functions that Verus units take as `assume_specification` (vstd has none): each is a
// ---- loop-free harness over the full domain, so the assumed text is a discharged obligation, not documentation.

/// unit tripcount: `i32::checked_neg(x)` is None exactly for i32::MIN and Some(-x) otherwise
#[kani::proof]
fn std_i32_checked_neg_contract() {
  let x: i32 = kani::any();
  let r = x.checked_neg();
  if x == i32::MIN {
    assert!(r.is_none());
  } else {
    assert!(r == Some(0i32.wrapping_sub(x)));
    assert!((r.unwrap() as i64) == -(x as i64));
  }
}

/// unit lexer: `u8::is_ascii_whitespace` is the set {space, \t, \n, form feed, \r}
#[kani::proof]
fn std_u8_is_ascii_whitespace_contract() {
  let c: u8 = kani::any();
  let is_ws = c == 0x20 || c == 0x09 || c == 0x0A || c == 0x0C || c == 0x0D;
  assert!(c.is_ascii_whitespace() == is_ws);
}

/// unit strconst: `u8::is_ascii_alphanumeric` is 0-9, A-Z, a-z
#[kani::proof]
fn std_u8_is_ascii_alphanumeric_contract() {
  let b: u8 = kani::any();
  let is_alnum = (0x30 <= b && b <= 0x39) || (0x41 <= b && b <= 0x5A) || (0x61 <= b && b <= 0x7A);
  assert!(b.is_ascii_alphanumeric() == is_alnum);
}
