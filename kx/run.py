"""Kani route: annotate-in-place in a scratch copy of /repo, run harnesses, classify results.

The scratch copy is a byte-identical rsync of /repo/{Cargo.toml,Cargo.lock,crates,std}; the only
change is ONE appended line per anchored source file:
    #[cfg(kani)] #[path = "/verif/kx/harness/<crate>/<file>.rs"] mod verif_kani;
so the harness module is a child of the real module and calls the real (private) functions.
"""
import json
import os
import re
import shutil
import subprocess
import sys
import tempfile
import time

HERE = os.path.dirname(os.path.abspath(__file__))
VERIF = os.path.dirname(HERE)
CACHE = os.path.join(VERIF, '.cache', 'kani-target')
sys.path.insert(0, VERIF)
import cachestamp  # noqa: E402


class KaniSetupError(Exception):
  pass


def prepare_scratch(repo, splices):
  """splices: [(repo-relative source file, harness file under /verif, module name)]"""
  d = tempfile.mkdtemp(prefix='samlang-kx-')
  try:
    for name in ('Cargo.toml', 'Cargo.lock'):
      shutil.copy2(os.path.join(repo, name), os.path.join(d, name))
    for sub in ('crates', 'std'):
      subprocess.run(['rsync', '-a', '--exclude', 'target', os.path.join(repo, sub), d], check=True)
    hdir = os.path.join(d, 'verif_harness')
    for rel, harness, modname in splices:
      target = os.path.join(d, rel)
      if not os.path.exists(target):
        raise KaniSetupError('anchor lost: %s does not exist' % rel)
      # the harness file is copied into the scratch copy (byte-identical), so that a concrete-playback
      # test can be appended to the copy without touching /verif
      hcopy = os.path.join(hdir, harness.replace('/', '__'))
      os.makedirs(hdir, exist_ok=True)
      shutil.copy2(os.path.join(VERIF, harness), hcopy)
      with open(target, 'a') as f:
        f.write('\n#[cfg(kani)] #[path = "%s"] mod %s;\n' % (hcopy, modname))
    os.makedirs(os.path.join(d, '.cargo'), exist_ok=True)
    with open(os.path.join(d, '.cargo', 'config.toml'), 'w') as f:
      f.write('[net]\noffline = true\n')
    cachestamp.stamp(d, CACHE)
  except Exception:
    shutil.rmtree(d, ignore_errors=True)
    raise
  return d


RES_RE = re.compile(r'VERIFICATION:- (SUCCESSFUL|FAILED)')
COUNT_RE = re.compile(r'\*\* (\d+) of (\d+) failed')
COVER_RE = re.compile(r'\*\* (\d+) of (\d+) cover properties satisfied')
FAILED_CHECK_RE = re.compile(r'Failed Checks: (.*)')


def parse_harness_output(txt):
  r = {'result': None, 'checks': 0, 'failed': 0, 'covers': None, 'failed_checks': [], 'time_s': None, 'playback': None}
  m = RES_RE.search(txt)
  if m:
    r['result'] = m.group(1)
  m = COUNT_RE.search(txt)
  if m:
    r['failed'], r['checks'] = int(m.group(1)), int(m.group(2))
  m = COVER_RE.search(txt)
  if m:
    r['covers'] = (int(m.group(1)), int(m.group(2)))
  for m in FAILED_CHECK_RE.finditer(txt):
    nxt = txt[m.end():m.end() + 300]
    loc = re.search(r'File: "([^"]+)", line (\d+), in ([^\n]+)', nxt)
    r['failed_checks'].append({'description': m.group(1).strip(),
                               'location': ('%s:%s in %s' % (loc.group(1), loc.group(2), loc.group(3).strip())) if loc else ''})
  m = re.search(r'Verification Time: ([0-9.]+)s', txt)
  if m:
    r['time_s'] = float(m.group(1))
  if 'CBMC timed out' in txt or 'timed out' in txt.lower() and r['result'] is None:
    r['result'] = 'TIMEOUT'
  if re.search(r'unwinding assertion', txt) and r['result'] == 'FAILED':
    # an unwinding assertion failure is a tool-bound problem, not a property failure
    if all('unwinding assertion' in c['description'] for c in r['failed_checks']) and r['failed_checks']:
      r['result'] = 'UNWIND'
  pb = re.search(r'Concrete playback unit test for `[^`]+`:\n```\n(.*?)\n```', txt, re.S)
  if pb:
    r['playback'] = pb.group(1)
  return r


def run_harnesses(scratch, crate, modname, harnesses, jobs=8, timeout_s=240, unwind=None, playback=False, extra=()):
  """Run the named harnesses (exact match) of one crate.  Returns {harness: parsed result + raw text}."""
  outdir = tempfile.mkdtemp(prefix='kani-out-', dir=scratch)
  cmd = ['cargo', 'kani', '-p', crate, '-Z', 'function-contracts', '-Z', 'stubbing', '-Z', 'unstable-options',
         '--harness-timeout', '%ds' % timeout_s, '-j', str(jobs), '--output-format', 'terse', '--exact']
  if playback:
    # --concrete-playback is incompatible with --jobs > 1
    cmd[cmd.index('-j') + 1] = '1'
    jobs = 1
    cmd += ['-Z', 'concrete-playback', '--concrete-playback=print']
  for h in harnesses:
    cmd += ['--harness', '%s::%s' % (modname, h)]
  cmd += list(extra)
  env = dict(os.environ, CARGO_NET_OFFLINE='true', CARGO_TARGET_DIR=CACHE)
  t0 = time.time()
  overall = timeout_s * (2 + len(harnesses) // max(1, jobs)) + 900
  try:
    p = subprocess.run(cmd, cwd=scratch, env=env, stdout=subprocess.PIPE, stderr=subprocess.STDOUT, text=True, timeout=overall)
    out = p.stdout
  except subprocess.TimeoutExpired as e:
    out = (e.stdout or '') if isinstance(e.stdout, str) else (e.stdout or b'').decode('utf-8', 'replace')
    out += '\n[overall timeout]\n'
  else:
    cachestamp.finished(CACHE)   # cargo ran to its end: the cache now corresponds to the stamped sources
  wall = time.time() - t0
  shutil.rmtree(outdir, ignore_errors=True)
  # split the interleaved terse log by thread
  res = {}
  cur = {}      # thread -> harness
  buf = {}      # harness -> text
  thread = None
  for ln in out.split('\n'):
    m = re.match(r'Thread (\d+): (.*)$', ln)
    if m:
      thread = m.group(1)
      rest = m.group(2)
      mm = re.match(r'Checking harness (\S+?)\.\.\.', rest)
      if mm:
        cur[thread] = mm.group(1)
        buf.setdefault(mm.group(1), '')
        continue
      if thread in cur:
        buf[cur[thread]] += rest + '\n'
      continue
    mm = re.match(r'Checking harness (\S+?)\.\.\.', ln)
    if mm:
      thread = '_'
      cur[thread] = mm.group(1)
      buf.setdefault(mm.group(1), '')
      continue
    if thread is not None and thread in cur:
      buf[cur[thread]] += ln + '\n'
  compile_failed = ('error: could not compile' in out) or ('error[E' in out and 'Checking harness' not in out)
  for h in harnesses:
    full = '%s::%s' % (modname, h)
    txt = buf.get(full, '')
    r = parse_harness_output(txt)
    if r['result'] is None:
      if re.search(r'%s.*timed out|timed out.*%s' % (re.escape(h), re.escape(h)), out):
        r['result'] = 'TIMEOUT'
      elif compile_failed:
        r['result'] = 'BUILD_ERROR'
      else:
        r['result'] = 'TIMEOUT' if 'timed out' in out.lower() else 'NO_RESULT'
    r['raw'] = txt[-6000:]
    res[h] = r
  return res, wall, out, ' '.join(cmd)


def native_replay(scratch, crate, harness_rel, playback_text, timeout=900):
  """Append the concrete-playback unit test to the scratch copy of the harness file and run it natively
  (`cargo kani playback`): the counterexample is executed against the real function outside CBMC.
  Returns ('failed' = violation confirmed | 'passed' = not reproduced | 'error', output tail)."""
  hcopy = os.path.join(scratch, 'verif_harness', harness_rel.replace('/', '__'))
  with open(hcopy, 'a') as f:
    f.write('\n' + playback_text + '\n')
  cmd = ['cargo', 'kani', 'playback', '-p', crate, '-Z', 'concrete-playback', '--', 'kani_concrete_playback']
  env = dict(os.environ, CARGO_NET_OFFLINE='true', CARGO_TARGET_DIR=CACHE)
  try:
    p = subprocess.run(cmd, cwd=scratch, env=env, stdout=subprocess.PIPE, stderr=subprocess.STDOUT, text=True, timeout=timeout)
    out = p.stdout
  except subprocess.TimeoutExpired:
    return 'error', 'native replay timed out'
  m = re.search(r'test result: (\w+)\. (\d+) passed; (\d+) failed', out)
  if not m:
    return 'error', out[-1500:]
  if int(m.group(3)) > 0:
    return 'failed', out[-1500:]
  return 'passed', out[-800:]
