use vstd::prelude::*;
use std::collections::{HashMap, HashSet};
verus! {

#[derive(Debug, Clone, Copy, PartialEq, Eq, Hash)]
pub struct ModuleReference(usize);

#[verifier::external_body]
fn hashset_into_vec(s: HashSet<ModuleReference>) -> (r: Vec<ModuleReference>)
  ensures r@.to_set() == s@
{ s.into_iter().collect() }

fn transitive_set(
  graph: &HashMap<ModuleReference, HashSet<ModuleReference>>,
  initial: HashSet<ModuleReference>,
) -> HashSet<ModuleReference> {
  let mut stack = hashset_into_vec(initial);
  let mut result = HashSet::new();
  while let Some(mod_ref) = stack.pop() {
    if result.insert(mod_ref) {
      if let Some(edges) = graph.get(&mod_ref)
    {
      for e in edges {
        stack.push(*e);
      }
    }}
  }
  result
}

} // verus!
fn main() {}
