use vstd::prelude::*;
use std::collections::HashMap;
verus! {

// ---- trusted boundary: PStr representation (proved separately by Kani on the real union code)
#[verifier::external_body]
#[derive(Clone, Copy)]
pub struct PStrPrivateRepr { _p: u128 }

pub uninterp spec fn repr_heap_id(r: PStrPrivateRepr) -> Option<u32>;
pub uninterp spec fn repr_inline(r: PStrPrivateRepr) -> Option<Seq<char>>;
pub uninterp spec fn fits_inline(s: Seq<char>) -> bool;

pub broadcast axiom fn repr_cases(r: PStrPrivateRepr)
  ensures #[trigger] repr_heap_id(r) is Some <==> repr_inline(r) is None;

impl PStrPrivateRepr {
  #[verifier::external_body]
  fn as_heap_id(&self) -> (r: Option<u32>) ensures r == repr_heap_id(*self) { unimplemented!() }
  #[verifier::external_body]
  fn from_id(id: u32) -> (r: PStrPrivateRepr) ensures repr_heap_id(r) == Some(id) { unimplemented!() }
  #[verifier::external_body]
  fn from_string(s: String) -> (r: Result<PStrPrivateRepr, String>)
    ensures match r {
      Ok(repr) => fits_inline(s@) && repr_inline(repr) == Some(s@),
      Err(back) => !fits_inline(s@) && back@ == s@,
    }
  { unimplemented!() }
}

#[derive(Clone, Copy)]
pub struct PStr(pub PStrPrivateRepr);

#[verifier::external_body]
fn unsafe_extend_str_lifetime(key: &str) -> (r: &'static str) ensures r@ == key@ { unimplemented!() }

// ---- extracted verbatim
enum StringStoredInHeap {
  Permanent(&'static str),
  Temporary(String, bool), // bool: marked
  Deallocated(Option<String>),
}

struct Heap {
  str_pointer_table: Vec<StringStoredInHeap>,
  interned_string: HashMap<&'static str, u32>,
  interned_static_str: HashMap<&'static str, u32>,
  // invariant: 0 <= sweep_index < str_pointer_table.len()
  sweep_index: usize,
}

impl Heap {
  spec fn wf(&self) -> bool {
    &&& self.sweep_index <= self.str_pointer_table.len()
    &&& self.str_pointer_table.len() < 0x1_0000_0000
    &&& forall|k: &'static str| #[trigger] self.interned_static_str@.contains_key(k) ==> {
          let id = self.interned_static_str@[k];
          &&& (id as int) < self.str_pointer_table.len()
          &&& self.str_pointer_table[id as int] is Permanent
          &&& self.str_pointer_table[id as int]->Permanent_0@ == k@
        }
    &&& forall|k: &'static str| #[trigger] self.interned_string@.contains_key(k) ==> {
          let id = self.interned_string@[k];
          &&& (id as int) < self.str_pointer_table.len()
          &&& self.str_pointer_table[id as int] is Temporary
          &&& self.str_pointer_table[id as int]->Temporary_0@ == k@
        }
  }

  spec fn slot_content(&self, i: int) -> Option<Seq<char>> {
    match self.str_pointer_table[i] {
      StringStoredInHeap::Permanent(s) => Some(s@),
      StringStoredInHeap::Temporary(s, _) => Some(s@),
      StringStoredInHeap::Deallocated(_) => None,
    }
  }

  fn alloc_string(&mut self, string: String) -> (r: PStr)
    requires old(self).wf(), old(self).str_pointer_table.len() + 1 < 0x1_0000_0000, vstd::std_specs::hash::obeys_key_model::<&'static str>(),
    ensures final(self).wf(),
      match repr_heap_id(r.0) {
        Some(id) => (id as int) < final(self).str_pointer_table.len() && final(self).slot_content(id as int) == Some(string@),
        None => repr_inline(r.0) == Some(string@),
      },
      forall|i: int| 0 <= i < old(self).str_pointer_table.len() ==> final(self).str_pointer_table[i] == old(self).str_pointer_table[i],
  {
    broadcast use repr_cases;
    match PStrPrivateRepr::from_string(string) {
      Ok(repr) => PStr(repr),
      Err(string) => {
        let key = string.as_str();
        if let Some(id) = self.interned_static_str.get(&key) {
          PStr(PStrPrivateRepr::from_id(*id))
        } else if let Some(id) = self.interned_string.get(&key) {
          PStr(PStrPrivateRepr::from_id(*id))
        } else {
          let id = self.str_pointer_table.len() as u32;
          // The string pointer is managed by the the string pointer table.
          let unmanaged_str_ptr: &'static str = unsafe_extend_str_lifetime(key);
          self.str_pointer_table.push(StringStoredInHeap::Temporary(string, false));
          self.interned_string.insert(unmanaged_str_ptr, id);
          PStr(PStrPrivateRepr::from_id(id))
        }
      }
    }
  }
}

} // verus!
fn main() {}
