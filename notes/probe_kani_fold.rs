// design-phase feasibility probe (not part of the framework); appended to the real file in a scratch copy
#[cfg(kani)]
mod kani_proofs {
  use super::*;

  fn any_op() -> BinaryOperator {
    let k: u8 = kani::any();
    kani::assume(k < 16);
    match k {
      0 => BinaryOperator::MUL, 1 => BinaryOperator::DIV, 2 => BinaryOperator::MOD, 3 => BinaryOperator::PLUS,
      4 => BinaryOperator::MINUS, 5 => BinaryOperator::LAND, 6 => BinaryOperator::LOR, 7 => BinaryOperator::SHL,
      8 => BinaryOperator::SHR, 9 => BinaryOperator::XOR, 10 => BinaryOperator::LT, 11 => BinaryOperator::LE,
      12 => BinaryOperator::GT, 13 => BinaryOperator::GE, 14 => BinaryOperator::EQ, _ => BinaryOperator::NE,
    }
  }

  /// WebAssembly i32 semantics; None = trap.
  fn wasm_sem(op: BinaryOperator, a: i32, b: i32) -> Option<i32> {
    match op {
      BinaryOperator::MUL => Some(a.wrapping_mul(b)),
      BinaryOperator::DIV => if b == 0 || (a == i32::MIN && b == -1) { None } else { Some(a.wrapping_div(b)) },
      BinaryOperator::MOD => if b == 0 { None } else { Some(a.wrapping_rem(b)) },
      BinaryOperator::PLUS => Some(a.wrapping_add(b)),
      BinaryOperator::MINUS => Some(a.wrapping_sub(b)),
      BinaryOperator::LAND => Some(a & b),
      BinaryOperator::LOR => Some(a | b),
      BinaryOperator::SHL => Some(a.wrapping_shl(b as u32)),
      BinaryOperator::SHR => Some(((a as u32).wrapping_shr(b as u32)) as i32),
      BinaryOperator::XOR => Some(a ^ b),
      BinaryOperator::LT => Some((a < b) as i32),
      BinaryOperator::LE => Some((a <= b) as i32),
      BinaryOperator::GT => Some((a > b) as i32),
      BinaryOperator::GE => Some((a >= b) as i32),
      BinaryOperator::EQ => Some((a == b) as i32),
      BinaryOperator::NE => Some((a != b) as i32),
    }
  }

  fn check(op: BinaryOperator) {
    let a: i32 = kani::any();
    let b: i32 = kani::any();
    if let Some(v) = evaluate_bin_op(op, a, b) {
      assert!(wasm_sem(op, a, b) == Some(v));
    }
  }
  #[kani::proof] fn fold_mul() { check(BinaryOperator::MUL) }
  #[kani::proof] fn fold_div() { check(BinaryOperator::DIV) }
  #[kani::proof] fn fold_mod() { check(BinaryOperator::MOD) }
  #[kani::proof] fn fold_plus() { check(BinaryOperator::PLUS) }
  #[kani::proof] fn fold_shl() { check(BinaryOperator::SHL) }
  #[kani::proof] fn fold_shr() { check(BinaryOperator::SHR) }
  #[kani::proof] fn fold_lt() { check(BinaryOperator::LT) }

  #[kani::proof]
  fn evaluate_bin_op_matches_wasm() {
    let op = any_op();
    let a: i32 = kani::any();
    let b: i32 = kani::any();
    if let Some(v) = evaluate_bin_op(op, a, b) {
      assert!(wasm_sem(op, a, b) == Some(v));
    }
  }
}
