// design-phase feasibility probe (not part of the framework); appended to the real file in a scratch copy
#[cfg(kani)]
mod kani_proofs {
  use super::*;

  fn any_str<'a>(buf: &'a [u8; 17]) -> &'a str {
    let len: usize = kani::any();
    kani::assume(len <= 17);
    let r = std::str::from_utf8(&buf[..len]);
    kani::assume(r.is_ok());
    r.unwrap()
  }

  #[kani::proof]
  #[kani::unwind(19)]
  fn pstr_inline_roundtrip() {
    let buf: [u8; 17] = kani::any();
    let s = any_str(&buf);
    match PStrPrivateRepr::from_str_opt(s) {
      Some(r) => {
        assert!(s.len() <= 15);
        assert!(r.as_heap_id().is_none());
        match r.as_inline_str() {
          Ok(back) => assert!(back.as_bytes() == s.as_bytes()),
          Err(_) => assert!(false),
        }
      }
      None => assert!(s.len() > 15),
    }
  }

  #[kani::proof]
  #[kani::unwind(19)]
  fn pstr_inline_eq_iff_same_string() {
    let buf1: [u8; 17] = kani::any();
    let buf2: [u8; 17] = kani::any();
    let s1 = any_str(&buf1);
    let s2 = any_str(&buf2);
    if let (Some(r1), Some(r2)) = (PStrPrivateRepr::from_str_opt(s1), PStrPrivateRepr::from_str_opt(s2)) {
      assert!((r1 == r2) == (s1.as_bytes() == s2.as_bytes()));
    }
  }
}
