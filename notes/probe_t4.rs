use vstd::prelude::*;
verus! {

spec fn cnt(s: Seq<bool>) -> nat decreases s.len() {
  if s.len() == 0 { 0 } else { cnt(s.drop_last()) + if s.last() { 1nat } else { 0nat } }
}

fn count_true(v: &Vec<bool>) -> (r: usize)
  ensures r == cnt(v@),
{
  let mut c: usize = 0;
  for x in it: v.iter()
    invariant c == cnt(v@.take(it.index() as int)), it.seq().len() == v.len(), 
      forall|i: int| 0 <= i < v.len() ==> *it.seq()[i] == v@[i], c <= it.index(), it.index() <= v.len(),
  {
    assert(v@.take(it.index() + 1).drop_last() == v@.take(it.index() as int));
    if *x { c += 1; }
  }
  assert(v@.take(v.len() as int) == v@);
  c
}

} // verus!
fn main() {}
