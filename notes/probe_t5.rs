use vstd::prelude::*;
verus! {

fn clear_all(v: &mut Vec<bool>)
  ensures final(v).len() == old(v).len(),
    forall|i: int| 0 <= i < final(v).len() ==> final(v)[i] == false,
{
  for x in it: v.iter_mut()
    invariant 
      forall|j: int| 0 <= j < it.index() ==> *final(#[trigger] it.seq()[j]) == false,
  {
    *x = false;
    assert(*final(x) == false);
    assert(*final(x) == *final(it.seq()[it.index() as int]));
  }
  assert(forall|j: int| 0 <= j < old(v).len() ==> v@[j] == false);
}

} // verus!
fn main() {}
