"""Which units decide which property, and the Kani harness tables."""

# Verus units: vx/units/<name>.rs
# Kani units: splice list + harness list.  tier 'quick' harnesses run in both tiers.
KANI_UNITS = {
  'pstr': {
    'crate': 'samlang-heap',
    'module': 'verif_kani',
    'timeout_s': {'quick': 300, 'thorough': 3000},
    'splices': [('crates/samlang-heap/src/lib.rs', 'kx/harness/samlang-heap/lib.rs', 'verif_kani')],
    'functions': ['PStrPrivateRepr::from_id', 'PStrPrivateRepr::as_heap_id', 'PStrPrivateRepr::as_inline_str',
                  'PStrPrivateRepr::from_str_opt', 'PStrPrivateRepr::from_string', 'PStrPrivateRepr::eq',
                  'PStrPrivateRepr::cmp', 'PStrPrivateRepr::partial_cmp', 'PStrPrivateRepr::hash',
                  'PStr::create_inline_opt', 'PStr::{one..twelve}_letter_literal', 'PStr consts'],
    'harnesses': {
      'pstr_from_id_roundtrip': {'tier': 'quick', 'complete': True},
      'pstr_inline_roundtrip': {'tier': 'quick', 'complete': True},
      'pstr_inline_roundtrip_exact_utf8': {'tier': 'thorough', 'complete': True},
      'pstr_from_string_agrees': {'tier': 'quick', 'complete': True},
      'pstr_eq_inline_inline': {'tier': 'quick', 'complete': True},
      'pstr_eq_inline_id': {'tier': 'quick', 'complete': True},
      'pstr_eq_id_id': {'tier': 'quick', 'complete': True},
      'pstr_cmp_equal_iff_eq_inline': {'tier': 'quick', 'complete': True},
      'pstr_hash_feeds_raw_bits': {'tier': 'quick', 'complete': True},
      'pstr_letter_literals_1_to_4': {'tier': 'quick', 'complete': True},
      'pstr_letter_literals_5_to_8': {'tier': 'quick', 'complete': True},
      'pstr_letter_literals_9_12': {'tier': 'quick', 'complete': True},
      'pstr_constants_are_inline': {'tier': 'quick', 'complete': True},
      'pstr_create_inline_opt_wraps': {'tier': 'quick', 'complete': True},
    },
  },
}

KANI_UNITS['fold'] = {
  'crate': 'samlang-optimization',
  'module': 'conditional_constant_propagation::verif_kani',
  'splices': [('crates/samlang-optimization/src/conditional_constant_propagation.rs',
               'kx/harness/samlang-optimization/conditional_constant_propagation.rs', 'verif_kani')],
  'functions': ['evaluate_bin_op', 'merge_binary_expression'],
  'harnesses': {
    'fold_mul': {'tier': 'quick', 'complete': True},
    'fold_plus': {'tier': 'quick', 'complete': True},
    'fold_minus': {'tier': 'quick', 'complete': True},
    'fold_land': {'tier': 'quick', 'complete': True},
    'fold_lor': {'tier': 'quick', 'complete': True},
    'fold_xor': {'tier': 'quick', 'complete': True},
    'fold_shl': {'tier': 'quick', 'complete': True},
    'fold_shr': {'tier': 'quick', 'complete': True},
    'fold_comparisons': {'tier': 'quick', 'complete': True},
    'fold_div_no_panic_and_traps_kept': {'tier': 'quick', 'complete': True},
    'fold_mod_no_panic_and_traps_kept': {'tier': 'quick', 'complete': True},
    'fold_div_mod_value_bounded': {'tier': 'quick', 'complete': False},
    'merge_plus_same_value': {'tier': 'quick', 'complete': True},
    'merge_plus_refuses_div_mod_mul_inner': {'tier': 'quick', 'complete': True},
    'merge_mul_result_form': {'tier': 'quick', 'complete': True},
    'merge_refused_for_other_outer_operators': {'tier': 'quick', 'complete': True},
    'merge_eq_ne_same_value': {'tier': 'quick', 'complete': True},
    'merge_ordering_same_value_all_inputs': {'tier': 'quick', 'complete': True},
    'merge_ordering_same_value_no_overflow': {'tier': 'quick', 'complete': True},
  },
}

KANI_UNITS['loc'] = {
  'crate': 'samlang-ast',
  'module': 'loc::verif_kani',
  'splices': [('crates/samlang-ast/src/loc.rs', 'kx/harness/samlang-ast/loc.rs', 'verif_kani')],
  'functions': ['Position (derived Ord)', 'Location::contains_position', 'Location::contains', 'Location::union'],
  'harnesses': {
    'position_order_is_lexicographic_line_then_column': {'tier': 'quick', 'complete': True},
    'contains_position_is_the_closed_interval': {'tier': 'quick', 'complete': True},
    'contains_is_nesting_reflexive_transitive': {'tier': 'quick', 'complete': True},
    'union_is_the_least_enclosing_range': {'tier': 'quick', 'complete': True},
    'union_of_different_modules_panics': {'tier': 'quick', 'complete': True},
  },
}

KANI_UNITS['mirbin'] = {
  'crate': 'samlang-ast',
  'module': 'mir::verif_kani',
  'splices': [('crates/samlang-ast/src/mir.rs', 'kx/harness/samlang-ast/mir.rs', 'verif_kani')],
  'functions': ['Statement::binary_unwrapped', 'Statement::flexible_order_binary', 'Statement::binary_flexible_unwrapped',
                'Expression::cmp'],
  'harnesses': {
    'binary_unwrapped_shape': {'tier': 'quick', 'complete': True},
    'flexible_order_binary_shape': {'tier': 'quick', 'complete': True},
    'binary_flexible_unwrapped_is_the_composition': {'tier': 'quick', 'complete': True},
    'exchanged_operator_same_value': {'tier': 'quick', 'complete': True},
    'flexible_order_binary_is_order_insensitive_for_commutative_ops': {'tier': 'quick', 'complete': True},
  },
}

KANI_UNITS['induction'] = {
  'crate': 'samlang-optimization',
  'module': 'loop_induction_analysis::verif_kani',
  'splices': [('crates/samlang-optimization/src/loop_induction_analysis.rs',
               'kx/harness/samlang-optimization/loop_induction_analysis.rs', 'verif_kani')],
  'functions': ['merge_invariant_addition_for_loop_optimization', 'merge_invariant_multiplication_for_loop_optimization',
                'merge_constant_operation_into_derived_induction_variable',
                'merge_variable_addition_into_derived_induction_variable', 'GuardOperator::invert',
                'GuardOperator::to_op', 'get_guard_operator'],
  'harnesses': {
    'merge_invariant_addition_same_value': {'tier': 'quick', 'complete': True},
    'merge_invariant_multiplication_same_value': {'tier': 'quick', 'complete': True},
    'merge_constant_addition_into_derived_same_value': {'tier': 'quick', 'complete': True},
    'merge_constant_multiplication_into_derived_shape': {'tier': 'quick', 'complete': True},
    'merge_variable_addition_into_derived_componentwise': {'tier': 'quick', 'complete': True},
    'guard_invert_is_negation_and_to_op_is_faithful': {'tier': 'quick', 'complete': True},
    'get_guard_operator_is_the_continue_condition': {'tier': 'quick', 'complete': True},
    # std contracts that Verus units tripcount / lexer / strconst take as assume_specification: full-domain, loop-free
    'std_i32_checked_neg_contract': {'tier': 'quick', 'complete': True},
    'std_u8_is_ascii_whitespace_contract': {'tier': 'quick', 'complete': True},
    'std_u8_is_ascii_alphanumeric_contract': {'tier': 'quick', 'complete': True},
  },
}

_OPS = ['mul', 'div', 'mod', 'plus', 'minus', 'land', 'lor', 'shl', 'shr', 'xor', 'lt', 'le', 'gt', 'ge', 'eq', 'ne']
_HELPER_SPLICES = [('crates/samlang-heap/src/lib.rs', 'kx/harness/samlang-heap/lib.rs', 'verif_kani'),
                   ('crates/samlang-ast/src/mir.rs', 'kx/harness/samlang-ast/mir.rs', 'verif_kani')]
KANI_UNITS['wasmops'] = {
  'crate': 'samlang-ast',
  'module': 'wasm::verif_kani',
  'splices': _HELPER_SPLICES + [('crates/samlang-ast/src/wasm.rs', 'kx/harness/samlang-ast/wasm.rs', 'verif_kani')],
  'functions': ['wasm::InlineInstruction::pretty_print (Binary arm)'],
  'jobs': 8,
  'timeout_s': {'quick': 600, 'thorough': 1800},
  # thorough tier only (~3-4 min): the same Binary arm is proved by Verus unit oparms in the quick tier
  'harnesses': {('wasm_op_' + o): {'tier': 'thorough', 'complete': True} for o in _OPS},
}

KANI_UNITS['prec'] = {
  'crate': 'samlang-ast',
  'module': 'source::verif_kani',
  'splices': [('crates/samlang-ast/src/source.rs', 'kx/harness/samlang-ast/source.rs', 'verif_kani')],
  'functions': ['expr::BinaryOperator::precedence', 'expr::E::precedence'],
  'harnesses': {
    'operator_precedence_mirrors_grammar_levels': {'tier': 'quick', 'complete': True},
    'operator_precedence_mirrors_grammar_levels_except_concat': {'tier': 'quick', 'complete': True},
    'expression_precedence_mirrors_grammar_levels': {'tier': 'quick', 'complete': True},
  },
}

KANI_UNITS['tsops'] = {
  'crate': 'samlang-ast',
  'module': 'lir::verif_kani',
  'splices': _HELPER_SPLICES + [('crates/samlang-ast/src/lir.rs', 'kx/harness/samlang-ast/lir.rs', 'verif_kani')],
  'functions': ['lir::Statement::pretty_print_internal (Binary arm)'],
  'jobs': 8,
  'timeout_s': {'quick': 600, 'thorough': 1800},
  'harnesses': {('ts_op_' + o): {'tier': 'quick', 'complete': True} for o in _OPS},
}

PROPERTIES = {
  'C02': {
    'verus': ['tripcount', 'algebra', 'foldv', 'dce', 'ccpbin', 'loopguard', 'licm', 'csehoist', 'ivelim', 'ccploop', 'lvnscope', 'escape'],
    'quick_witness': ['exec_optimizer', 'gen_optimizer'],
    'kani': ['fold', 'mirbin', 'induction'],
    'level': 'proof',
    'scope': 'arithmetic kernels only: constant folding, algebraic merging, operand reordering / comparison flipping, '
             'induction-variable algebra, guard operators, trip-count closed forms; the algebraic simplifications of constant propagation (x+0, x*0, x*1, x/1, x%1, x-x, x%x, x/x, folding) equal the '
             'target result for every valuation; dead-code elimination keeps every operation that can '
             'trap and every call (Binary and Call arms); LICM and CSE never move an operation that can trap; the comparison of the guard built by '
             'induction-variable elimination; the other statement-level pass drivers are not covered',
  },
  'C05': {
    'verus': ['lexer', 'tripcount'],
    'verus_route': {'lexer': 'totality'},
    'quick_witness': ['parser_terminates', 'nocrash', 'fmtterm', 'fmtserver', 'gen_nocrash'],
    'kani': ['fold', 'induction'],
    # only the harnesses whose failure is a compiler crash (panic) on some input
    'kani_only': {'fold': ['fold_mul', 'fold_plus', 'fold_minus', 'fold_shl', 'fold_shr', 'fold_land', 'fold_lor', 'fold_xor',
                           'fold_comparisons', 'fold_div_no_panic_and_traps_kept', 'fold_mod_no_panic_and_traps_kept',
                           'merge_plus_same_value', 'merge_mul_result_form', 'merge_eq_ne_same_value',
                           'merge_ordering_same_value_no_overflow'],
                  'induction': ['merge_invariant_addition_same_value', 'merge_invariant_multiplication_same_value',
                                'merge_constant_addition_into_derived_same_value', 'merge_constant_multiplication_into_derived_shape',
                                'merge_variable_addition_into_derived_componentwise',
                                'std_i32_checked_neg_contract', 'std_u8_is_ascii_whitespace_contract']},
    'level': 'proof',
    'scope': 'kernels only: totality (no panic, termination, bump within bounds and on a char boundary) of the hand-written '
             'lexer scanners; panic-freedom of constant folding and trip-count analysis; parser / checker / printer not covered',
  },
  'C01': {
    'verus': ['enumlayout', 'oparms', 'wasmlower', 'loopvars', 'objpat', 'strconst'],
    'verus_only': {'oparms': ['wasm_binary_arm'],
                   # the WebAssembly side of string constants: the data segment holds the constant's UTF-8 bytes
                   'strconst': ['wasm_global_string', 'print_byte_vec', 'byte_digit_to_char', 'lemma_wat_text_denotes_the_bytes',
                                'lemma_decode_append', 'lemma_decode_enc_byte']},
    'quick_witness': ['exec_semantics', 'gen_semantics'],
    'kani': ['wasmops'],
    'level': 'proof',
    'scope': 'three kernels only: the WebAssembly instruction selected for each of the 16 operators (and ref.eq for reference '
             'equality) by the real printer; the admissibility predicate of the unboxed enum-variant layout; the loop variables of a '
             'lowered While (a rewritten self tail call) can be assigned one after the other without changing their simultaneous '
             'meaning (saved copies are plain copies of the reassigned variable\'s own type); an object pattern element reads the field it names; every other lowering / specialisation pass (incl. the variant loop that uses the predicate, the tail-call '
             'rewrite itself) and the runtime library are not covered',
  },
  'C04': {
    'verus': ['opsem', 'oparms', 'wasmlower', 'strconst', 'tsstmt'],
    'quick_witness': ['exec_backends', 'gen_backends'],
    'kani': ['wasmops'],
    'level': 'proof',
    'scope': 'two kernels only: per operator, the TypeScript template and the WebAssembly instruction emitted by the two real '
             'printers denote the same function on non-excluded operands; string constants: what each back end emits for a '
             'constant (raw text between backticks / hex-escaped UTF-8 bytes with offset and length) and what that denotes; '
             'runtime libraries (libsam.wat, TS prolog) and Vec are not covered',
  },
  'C06': {
    'verus': ['litgate', 'errgate', 'checkgates', 'visgate', 'ssascope', 'usegates', 'ssanames'],
    'quick_witness': ['gen_rejects'],
    'kani': [],
    'level': 'proof',
    'scope': 'two kernels only: an integer literal outside the 32-bit range is reported (TokenProducer::process_raw_token); an error '
             'once reported stays in the ErrorSet (report_error, merge), has_errors sees it, and compile_sources returns Err before '
             'any code is produced; two checker gates: a type argument that violates its parameter\'s bound is reported, a failed '
             'assignability test is reported (the tests themselves are opaque); get_method_type hands out a private member only to its '
             'own class (same module and name) and nothing of a private toplevel of another module; private fields likewise; the variables of an `if let` pattern are in scope in the then-block only (visit_if_else); '
             'use sites: a call with too many or too few arguments is reported, the condition of an if-else is checked against bool and its else branch against the first branch, '
             'an object pattern stores each field\'s abstract pattern in the column of the field it names; every type / class name written in an annotation or in the explicit '
             'type arguments of a member access is looked up (visit_annot, visit_id_annot, use_id); the other checker-side clauses of C06 '
             '(conformance, the exhaustiveness algorithm itself, resolution of members) are exercised only by the bounded single-fault corpus and the faults planted in generated programs (gen_rejects)',
  },
  'C08': {
    'verus': ['paren', 'strlit', 'ifchain', 'lexer'],
    'verus_only': {'lexer': ['WrappedLogosLexer::lex_str_lit_opt']},
    'verus_route': {'lexer': 'literals'},
    'quick_witness': ['printmods'],
    'kani': ['prec'],
    'level': 'proof',
    'scope': 'kernels only: the precedence table used by the formatter against the grammar\'s binding levels; the '
             'parenthesis decision for the operands of binary and unary expressions; expression statements keep their `;`; the else-if chain '
             'stops at the first else-branch that is a block; string literals (lexer token shape, parser '
             'unescaping, printer escaping: the printed literal is the source token); every other construct, the layout engine, '
             'import sorting and re-parsing as such are not covered',
  },
  'C10': {
    'verus': ['depgraph', 'srvstate'],
    'kani': [],
    'level': 'proof',
    'scope': 'kernels only: the recheck set (affected_set / transitive_set) contains the dirty modules, everything that '
             'transitively imports them, and is closed under imports; ServerState::{update, rename_module, remove} reach `recheck` '
             'with its documented preconditions (tables consistent, signatures rebuilt, graph rebuilt from the current modules, recheck '
             'set a conservative estimate of what changed); `recheck` itself (rayon type checking, error collation, GC) is not covered',
  },
  'C14': {
    'verus': ['lexer', 'parsetok', 'prodloc'],
    'verus_route': {'lexer': 'positions'},
    'quick_witness': ['loctree'],
    'kani': ['loc'],
    'level': 'proof',
    'scope': 'kernels only: Position order / Location contains / union algebra over all u32 values; the lexer\'s tracked '
             'line/column equals the position of the consumed byte offset for whitespace, strings, line and block comments; '
             'the parser\'s `last_location` is the location of the last consumed token and looking ahead does not move it (peek / consume); '
             'the ranges built by parse_type_parameter and parse_identifier_annot enclose their parts; a member access `o.m<T>` encloses its object and its type arguments (the member name when there are none) and a call encloses its callee and argument list (parse_function_call_or_field_access_with_start); the node built by each of the six binary-operator productions (|| && comparisons + - * / % ::) has the two parsed operands, the operator read, and a range enclosing both operands; `!e` and `-e` run from the operator token over the argument (parse_unary_expression); an if-else runs from its keyword over the else branch actually parsed, block or nested if-else (parse_if_else); a match case encloses its pattern and ends at its body or at its comma (parse_pattern_to_expression); a match expression runs from its keyword to the token consumed as its closing brace (parse_match); an import line runs from its keyword to its semicolon, or to the end of the module name when there is none (parse_module); a parenthesized expression list runs from its opening to the token consumed as its closing parenthesis (parse_parenthesized_expression_list_with_start); a function type annotation runs from its opening parenthesis over its return type, and annotation::T::location (verbatim, real enum) is the range stored in the variant; explicit type arguments run from `<` to the token consumed as `>` (parse_optional_type_arguments), a type-parameter list from `<` to `>` (parse_type_parameters); a class / interface declaration and its member block end at the same closing brace (parse_class, parse_interface); the range of a member definition is extended over its body (parse_class_member_definition, verbatim); the other union call sites of the parser are not covered',
  },
  'C17': {
    'verus': ['heap'],
    'kani': ['pstr'],
    'level': 'proof',
    'scope': 'whole property (table + collector in Verus, 16-byte handle in Kani)',
  },
}

# trusted items that are reported with every evidence file of a unit (besides the mechanical scan)
STANDING_ASSUMPTIONS = {
  'heap': [
    'vstd models of Vec / HashMap / HashSet / String / Option / Result and Verus itself (Z3 4.12 via Verus 0.2026.09.13)',
    'obeys_key_model for &\'static str, &\'static [PStr], ModuleReference (std Hash/Eq agree with ==)',
    '&str and &[T] are extensional (equal content => same key) and Borrow<str> for &str is the identity (axioms in the unit)',
    'PStrPrivateRepr is opaque here; its contracts are exactly the obligations of Kani unit pstr (checked by name on every run)',
    'R3 stubs: lifetime extension / Box::leak / Vec::leak return a reference with the same content; cfg!(test) is an arbitrary bool; format!("_t{id}") fits inline (<= 12 bytes)',
    'table has fewer than 2^32 slots (precondition on every allocating call; `len as u32` would wrap beyond it)',
    'TempPStrCounter atomics are outside the unit (counter value treated as an arbitrary u32)',
    'usize is 64 bit; arithmetic overflow = panic (debug-assertion semantics)',
  ],
  'fold': [
    'CBMC 6.11 / Kani 0.68 bit-precise semantics of Rust MIR; overflow = panic (debug-assertion semantics)',
    'target semantics = kx/harness/common/wasm_sem.rs (WebAssembly i32: wrap-around, shift count mod 32, div_s traps on /0 and MIN/-1, rem_s traps on %0)',
    'value of a folded DIV / MOD is checked in Verus unit foldv (a second bit-level divider does not finish in CBMC); Kani checks panic-freedom and trap preservation',
    '(x*c1)*c2 == x*(c1*c2) modulo 2^32 is Verus lemma algebra::lemma_wrapping_mul_assoc; Kani checks the merged operator and constant',
  ],
  'mirbin': [
    'CBMC 6.11 / Kani 0.68; operands range over every i32/i31 literal and three variable / string names (inline one-letter handles); valuations of names are arbitrary i32',
  ],
  'induction': [
    'CBMC 6.11 / Kani 0.68; loop-invariant expressions range over every i32 constant and three variables with arbitrary values; a derived induction variable {b,m,i} denotes b*m+i in wrapping arithmetic',
  ],
  'loc': [
    'CBMC 6.11 / Kani 0.68; all u32 line/column values; module references range over the three public constants (the field is private to samlang-heap)',
  ],
  'tripcount': [
    'Verus/Z3 with vstd arithmetic lemmas; the i32::checked_neg contract used here is discharged over all i32 by Kani harness induction::std_i32_checked_neg_contract',
    'the induction variable is compared over mathematical integers; the in-range clause makes that equal to the wrapping run',
  ],
  'algebra': ['Verus/Z3 nonlinear arithmetic; vstd specs of i32::wrapping_mul / wrapping_add'],
  'objpat': ['Verus/Z3; the element is reduced to field_order and its nested pattern, hir::Statement to the IndexedAccess variant (R6); the '
             'recursive lowering of the nested pattern is opaque; field_order is the index the checker gives the named field (assumed)'],
  'loopvars': ['Verus/Z3; the back ends are assumed to assign loop values in list order (or at once); alloc_temp_str returns a name the heap '
               'has not issued before (C17) and every name in the loop came from that heap; derived Clone = structural copy; '
               'the closure that lowers each MIR loop variable keeps its name (R3); values are abstract integers'],
  'strconst': ['Verus/Z3; JavaScript template-literal value (ECMA-262 12.9.6, escapes \\x \\u octal and line continuation unmodelled = None), '
               'WebAssembly text string literals (spec 6.3.3) and loader.js (one UTF-16 code unit per byte) are modelled by spec functions; '
               'UTF-8 of ASCII text = its codes (axiom); u8::is_ascii_alphanumeric = 0-9A-Za-z (discharged over all u8 by Kani harness induction::std_u8_is_ascii_alphanumeric_contract, run under C02); i.to_string() opaque (R3); '
               'the loops around the two R14 blocks (enumerate) and the printing of offset / length are outside the blocks'],
  'checkgates': ['Verus/Z3; the tests themselves (TypingContext::is_subtype, type_system::assignability_check, is_the_same_type, '
                 'subst_nominal_type) are opaque: only "a failed test is reported" is proved; ErrorSet reduced to its error count'],
  'visgate': ['Verus/Z3; signature lookup (resolve_interface_cx + filter, resolve_function_signature, resolve_method_signature) is opaque; '
              'NominalType / MemberSignature / TypingContext reduced to the fields read (R6); == on names and module references is their PartialEq'],
  'ccploop': ['Verus/Z3; R14 block of try_optimize_loop_for_some_iterations (the exit taken when the first iteration ends in a break); how the first '
              'iteration is evaluated (optimize_stmts under the bindings of the initial values) and the other exits of the function are outside the block; '
              'Statement reduced to Break + opaque rest (R6)'],
  'lvnscope': ['Verus/Z3; LocalStackedContext is abstract (a stack of opaque scopes with the contracts of push_scope / pop_scope); optimize_stmts (the '
               'recursive call) is a stub that writes only the innermost scope and logs the stack it was called under; the renaming of operands '
               '(optimize_expr and the for_each closures, R3) only reads the table'],
  'escape': ['Verus/Z3; vstd HashSet specification with obeys_key_model::<PStr>(); EscapeAnalysis reduced to its escape set (R6); visit_statements (nested '
             'statements) only adds to the set; the other arms of visit_statement and the rewriting that uses the set are not under contract'],
  'tsstmt': ['Verus/Z3; vstd String::push_str; operands, types, names and nested statements are abstracted to the text they print (uninterpreted); '
             'append_spaces prints an uninterpreted indentation; destructuring loop patterns written as a let (R11); what the text MEANS in JavaScript is not modelled here'],
  'usegates': ['Verus/Z3; R14 blocks of check_function_call, check_if_else, check_matching_pattern: what the enclosing functions do around the '
               'blocks (which arm is taken, the early return after the arity error) is not under contract; type_check_expression, check_block, '
               'check_if_else (recursive call), check_matching_pattern (recursive call) are opaque and only never retract an error; '
               'assignability_check carries the contract proved in unit checkgates; the syntax tree is reduced to the fields read (R6)'],
  'ssanames': ['Verus/Z3; the scope stack is opaque (`resolves`), use_define_map / unbound_names are write-only stubs; annotations reduced to the '
               'fields the visitors read (R6); Option::iter().flat_map(..) loops written as if-let + loop (R17) and the destructuring parameter of '
               'visit_id_annot as a let (R11); visit_expression (the rest of it) is opaque: leaves the scopes as found, never retracts an error'],
  'ssascope': ['Verus/Z3; scopes are abstract; push_scope / pop_scope / visit_matching_pattern / visit_block / visit_expression are stubs '
               'with their intended effect on the scope stack, and a ghost log records under which stack blocks are analysed; the recursive '
               'call of visit_if_else goes through a stub with the same contract'],
  'errgate': ['Verus/Z3; vstd specification of std BTreeSet (new / insert / is_empty); the derived Ord of CompileTimeError is assumed to '
              'be a total order (obeys_cmp); BTreeSet::extend = union (R3); Location, ErrorDetail opaque; everything compile_sources does '
              'around the gate is outside the block (R14)'],
  'ifchain': ['Verus/Z3; the if-else node is reduced to the fields the function reads (R6/R7); Box::as_ref written as a dereference (R9)'],
  'strlit': ['Verus/Z3; std str::replace for the two literal patterns is modelled by unesc / esc on character sequences (documented '
             'behaviour: leftmost non-overlapping occurrences); chars().collect_vec() and iter().collect::<String>() keep the characters; '
             'documents are abstracted to how they were built; the lexer clause is proved on bytes, the parser / printer clauses on chars '
             '(quote and backslash are ASCII, so the two views agree on them: assumed)'],
  'loopguard': ['Verus/Z3; the enclosing match of extract_loop_guard_structure (which statements are the comparison and the `if`) is outside '
                'the R14 block; `single_if_stmts[0].as_break().unwrap()` is a stub (R3); values are mathematical integers (comparisons only); the check that nothing after the guard '
                'reads the guard result: dead_code_elimination::collect_use_from_stmts by its contract (adds the names the statements read: assumed, a plain recursive walk), '
                'Statement::as_single_if / as_binary (EnumAsInner) and `&stmts[2..]` are stubs (R3); that the rewrite needs exactly this condition is the argument of fix 0e18c41, not a proof'],
  'licm': ['Verus/Z3; expression_is_loop_invariant by its meaning (not a variable the loop changes); the statement type reduced to the Binary variant (R6); '
           'the other arms of LICM (IndexedAccess, StructInit, ...) and the enclosing match are outside the block (R14)'],
  'csehoist': ['Verus/Z3; vstd BTreeSet specification with obeys_cmp for the derived Ord of BindedValue (assumed); operands opaque; the if-else '
               'arm that moves the common values is outside the block (R14)'],
  'ivelim': ['Verus/Z3 nonlinear lemmas over mathematical integers (no wrap-around of m*i + c); only the construction of the new guarded variable is '
             'extracted (R14); that the new bound is m*g + c is read off the prefix statements, not proved'],
  'ccpbin': ['Verus/Z3; contract of evaluate_bin_op assumed here and proved in units fold / foldv; checked_bind reduced to "binds the name" '
             '(its panic on re-binding is a precondition: SSA names are bound once); bitwise / shift results uninterpreted; '
             'R16 moves a match guard into its arm (Verus loses `final` of &mut parameters across guarded arms)'],
  'dce': ['Verus/Z3; PStr opaque with std Hash/Eq obeying the key model; '
          'the enclosing match of optimize_stmt and optimize_stmts (which removes the statements flagged false) are not under contract (R14)'],
  'foldv': ['Verus/Z3; vstd specs of i32::checked_div / checked_rem / wrapping_* (truncating division)'],
  'srvstate': ['Verus/Z3; ServerState reduced to the tables the entry points touch (R6) plus a ghost snapshot of the modules at the last '
               'recheck; `recheck` is a stub whose precondition is its documented contract; DependencyGraph::{new, affected_set} carry the '
               'contracts proved in unit depgraph; parse / build_module_signature are uninterpreted functions of (text, module) / (module, parse); '
               'a module\'s imports depend only on its own parsed form'],
  'prodloc': ['Verus/Z3; ranges are abstract with the nesting order and the union contract of Kani unit loc (all tokens of one parser share their module); '
              'peek / consume / parse_upper_id_with_comments / parse_optional_type_arguments / parse_parenthesized_expression_list / CommentStore::create_comment_reference are opaque; '
              'the member-access and call nodes are R14 blocks of parse_function_call_or_field_access_with_start, the binary nodes R14 blocks of the six parse_*_with_start operator productions, the two prefix-operator nodes R14 blocks of parse_unary_expression, the end of parse_if_else (else branch, range, node) an R14 block with parse_block / the recursive parse_if_else opaque and the condition only carried; parse_pattern_to_expression verbatim with patterns opaque (only their range is read), assert_and_consume_operator / parse_matching_pattern / parse_expression_with_additional_preceding_comments opaque, NO_COMMENT_REFERENCE a stub (R3); the node-building end of parse_match the import-node block of parse_module, the end of parse_parenthesized_expression_list_with_start and the function-type end of parse_annotation_with_additional_comments R14 blocks (parse_annotation opaque), the end of parse_optional_type_arguments an R14 block over the real annotation::TypeArguments (no longer reduced to its range), the end of parse_type_parameters an R14 block with the registration of the parameter names (iterator adapters, R3) and fix_tparams_with_generic_annot opaque, the ends of parse_class / parse_interface R14 blocks over the real InterfaceDeclarationCommon / InterfaceMembersCommon / ExtendsOrImplementsNodes (generic in the type definition and the member type); parse_class_member_definition verbatim with ClassMemberDeclaration projected to its range (R6) and parse_class_member_declaration_common opaque (the surrounding loops, the reading of operator / member name and the parsing of the right operand are outside); '
              'expr::E reduced to FieldAccess, Call, Binary, Unary and a rest with only its common part (R6), E::loc = the range in the common part; '
              'with explicit type arguments the member NAME is enclosed only because tokens are consumed in increasing position order (not stated)'],
  'parsetok': ['Verus/Z3; the parser is reduced to the fields peek / consume touch, TokenContent to the comment variants, EndOfFile and an opaque rest (R6); '
               'the token stream is an abstract finite sequence (next_token hands out its first element); peek terminates: each skipped comment shortens it (decreases clause, no exec_allows_no_decreases_clause left in any unit)'],
  'depgraph': [
    'vstd models of HashMap / HashSet / Vec and their iterators; obeys_key_model::<ModuleReference>()',
    'termination of transitive_set IS proved (decreases: modules of the finite universe not yet visited, then stack length); Set finiteness is built into this vstd',
    'R3 stub: initial.into_iter().collect_vec() returns a vector with exactly the elements of the set',
  ],
  'lexer': [
    'logos::Lexer is opaque (R7): remainder() = text from the current offset, bump(n) panics unless n is in range and on a char boundary; the generated DFA is not covered',
    'UTF-8 facts assumed: the byte after an ASCII byte is a char boundary; well-formed UTF-8 cut at a boundary is well-formed',
    'source text shorter than 2 GiB (i32::MAX bytes): columns are u32 and the escape counter is i32',
    'R3 stubs: str::starts_with on ASCII patterns = first bytes; from_utf8_lossy/trim/post_process_block_comment are total',
    'u8::is_ascii_whitespace = {space, \\t, \\n, form feed, \\r}: discharged over all u8 by Kani harness induction::std_u8_is_ascii_whitespace_contract (run under C02 / C05)',
  ],
  'wasmops': [
    'CBMC 6.11 / Kani 0.68; std::hash::RandomState::new stubbed (Heap / SymbolTable are only carried, built empty by struct literals spliced under cfg(kani))',
    'the expected table (operator -> WebAssembly instruction with the meaning of wasm_sem) is the WebAssembly specification written down in the harness',
  ],
  'tsops': [
    'CBMC 6.11 / Kani 0.68; std::hash::RandomState::new stubbed; operands are two one-letter variables typed int or Str',
    'the expected templates are compared as text; their JavaScript meaning is stated in Verus unit opsem',
  ],
  'wasmlower': [
    'R14: the Binary arm of LoweringManager::lower_stmt is extracted as a block; LoweringManager is opaque: lower_expr yields an uninterpreted lowered operand, set(n, t, v) = LocalSet(n, v) (its real result)',
    'is_string_expr / is_reference_expr are uninterpreted predicates of the operand; mir::FunctionName::STR_EQ is a named constant',
    'wasm::InlineInstruction / Instruction / Type are extracted verbatim; names and LIR types inside them are opaque',
    'lower_expr_into is verified verbatim (the table of locals behind the stub local_is_eq, R3); in the if-else arm it is used by its contract, with whether the assigned local is held type-erased at that point abstracted to an uninterpreted predicate; that a cast is REQUIRED for a (ref eq) local in a typed slot is WebAssembly validation, not proved here (execution corpus)',
  ],
  'oparms': [
    'operands are abstract (the text they print as): Expression::pretty_print / InlineInstruction::pretty_print append an uninterpreted text; Heap, SymbolTable, PStr opaque (R7)',
    'R14: the two Binary arms are extracted as blocks; the surrounding `let z = ` / `;` of the TypeScript statement is outside the block',
    'vstd specs of String::push_str / push and string literals',
    'the tables js_token / wasm_mnemonic in the unit are the JavaScript / WebAssembly operator for each source operator (their meaning is unit opsem / the WebAssembly specification)',
  ],
  'opsem': [
    'ECMA-262 semantics of + - * / % and relational operators on Numbers holding 32-bit integers, written as spec functions (a model of JavaScript, not of code)',
    'double-precision a / b has the same floor as the real quotient for |a|, |b| < 2^31 (argued in the unit header)',
    'bitwise and shift operators (& | ^ << >>>) are not compared: the compiler never emits them for source programs',
    'vstd rust_div / rust_rem = truncating division (proved in unit foldv)',
  ],
  'litgate': [
    'Heap, ErrorSet, PStr, WrappedLogosLexer are opaque (R7); str::parse::<i64> is modelled by decimal_value (Ok exactly for numerals that fit i64); format!("-{s}") prepends a minus sign',
    'the lexer produces only numerals 0|[1-9][0-9]* for IntLiteral tokens (logos regex, not checked); tokens of one producer share their module reference',
    'the parser later turns the literal text into an i32 with parse::<i32>().unwrap_or(0): that the accepted texts parse is implied by the proved range, not re-checked',
  ],
  'prec': [
    'CBMC 6.11 / Kani 0.68; all 14 x 14 operator pairs; the grammar levels || < && < comparisons < + - < * / % < :: < unary < postfix are taken from the property statement (and the parser functions parse_disjunction .. parse_concat)',
  ],
  'paren': [
    'documents are abstract (how they were built): create_doc / parenthesis_surrounded_doc / Document::concat are uninterpreted constructors; a parenthesised document differs from the bare one',
    'E::precedence is the number checked by Kani unit prec; the syntax tree is opaque (R7)',
    'compositionality to deeper trees is an argument (each decision looks only at a node and its two children), not a proof',
    'R14: the Binary arm of create_doc_without_preceding_comment is extracted as a block; R3 stubs for the comment docs and the operator text',
  ],
  'enumlayout': [
    'Verus/Z3 + vstd HashMap/HashSet; Rewriter projected (R6) to the two tables the predicate reads; obeys_key_model::<TypeNameId>()',
    'only the predicate is under contract; the loop in rewrite_id_type that applies it (at most one unboxed variant, only as the sole payload variant) is not',
  ],
  'pstr': [
    'CBMC 6.11 / Kani 0.68 bit-precise semantics of Rust MIR; little-endian x86_64 layout of the union',
    'string domain: every byte string of length 0..=17 without the bytes C0, C1, F5..FF (a superset of valid UTF-8 of that length); longer strings take the same `len > 15` branch, which reads no content',
    'one_letter_literal is only specified for ASCII chars (all call sites are ASCII constants)',
  ],
}
