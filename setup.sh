#!/bin/bash
# Offline setup: nothing to build besides warming the Kani build cache (optional; checks rebuild on demand).
set -u
cd "$(dirname "$0")"
mkdir -p .cache .build evidence replay
verus --version >/dev/null 2>&1 || { echo "verus not on PATH"; exit 1; }
cargo kani --version >/dev/null 2>&1 || { echo "cargo-kani not on PATH"; exit 1; }
python3 -c "import json" || exit 1
echo "setup ok"
