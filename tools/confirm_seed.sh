#!/bin/bash
# usage: confirm_seed.sh <worktree> <seed dir> <crate> <file the demo is appended to>
# Confirms in the scratch worktree: patch applies; existing tests of the crate pass with it;
# demo fails with the patch and passes without it.
wt=$1; sd=$2; crate=$3; file=$4
cd "$wt" || exit 9
export CARGO_TARGET_DIR=$wt/target CARGO_NET_OFFLINE=true
git checkout -q -- . 
git apply "$sd/patch.diff" || { echo "APPLY_FAIL"; exit 1; }
t1=$(cargo test -p $crate --offline 2>&1 | grep -E "^test result" | awk '{p+=$4; f+=$6} END {print p" "f}')
cat "$sd/demo.rs" >> "$file"
d1=$(cargo test -p $crate --offline seeded_demo 2>&1 | grep -E "^test result" | awk '{p+=$4; f+=$6} END {print p" "f}')
git checkout -q -- .
cat "$sd/demo.rs" >> "$file"
d0=$(cargo test -p $crate --offline seeded_demo 2>&1 | grep -E "^test result" | awk '{p+=$4; f+=$6} END {print p" "f}')
git checkout -q -- .
echo "tests_with_patch(pass fail)=$t1 demo_with_patch=$d1 demo_without_patch=$d0"
