#!/bin/bash
# Developer tool: re-run every claimed check on the clean tree, refresh ledgers and evidence, validate evidence.
cd /verif
git -C /repo diff --quiet || { echo "/repo not clean"; exit 9; }
rc=0
for p in $(python3 -c "import registry; print(' '.join(sorted(registry.PROPERTIES)))"); do
  /usr/bin/time -f "$p %e s" ./check $p --tier quick --update-ledger 2>&1 | grep -v "^KNOWN-FINDING" | cut -c1-200
done
python3-vt - <<'PY'
import json, jsonschema, glob
s=json.load(open('/root/.vp/EVIDENCE.schema.json'))
for f in sorted(glob.glob('/verif/evidence/*.json')):
    e=json.load(open(f))
    jsonschema.validate(e, s)
    c=e['coverage']
    print(f.split('/')[-1], 'valid', c['obligations'], c['discharged'], 'violations', e['violations'], 'wall', e['wall_s'])
    assert c['obligations']==c['discharged'], f
PY
