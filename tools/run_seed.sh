#!/bin/bash
# usage: run_seed.sh <patch.diff> <property id>[:units] ...   — applies the patch to /repo, runs the checks, undoes it
patch=$(realpath "$1"); shift
cd /repo && git diff --quiet || { echo "/repo not clean"; exit 9; }
git -C /repo apply "$patch" || { echo "APPLY_FAIL"; exit 1; }
# evidence written while the patch is applied is not evidence about /repo: keep the clean files
rm -rf /tmp/evidence.keep && cp -r /verif/evidence /tmp/evidence.keep
for spec in "$@"; do
  pid=${spec%%:*}; units=""; [[ "$spec" == *:* ]] && units="--units ${spec#*:}"
  out=$(cd /verif && ./check $pid --tier quick $units 2>&1); rc=$?
  echo "== $spec exit=$rc"; echo "$out" | grep -E "VIOLATION|INCONCLUSIVE|KNOWN-FINDING|obligations discharged" | cut -c1-420
done
git -C /repo checkout -q -- .
rm -rf /verif/evidence && mv /tmp/evidence.keep /verif/evidence
