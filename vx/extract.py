"""Verbatim extractor + contract splicer + composer for Verus units.

A unit is a template file vx/units/<unit>.rs: ordinary Verus source (spec fns, lemmas,
trusted stubs) interleaved with directive blocks

    //@extract <repo-relative file> :: <item path>
    //@extractblock <file> :: <fn path>   with //@from <first statement> //@to <last statement> [//@close <text>]
                                   //@wrap fn name(params) -> (r: T)  — R14: a verbatim block of a
                                   function body becomes the body of a synthetic function
    //@ret r                       name the return value:  -> T   becomes   -> (r: T)
    //@contract                    following lines are spliced between signature and body
    //@loop K [iter=NAME]          following lines are spliced before the body of the K-th loop
    //@after[#N] <exact text>      following lines are spliced after the N-th (default: only) occurrence
    //@before[#N] <exact text>     ... before it
    //@loopstart K / //@loopend K  ... at the start / end of the body of the K-th loop
    //@beforetail                  ... before the tail expression of the fn body
    //@atend                       ... before the closing brace of the fn body (unit-returning fns)
    //@replace[*] <old> => <new>   exact-text rewrite (rule must be named: `R3: reason` after ` ## `)
    //@dropnested fn NAME          remove a nested helper fn (its calls must be replaced by a stub, R3)
    //@letchain if A && let P = E  desugar a let-chain without else into nested ifs (R5)
    //@fields a, b, c              struct field projection (R6)
    //@attr <text>                 attribute line placed above the item
    //@end

Item path: components separated by ' / ', each one of
    impl <header text>     (whitespace-normalised text between `impl` and `{`)
    mod <name>
    fn <name> | struct <name> | enum <name> | union <name> | const <name> | static <name> | type <name>

Everything between `//@extract` and `//@end` that is not a directive line belongs to the
preceding directive.  The item's tokens are copied verbatim from the current /repo file;
the only other change is R1 (visibility keywords dropped) and R2 (attributes / doc comments
above the item are not copied).

Clause labels: a trailing `// :name` on the first line of a contract clause / invariant /
assert names the obligation `<fn>::<name>`.
"""
import hashlib
import os
import re
from . import rsscan
from .rsscan import tokens, match_close, first_brace_at_depth0, norm


class ExtractError(Exception):
  """Anchor lost / unsupported shape: the unit is inconclusive (exit 2), never a verdict."""


ITEM_KW = {'fn', 'struct', 'enum', 'union', 'const', 'static', 'type', 'trait'}
QUALS = {'pub', 'const', 'unsafe', 'async', 'extern', 'default'}


def _find_blocks(src, toks, lo, hi, kind, want):
  """Yield (body_open_idx, body_close_idx) of `impl <want>` / `mod <want>` blocks among toks[lo:hi] at depth 0."""
  j = lo
  while j < hi:
    t = toks[j]
    if t[0] == 'punct' and t[1] in rsscan.OPEN:
      j = match_close(toks, j) + 1
      continue
    if t[0] == 'id' and t[1] == kind:
      b = first_brace_at_depth0(toks, j + 1)
      if b is None or b >= hi:
        j += 1
        continue
      header = norm(src[toks[j][3]:toks[b][2]])
      c = match_close(toks, b)
      if header == want:
        yield (b, c)
      j = c + 1
      continue
    j += 1


def _find_item(src, toks, lo, hi, kw, name):
  """Return list of (start_tok_idx, end_tok_idx_inclusive, kw_idx) of items `kw name` at depth 0 in toks[lo:hi]."""
  res = []
  j = lo
  while j < hi:
    t = toks[j]
    if t[0] == 'punct' and t[1] in rsscan.OPEN:
      j = match_close(toks, j) + 1
      continue
    if t[0] == 'id' and t[1] == kw and j + 1 < hi and toks[j + 1][0] == 'id' and toks[j + 1][1] == name:
      # `const fn x` : when looking for kw=='const' make sure next-next is not fn name; handled by name match
      # walk back over qualifiers
      s = j
      while s - 1 >= lo:
        p = toks[s - 1]
        if p[0] == 'id' and p[1] in QUALS:
          s -= 1
        elif p[0] == 'punct' and p[1] == ')' and s - 4 >= lo and toks[s - 4][1] == 'pub':
          s -= 4  # pub(crate) / pub(super)
        elif p[0] == 'lit' and s - 2 >= lo and toks[s - 2][1] == 'extern':
          s -= 1
        else:
          break
      # find end: `;` at depth 0 or matching brace
      k = j + 2
      end = None
      while k < hi:
        q = toks[k]
        if q[0] == 'punct' and q[1] in '([':
          k = match_close(toks, k) + 1
          continue
        if q[0] == 'punct' and q[1] == '{':
          end = match_close(toks, k)
          # struct X {..} has no trailing ;  ; `const X: T = Foo { .. };` does
          if kw in ('const', 'static', 'type'):
            k = end + 1
            continue
          break
        if q[0] == 'punct' and q[1] == ';':
          end = k
          break
        k += 1
      if end is None:
        raise ExtractError('cannot find end of item %s %s' % (kw, name))
      res.append((s, end, j))
      j = end + 1
      continue
    j += 1
  return res


def locate(src, path):
  toks = tokens(src)
  ranges = [(0, len(toks))]
  comps = [c.strip() for c in path.split(' / ')]
  for comp in comps[:-1]:
    if comp.startswith('impl'):
      kind, want = 'impl', comp[4:]
    else:
      kind, _, want = comp.partition(' ')
    if kind not in ('impl', 'mod'):
      raise ExtractError('bad path component %r' % comp)
    nxt = []
    for lo, hi in ranges:
      for b, c in _find_blocks(src, toks, lo, hi, kind, norm(want)):
        nxt.append((b + 1, c))
    if not nxt:
      raise ExtractError('anchor lost: no `%s` block' % comp)
    ranges = nxt
  kw, _, name = comps[-1].partition(' ')
  if kw not in ITEM_KW:
    raise ExtractError('bad item keyword %r' % kw)
  found = []
  for lo, hi in ranges:
    found += _find_item(src, toks, lo, hi, kw, name.strip())
  if len(found) != 1:
    raise ExtractError('anchor lost: %d matches for `%s`' % (len(found), path))
  s, e, kwi = found[0]
  return toks, s, e, kwi


class Edit:
  def __init__(self, pos, dele, ins, what):
    self.pos, self.dele, self.ins, self.what = pos, dele, ins, what


def _apply(text, base, edits):
  edits = sorted(edits, key=lambda e: (e.pos, e.dele))
  for a, b in zip(edits, edits[1:]):
    if a.pos + a.dele > b.pos:
      raise ExtractError('overlapping edits: %s / %s' % (a.what, b.what))
  out = []
  cur = base
  for e in edits:
    out.append(text[cur:e.pos])
    out.append(e.ins)
    cur = e.pos + e.dele
  return out, cur


def _find_exact(hay, needle, base, which, what, allow_many=False):
  """positions (absolute) of `needle` in hay; whitespace inside needle matches any whitespace run."""
  pat = r'\s+'.join(re.escape(p) for p in needle.split())
  ms = [m for m in re.finditer(pat, hay)]
  if not ms:
    raise ExtractError('anchor lost: text %r not found (%s)' % (needle, what))
  if allow_many:
    return [(base + m.start(), base + m.end()) for m in ms]
  if which is None:
    if len(ms) != 1:
      raise ExtractError('anchor ambiguous: text %r occurs %d times (%s)' % (needle, len(ms), what))
    m = ms[0]
  else:
    if which > len(ms):
      raise ExtractError('anchor lost: occurrence #%d of %r (%s)' % (which, needle, what))
    m = ms[which - 1]
  return [(base + m.start(), base + m.end())]


def _one_directive(src, toks, s, e, kwi, kw, body_open, start, end, path, name, arg, btxt, edits, rules_used, attrs):
  if name == 'ret':
    if kw != 'fn':
      raise ExtractError('@ret on non-fn')
    # find `->` at depth 0 between param list and body
    k = kwi + 2
    # skip generics
    pl = None
    depth_angle = 0
    while k < body_open:
      if toks[k][1] == '(' and depth_angle == 0:
        pl = k
        break
      if toks[k][1] == '<':
        depth_angle += 1
      if toks[k][1] == '>':
        depth_angle -= 1
      k += 1
    pc = match_close(toks, pl)
    k = pc + 1
    if not (toks[k][1] == '-' and toks[k + 1][1] == '>'):
      raise ExtractError('@ret: fn %s has no return type' % path)
    ty_s = toks[k + 2][2]
    m = k + 2
    depth = 0
    while m < body_open:
      if toks[m][0] == 'id' and toks[m][1] == 'where' and depth == 0:
        break
      if toks[m][1] in '([<':
        depth += 1
      if toks[m][1] in ')]>' and not (toks[m][1] == '>' and toks[m - 1][1] == '-'):
        depth -= 1
      m += 1
    ty_e = toks[m - 1][3]
    edits.append(Edit(ty_s, 0, '(%s: ' % arg.strip(), 'R8 ret'))
    edits.append(Edit(ty_e, 0, ')', 'R8 ret'))
    rules_used.add('R8')
  elif name == 'contract':
    if kw != 'fn':
      raise ExtractError('@contract on non-fn')
    edits.append(Edit(toks[body_open][2], 0, '\n' + btxt, 'R8 contract'))
    rules_used.add('R8')
  elif name == 'loop':
    parts = arg.split()
    kth = int(parts[0])
    itname = None
    suffix = None
    for p in parts[1:]:
      if p.startswith('iter='):
        itname = p[5:]
      if p.startswith('suffix='):
        suffix = p[7:]
    loops = [m for m in range(body_open + 1, e) if toks[m][0] == 'id' and toks[m][1] in ('for', 'while', 'loop')
             and not (toks[m][1] == 'for' and toks[m + 1][1] == '<')]
    if kth >= len(loops):
      raise ExtractError('anchor lost: loop %d of %s (has %d loops)' % (kth, path, len(loops)))
    lk = loops[kth]
    lb = first_brace_at_depth0(toks, lk + 1)
    if lb is None:
      raise ExtractError('loop %d of %s: no body' % (kth, path))
    if itname:
      if toks[lk][1] != 'for':
        raise ExtractError('iter= on non-for loop')
      m = lk + 1
      depth = 0
      while m < lb:
        if toks[m][1] in '([':
          depth += 1
        if toks[m][1] in ')]':
          depth -= 1
        if toks[m][0] == 'id' and toks[m][1] == 'in' and depth == 0:
          break
        m += 1
      if m >= lb:
        raise ExtractError('for loop without `in`')
      edits.append(Edit(toks[m][3], 0, ' %s:' % itname, 'R8 ghost iterator name'))
    if suffix:
      # R9: `for x in EXPR` over a reference to a std collection written as std defines it (`EXPR.iter()`)
      if suffix not in ('.iter()',):
        raise ExtractError('unsupported loop suffix %r' % suffix)
      edits.append(Edit(toks[lb - 1][3], 0, suffix, 'R9 for-loop iterable %s' % suffix))
      rules_used.add('R9')
    edits.append(Edit(toks[lb][2], 0, '\n' + btxt, 'R8 loop %d' % kth))
    rules_used.add('R8')
  elif name == 'dropnested':
    # R3: a nested helper fn is removed from the body; its call sites must be @replace'd by a stub
    nm = arg.strip().split()[-1]
    hit = [m for m in range(body_open + 1, e) if toks[m][0] == 'id' and toks[m][1] == 'fn' and toks[m + 1][1] == nm]
    if len(hit) != 1:
      raise ExtractError('anchor lost: nested fn %s in %s' % (nm, path))
    nb = first_brace_at_depth0(toks, hit[0] + 2)
    nc = match_close(toks, nb)
    edits.append(Edit(toks[hit[0]][2], toks[nc][3] - toks[hit[0]][2], '', 'R3 drop nested fn %s' % nm))
    rules_used.add('R3')
  elif name == 'letchain':
    # R5: `if A && let P = E { B }`  ==>  `if A { if let P = E { B } }`   (refused when an else follows)
    (a0, b0), = _find_exact(src[start:end], arg.strip(), start, None, path)
    cond = src[a0:b0]
    if not cond.startswith('if ') or ' && let ' not in cond:
      raise ExtractError('@letchain: %r is not of the form `if A && let P = E`' % cond)
    # token index of the block's opening brace
    ob = None
    for m in range(kwi, e + 1):
      if toks[m][2] >= b0 and toks[m][1] == '{':
        ob = m
        break
    if ob is None or src[b0:toks[ob][2]].strip() != '':
      raise ExtractError('@letchain: no block directly after the condition')
    cb = match_close(toks, ob)
    if cb + 1 <= e and toks[cb + 1][0] == 'id' and toks[cb + 1][1] == 'else':
      raise ExtractError('@letchain: an else branch follows; the desugaring would change meaning')
    head, _, tail = cond.partition(' && let ')
    edits.append(Edit(a0, b0 - a0, head + ' { if let ' + tail, 'R5 let-chain'))
    edits.append(Edit(toks[cb][3], 0, ' }', 'R5 let-chain close'))
    rules_used.add('R5')
  elif name in ('loopstart', 'loopend'):
    kth = int(arg.split()[0])
    loops = [m for m in range(body_open + 1, e) if toks[m][0] == 'id' and toks[m][1] in ('for', 'while', 'loop')
             and not (toks[m][1] == 'for' and toks[m + 1][1] == '<')]
    if kth >= len(loops):
      raise ExtractError('anchor lost: loop %d of %s (has %d loops)' % (kth, path, len(loops)))
    lb = first_brace_at_depth0(toks, loops[kth] + 1)
    if lb is None:
      raise ExtractError('loop %d of %s: no body' % (kth, path))
    lc = match_close(toks, lb)
    if name == 'loopstart':
      edits.append(Edit(toks[lb][3], 0, '\n' + btxt, 'R8 loopstart %d' % kth))
    else:
      edits.append(Edit(toks[lc][2], 0, btxt, 'R8 loopend %d' % kth))
    rules_used.add('R8')
  elif name == 'beforetail':
    # before the tail expression of the fn body (= after the last `;` or block at depth 1)
    if kw != 'fn':
      raise ExtractError('@beforetail on non-fn')
    m = body_open + 1
    last = toks[body_open][3]
    while m < e:
      t = toks[m]
      if t[0] == 'punct' and t[1] in '([{':
        c = match_close(toks, m)
        if t[1] == '{':
          last = toks[c][3]
        m = c + 1
        continue
      if t[0] == 'punct' and t[1] == ';':
        last = t[3]
      m += 1
    edits.append(Edit(last, 0, '\n' + btxt, 'R8 beforetail'))
    rules_used.add('R8')
  elif name == 'atend':
    if kw != 'fn':
      raise ExtractError('@atend on non-fn')
    edits.append(Edit(toks[e][2], 0, btxt, 'R8 atend'))
    rules_used.add('R8')
  elif name in ('after', 'before'):
    which = None
    m = re.match(r'#(\d+)\s+(.*)$', arg)
    if m:
      which, arg = int(m.group(1)), m.group(2)
    (a, b), = _find_exact(src[start:end], arg.strip(), start, which, path)
    pos = b if name == 'after' else a
    edits.append(Edit(pos, 0, '\n' + btxt if name == 'after' else btxt, 'R8 %s %r' % (name, arg.strip())))
    rules_used.add('R8')
  elif name in ('replace', 'replace*'):
    spec, _, why = arg.partition(' ## ')
    # ` ==>> ` is the separator when the old text itself contains ` => ` (match arms)
    if spec.rstrip().endswith(' ==>>'):
      old, sep, new = spec.rstrip()[:-5], ' ==>> ', ''   # deletion
    else:
      old, sep, new = spec.partition(' ==>> ') if ' ==>> ' in spec else spec.partition(' => ')
    if not sep:
      raise ExtractError('bad @replace %r' % arg)
    rule = why.strip().split(':')[0].strip() if why.strip() else ''
    if not re.match(r'R[0-9]+$', rule):
      raise ExtractError('@replace without a named rule: %r' % arg)
    rules_used.add(rule)
    for a, b in _find_exact(src[start:end], old.strip(), start, None, path, allow_many=(name == 'replace*')):
      edits.append(Edit(a, b - a, new.strip(), '%s %r' % (rule, old.strip())))
  elif name == 'fields':
    if kw != 'struct':
      raise ExtractError('@fields on non-struct')
    keep = [f.strip() for f in arg.split(',') if f.strip()]
    b = first_brace_at_depth0(toks, kwi + 2)
    c = match_close(toks, b)
    # split fields at depth-0 commas
    fields = []
    k = b + 1
    fs = k
    depth = 0
    while k <= c:
      t = toks[k]
      if k == c or (t[1] == ',' and depth == 0 and t[0] == 'punct'):
        if k > fs:
          fields.append((fs, k))
        fs = k + 1
      elif t[0] == 'punct' and t[1] in '([{<':
        depth += 1
      elif t[0] == 'punct' and t[1] in ')]}>' and not (t[1] == '>' and toks[k - 1][1] == '-'):
        depth -= 1
      k += 1
    seen = set()
    for fs, fe in fields:
      # field name = id before ':' (skip attributes `#[..]` and pub)
      m = fs
      while toks[m][1] == '#':
        m = match_close(toks, m + 1) + 1
      while toks[m][0] == 'id' and toks[m][1] == 'pub':
        m += 1
        if toks[m][1] == '(':
          m = match_close(toks, m) + 1
      fname = toks[m][1]
      if fname in keep:
        seen.add(fname)
      else:
        stop = toks[fe][3] if fe < c else toks[fe - 1][3]
        # delete from field start to after comma
        edits.append(Edit(toks[fs][2], stop - toks[fs][2], '', 'R6 drop field %s' % fname))
    if seen != set(keep):
      raise ExtractError('anchor lost: struct fields %s not found in %s' % (sorted(set(keep) - seen), path))
    rules_used.add('R6')
  elif name == 'attr':
    attrs.append(arg.strip())
  elif name == 'keeppub':
    pass
  else:
    raise ExtractError('unknown directive @%s' % name)


def extract_block(repo, relfile, path, subs, rules_used):
  """R14: a contiguous block of statements of a function body, copied verbatim, becomes the body of a
  synthetic function whose signature (`//@wrap`) names the block's free variables as parameters."""
  full = os.path.join(repo, relfile)
  try:
    src = open(full, encoding='utf-8').read()
  except OSError as e:
    raise ExtractError('anchor lost: cannot read %s (%s)' % (relfile, e))
  toks, s, e, kwi = locate(src, path)
  start, end = toks[s][2], toks[e][3]
  frm = [x for x in subs if x[0] == 'from']
  to = [x for x in subs if x[0] == 'to']
  wrap = [x for x in subs if x[0] == 'wrap']
  if len(frm) != 1 or len(to) != 1 or len(wrap) != 1:
    raise ExtractError('@extractblock needs exactly one @from, @to and @wrap')
  def occ(arg):
    m = re.match(r'#(\d+)\s+(.*)$', arg.strip(), re.S)
    return (int(m.group(1)), m.group(2)) if m else (None, arg.strip())
  fw, ftext = occ(frm[0][1])
  (a0, _), = _find_exact(src[start:end], ftext, start, fw, path)
  tw, ttext = occ(to[0][1])
  tail = _find_exact(src[a0:end], ttext, a0, None, path, allow_many=True)
  if (tw or 1) > len(tail):
    raise ExtractError('anchor lost: occurrence #%s of @to text in %s' % (tw, path))
  b1 = tail[(tw or 1) - 1][1]
  block = src[a0:b1]
  first_line = src.count('\n', 0, a0) + 1
  # `//@close <text>`: the block stops inside a nested body (e.g. before the early `return <node>` of an `if`); the
  # rest of that body is dropped and <text> (closing braces, possibly a flag such as `return true; }`) closes it
  close = ''.join('\n' + x[1].strip() for x in subs if x[0] == 'close')
  synthetic = wrap[0][1].strip() + ' {\n' + block + close + '\n}\n'
  rest = [x for x in subs if x[0] not in ('from', 'to', 'wrap', 'close')]
  name = re.search(r'\bfn\s+([A-Za-z0-9_]+)', wrap[0][1]).group(1)
  rules_used.add('R14')
  text, _, sha, applied, lost = extract_item(repo, relfile, 'fn ' + name, rest, rules_used, src_override=synthetic)
  return text, first_line, sha, ['R14 block of %s' % path] + applied, lost


def extract_item(repo, relfile, path, subs, rules_used, src_override=None):
  """Return (text, first_repo_line, notes). `subs` is the list of sub-directives [(name,arg,body_lines)]."""
  full = os.path.join(repo, relfile)
  if src_override is not None:
    src = src_override
  else:
    try:
      src = open(full, encoding='utf-8').read()
    except OSError as e:
      raise ExtractError('anchor lost: cannot read %s (%s)' % (relfile, e))
  toks, s, e, kwi = locate(src, path)
  start, end = toks[s][2], toks[e][3]
  kw = toks[kwi][1]
  edits = []
  # R1: drop visibility everywhere in the item (signature, struct fields); `//@keeppub` keeps it (items
  # emitted inside a `mod` of the unit)
  j = s
  if any(x[0] == 'keeppub' for x in subs):
    j = e + 1
  while j <= e:
    t = toks[j]
    if t[0] == 'id' and t[1] == 'pub':
      k = j
      if j + 1 <= e and toks[j + 1][1] == '(' and toks[j + 2][1] in ('crate', 'super', 'self', 'in'):
        k = match_close(toks, j + 1)
      stop = toks[k][3]
      while stop < len(src) and src[stop] == ' ':
        stop += 1
      edits.append(Edit(t[2], stop - t[2], '', 'R1'))
      rules_used.add('R1')
      j = k + 1
      continue
    j += 1
  body_open = None
  if kw == 'fn':
    body_open = first_brace_at_depth0(toks, kwi + 2)
    if body_open is None or body_open > e:
      raise ExtractError('fn without body: %s' % path)
  attrs = []
  lost = []
  HINTS = ('after', 'before', 'atend', 'beforetail', 'loopstart', 'loopend')
  for name, arg, body in subs:
    btxt = ''.join(body)
    if name in HINTS or name in ('replace', 'replace*', 'loop'):
      # proof hints, stub replacements and loop invariants are anchored on statements of the body; when
      # the anchor is gone (the code changed) the directive is skipped and recorded, and Verus decides
      # without it.  A failure in such a function is reported as degraded (see vx/run.py).
      try:
        n0 = len(edits)
        _one_directive(src, toks, s, e, kwi, kw, body_open, start, end, path, name, arg, btxt, edits, rules_used, attrs)
      except ExtractError as ex:
        del edits[n0:]
        lost.append('%s %s: %s' % (name, arg[:60], ex))
      continue
    _one_directive(src, toks, s, e, kwi, kw, body_open, start, end, path, name, arg, btxt, edits, rules_used, attrs)
  # an edit that lies inside the text deleted by a larger edit (a field dropped by R6, a larger R3
  # replacement) is subsumed by it
  dels = [(x.pos, x.pos + x.dele, id(x)) for x in edits if x.dele > 0]
  def subsumed(x):
    for a, b, i in dels:
      if i == id(x) or (b - a) <= x.dele:
        continue
      if x.dele > 0 and a <= x.pos and x.pos + x.dele <= b:
        return True
      if x.dele == 0 and a < x.pos < b:   # an insertion at the border of a replaced region is kept
        return True
    return False
  edits = [x for x in edits if not subsumed(x)]
  pieces, cur = _apply(src, start, edits)
  pieces.append(src[cur:end])
  text = ''.join(pieces)
  first_line = src.count('\n', 0, start) + 1
  sha = hashlib.sha256(src[start:end].encode()).hexdigest()[:16]
  return ('\n'.join(attrs) + '\n' if attrs else '') + text, first_line, sha, [x.what for x in edits], lost


def compose(unit_path, repo):
  """Return dict(text, items=[...], rules=set, linemap=[(gen_line_lo, gen_line_hi, desc)])."""
  lines = open(unit_path, encoding='utf-8').read().split('\n')
  out = []
  items = []
  rules = set()
  i = 0
  n = len(lines)
  while i < n:
    ln = lines[i]
    st = ln.strip()
    if st.startswith('//@extract ') or st.startswith('//@extractblock '):
      is_block = st.startswith('//@extractblock ')
      spec = st[len('//@extractblock ' if is_block else '//@extract '):]
      relfile, sep, path = spec.partition(' :: ')
      if not sep:
        raise ExtractError('bad //@extract line: %r' % st)
      subs = []
      i += 1
      while i < n and lines[i].strip() != '//@end':
        s2 = lines[i].strip()
        if s2.startswith('//@'):
          m = re.match(r'//@([a-z]+\*?)(#\d+)?\s*(.*)$', s2)
          if not m:
            raise ExtractError('bad directive %r' % s2)
          arg = ((m.group(2) + ' ') if m.group(2) else '') + m.group(3)
          subs.append((m.group(1), arg, []))
        else:
          if not subs:
            if s2:
              raise ExtractError('text before first sub-directive in extract block: %r' % s2)
          else:
            subs[-1][2].append(lines[i] + '\n')
        i += 1
      if i >= n:
        raise ExtractError('unterminated //@extract %s' % spec)
      if is_block:
        text, first_line, sha, applied, lost = extract_block(repo, relfile.strip(), path.strip(), subs, rules)
      else:
        text, first_line, sha, applied, lost = extract_item(repo, relfile.strip(), path.strip(), subs, rules)
      gl0 = len(out) + 1
      seg = text.split('\n')
      out.extend(seg)
      items.append({'file': relfile.strip(), 'path': path.strip(), 'repo_line': first_line, 'sha16': sha,
                    'gen_lines': [gl0, gl0 + len(seg) - 1], 'edits': applied, 'lost_anchors': lost})
      i += 1
      continue
    out.append(ln)
    i += 1
  return {'text': '\n'.join(out), 'items': items, 'rules': sorted(rules)}
