"""Minimal Rust lexical scanner: enough to find items and match braces while
skipping comments, strings, chars and lifetimes.  No parsing of expressions.

A token is (kind, text, start, end) with kind in
  'id' (identifier / keyword), 'punct' (single char), 'lit' (string/char/number), 'life'.
Comments and whitespace are not returned.
"""
import re

_ID = re.compile(r'[A-Za-z_][A-Za-z0-9_]*')
_NUM = re.compile(r'[0-9][0-9A-Za-z_]*(\.[0-9][0-9A-Za-z_]*)?')


class ScanError(Exception):
  pass


def tokens(src, start=0, end=None):
  n = len(src) if end is None else end
  i = start
  out = []
  while i < n:
    c = src[i]
    if c.isspace():
      i += 1
      continue
    if src.startswith('//', i):
      j = src.find('\n', i)
      i = n if j < 0 else j
      continue
    if src.startswith('/*', i):
      depth = 1
      j = i + 2
      while j < n and depth:
        if src.startswith('/*', j):
          depth += 1
          j += 2
        elif src.startswith('*/', j):
          depth -= 1
          j += 2
        else:
          j += 1
      i = j
      continue
    # raw strings r"..", r#".."#, br#".."#
    m = re.compile(r'b?r(#*)"').match(src, i)
    if m:
      closer = '"' + m.group(1)
      j = src.find(closer, m.end())
      if j < 0:
        raise ScanError('unterminated raw string at %d' % i)
      out.append(('lit', src[i:j + len(closer)], i, j + len(closer)))
      i = j + len(closer)
      continue
    if c == '"' or (c == 'b' and i + 1 < n and src[i + 1] == '"'):
      j = i + (2 if c == 'b' else 1)
      while j < n and src[j] != '"':
        j += 2 if src[j] == '\\' else 1
      out.append(('lit', src[i:j + 1], i, j + 1))
      i = j + 1
      continue
    if c == "'" or (c == 'b' and i + 1 < n and src[i + 1] == "'"):
      k = i + (1 if c == 'b' else 0)
      # char literal: '\..' or 'x' ; lifetime: 'ident (no closing quote right after one char)
      if k + 1 < n and src[k + 1] == '\\':
        j = src.find("'", k + 3) if src[k + 2] != "'" else k + 3
        # handle '\'' : k+1='\\', k+2="'", closing at k+3
        if src[k + 2] == "'":
          j = k + 3
        out.append(('lit', src[i:j + 1], i, j + 1))
        i = j + 1
        continue
      if k + 2 < n and src[k + 2] == "'":
        out.append(('lit', src[i:k + 3], i, k + 3))
        i = k + 3
        continue
      m = _ID.match(src, k + 1)
      if m:
        # multi-byte char literal like 'é' is caught above (single code point); here: lifetime
        out.append(('life', src[i:m.end()], i, m.end()))
        i = m.end()
        continue
      raise ScanError('bad quote at %d' % i)
    m = _ID.match(src, i)
    if m:
      out.append(('id', m.group(0), i, m.end()))
      i = m.end()
      continue
    m = _NUM.match(src, i)
    if m:
      out.append(('lit', m.group(0), i, m.end()))
      i = m.end()
      continue
    out.append(('punct', c, i, i + 1))
    i += 1
  return out


OPEN = {'(': ')', '[': ']', '{': '}'}
CLOSE = {')', ']', '}'}


def match_close(toks, k):
  """toks[k] is an opening bracket; return index of its matching closer."""
  depth = 0
  for j in range(k, len(toks)):
    t = toks[j]
    if t[0] == 'punct':
      if t[1] in OPEN:
        depth += 1
      elif t[1] in CLOSE:
        depth -= 1
        if depth == 0:
          return j
  raise ScanError('unbalanced bracket at offset %d' % toks[k][2])


def first_brace_at_depth0(toks, k):
  """index of the first '{' at ()/[] depth 0 at or after token index k."""
  depth = 0
  for j in range(k, len(toks)):
    t = toks[j]
    if t[0] != 'punct':
      continue
    if t[1] in '([':
      depth += 1
    elif t[1] in ')]':
      depth -= 1
    elif t[1] == '{' and depth == 0:
      return j
    elif t[1] == ';' and depth == 0:
      return None
  return None


def norm(s):
  return ' '.join(s.split())
