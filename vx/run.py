"""Run one Verus unit: compose from /repo, verify, classify every obligation.

Result dict:
  status: 'ok' | 'failed' | 'inconclusive'
  obligations: [{name, fn, kind, status}]      status in discharged / failed / inconclusive
  failures: [{name, message, gen_line, repo_ref, rendered}]
  functions: [{name, mode, success, time_ms, rlimit}]
  assumptions: [...]   (mechanical scan)
  items: extraction records; rules: rewrite rules used
"""
import json
import os
import re
import subprocess
import time

from . import extract
from .rsscan import tokens, match_close, first_brace_at_depth0

HERE = os.path.dirname(os.path.abspath(__file__))
VERIF = os.path.dirname(HERE)
BUILD = os.path.join(VERIF, '.build', 'vx')

# messages Verus uses for an obligation that the solver refuted / could not prove
FAIL_PATTERNS = [
  'postcondition not satisfied', 'precondition not satisfied', 'assertion failed',
  'invariant not satisfied before loop', 'invariant not satisfied at end of loop body',
  'possible arithmetic underflow/overflow', 'possible division by zero', 'possible bit shift underflow/overflow',
  'decreases not satisfied', 'could not prove termination', 'unreachable code may be reached',
  'possible arithmetic overflow', 'possible arithmetic underflow', 'failed this postcondition',
  'loop invariant not preserved', 'loop invariant not satisfied', 'index in bounds', 'precondition not met', 'cannot show invariant holds', 'assert_by_compute', 'index out of bounds',
  'may panic', 'constructed value may fail to meet its declared type invariant',
]
INCONCLUSIVE_PATTERNS = ['rlimit', 'resource limit', 'timed out', 'timeout', 'solver canceled', 'incomplete']

ASSUME_SCAN = [
  (r'\bassume\s*\(', 'assume(...)'),
  (r'\badmit\s*\(', 'admit()'),
  (r'#\[verifier::external_body\]', 'external_body'),
  (r'#\[verifier::external\b', 'external'),
  (r'\bassume_specification\b', 'assume_specification'),
  (r'\buninterp\s+spec\s+fn\b', 'uninterp spec fn'),
  (r'\baxiom\s+fn\b', 'axiom fn'),
  (r'#\[verifier::exec_allows_no_decreases_clause\]', 'exec_allows_no_decreases_clause'),
  (r'#\[verifier::truncate\]', 'verifier::truncate'),
]


def fn_ranges(text):
  """[(name, line_lo, line_hi)] for every fn with a body, qualified by enclosing impl header."""
  toks = tokens(text)
  line_of = lambda off: text.count('\n', 0, off) + 1
  res = []

  def walk(lo, hi, prefix):
    j = lo
    while j < hi:
      t = toks[j]
      if t[0] == 'id' and t[1] in ('impl', 'mod', 'trait') and j + 1 < hi:
        b = first_brace_at_depth0(toks, j + 1)
        if b is not None and b < hi:
          header = ' '.join(text[toks[j][3]:toks[b][2]].split())
          c = match_close(toks, b)
          if t[1] == 'impl':
            m = re.search(r'(?:for\s+)?([A-Za-z_][A-Za-z0-9_]*)\s*(?:<[^{]*>)?\s*$', header)
            name = m.group(1) if m else header
          else:
            name = header.split()[0] if header else ''
          walk(b + 1, c, prefix + [name])
          j = c + 1
          continue
      if t[0] == 'id' and t[1] == 'fn' and j + 1 < hi and toks[j + 1][0] == 'id':
        b = first_brace_at_depth0(toks, j + 2)
        # braces inside a Verus contract (`ensures match r { .. },`) are not the body: the body's
        # closing brace is never followed by an operator or a comma
        while b is not None and b < hi:
          c = match_close(toks, b)
          nxt = toks[c + 1] if c + 1 < len(toks) else None
          if nxt is not None and ((nxt[0] == 'punct' and nxt[1] in ',&|=.<>+-*/?') or (nxt[0] == 'id' and nxt[1] == 'as')):
            b = first_brace_at_depth0(toks, c + 1)
            continue
          break
        if b is not None and b < hi:
          c = match_close(toks, b)
          res.append(('::'.join(prefix + [toks[j + 1][1]]), line_of(toks[j][2]), line_of(toks[c][2])))
          j = c + 1
          continue
      if t[0] == 'punct' and t[1] == '{':
        c = match_close(toks, j)
        walk(j + 1, c, prefix)
        j = c + 1
        continue
      j += 1

  walk(0, len(toks), [])
  return res


LABEL_RE = re.compile(r'//\s*:([A-Za-z0-9_.\-]+)\s*$')


def run_unit(unit, repo='/repo', rlimit=None, seed=None, extra_args=(), timeout=900, variant=None, keep=True):
  """variant: optional callable(text)->text applied to the composed file (canaries)."""
  t0 = time.time()
  res = {'unit': unit, 'status': 'inconclusive', 'obligations': [], 'failures': [], 'functions': [],
         'assumptions': [], 'items': [], 'rules': [], 'diagnostic': '', 'wall_s': 0.0, 'smt_ms': 0}
  upath = os.path.join(HERE, 'units', unit + '.rs')
  try:
    comp = extract.compose(upath, repo)
  except (extract.ExtractError, extract.rsscan.ScanError) as e:
    res['diagnostic'] = 'extraction: %s' % e
    res['wall_s'] = time.time() - t0
    return res
  text = comp['text']
  if variant:
    text = variant(text)
  res['items'] = comp['items']
  res['lost_anchors'] = ['%s: %s' % (it['path'], l) for it in comp['items'] for l in it.get('lost_anchors', [])]
  res['rules'] = comp['rules']
  os.makedirs(BUILD, exist_ok=True)
  tag = unit if not variant else unit + '__' + getattr(variant, 'tag', 'variant')
  gen = os.path.join(BUILD, tag + '.rs')
  with open(gen, 'w') as f:
    f.write(text)
  res['generated'] = gen
  lines = text.split('\n')
  for pat, what in ASSUME_SCAN:
    for k, ln in enumerate(lines):
      if ln.lstrip().startswith('//'):
        continue
      if re.search(pat, ln):
        # find a nearby name
        ctx = ''
        for kk in range(k, min(k + 6, len(lines))):
          m = re.search(r'\b(fn|struct|enum)\s+([A-Za-z0-9_]+)|\[\s*([^\]]+)\s*\]\s*\(', lines[kk])
          if m:
            ctx = m.group(2) or m.group(3)
            break
        res['assumptions'].append('%s: %s' % (what, ' '.join(ctx.split()) or ln.strip()[:60]))
  cmd = ['verus', gen, '--crate-name', re.sub(r'\W', '_', tag), '--output-json', '--time-expanded', '--error-format=json',
         '--triggers-mode', 'silent', '--multiple-errors', '20', '--no-report-long-running']
  if rlimit:
    cmd += ['--rlimit', str(rlimit)]
  if seed is not None:
    cmd += ['--smt-option', 'smt.random_seed=%d' % (seed % 100000)]
  cmd += list(extra_args)
  res['cmd'] = ' '.join(cmd)
  env = dict(os.environ)
  try:
    p = subprocess.run(cmd, stdout=subprocess.PIPE, stderr=subprocess.PIPE, text=True, timeout=timeout, cwd=BUILD, env=env)
  except subprocess.TimeoutExpired:
    res['diagnostic'] = 'verus timed out after %ds' % timeout
    res['wall_s'] = time.time() - t0
    return res
  diags = []
  for ln in p.stderr.split('\n'):
    ln = ln.strip()
    if ln.startswith('{'):
      try:
        diags.append(json.loads(ln))
      except ValueError:
        pass
  try:
    out = json.loads(p.stdout[p.stdout.index('{'):])
  except ValueError:
    out = None
  res['raw_stderr_tail'] = p.stderr[-3000:] if out is None else ''
  franges = fn_ranges(text)

  def fn_at(line):
    best = None
    for name, lo, hi in franges:
      if lo <= line <= hi and (best is None or lo >= best[1]):
        best = (name, lo, hi)
    return best

  def item_at(line):
    for it in comp['items']:
      lo, hi = it['gen_lines']
      if lo <= line <= hi:
        return it
    return None

  def repo_ref(line):
    for it in comp['items']:
      lo, hi = it['gen_lines']
      if lo <= line <= hi:
        return '%s (%s, item starts at repo line %d)' % (it['file'], it['path'], it['repo_line'])
    return 'unit template'

  # labelled obligations present in the file
  labelled = []
  for k, ln in enumerate(lines, 1):
    m = LABEL_RE.search(ln)
    if m:
      f = fn_at(k)
      labelled.append((f[0] if f else '?', m.group(1), k))
  hard_errors = []
  failures = []
  inconcl = []
  for d in diags:
    if d.get('level') != 'error':
      continue
    msg = d.get('message', '')
    if msg.startswith('aborting due to'):
      continue
    low = msg.lower()
    spans = d.get('spans', [])
    prim = [s for s in spans if s.get('is_primary')] or spans
    line = prim[0]['line_start'] if prim else 0
    f = fn_at(line)
    # for pre/postconditions the labelled clause is the span with a label 'failed this ...'
    lab_line = line
    lab_end = prim[0]['line_end'] if prim else line
    for s in spans:
      if s.get('label') and 'failed' in s['label'] and os.path.basename(s.get('file_name', '')) == os.path.basename(gen):
        lab_line, lab_end = s['line_start'], s['line_end']
    # function in which the failure occurs = the one containing any span that is inside an fn body
    fnname = f[0] if f else '?'
    label = None
    m = None
    for ll in range(lab_line, min(lab_end, len(lines)) + 1):
      m = LABEL_RE.search(lines[ll - 1]) if 0 < ll <= len(lines) else None
      if m:
        break
    if m:
      label = m.group(1)
      lf = fn_at(lab_line)
      clause_fn = lf[0] if lf else fnname
    else:
      clause_fn = fnname
    if any(pt in low for pt in INCONCLUSIVE_PATTERNS):
      inconcl.append({'message': msg, 'gen_line': line, 'fn': fnname})
      continue
    if any(pt in low for pt in FAIL_PATTERNS):
      src_line = lines[lab_line - 1].strip() if 0 < lab_line <= len(lines) else ''
      name = '%s::%s' % (clause_fn, label) if label else '%s::[%s] %s' % (fnname, msg, ' '.join(src_line.split())[:80])
      # the function whose proof failed: for a precondition failure it's the caller (primary span)
      it = item_at(line)
      failures.append({'name': name, 'in_fn': fnname, 'message': msg, 'gen_line': line, 'repo_ref': repo_ref(line),
                       'text': src_line, 'rendered': d.get('rendered', ''),
                       'degraded': bool(it and it.get('lost_anchors')),
                       'lost_anchors': (it.get('lost_anchors') if it else [])})
      continue
    hard_errors.append(msg + (' @%d' % line if line else ''))
  # vacuity canaries: functions named canary_must_fail* are expected to be refuted; they are not
  # obligations.  A canary that verifies means the axioms / preconditions in scope are inconsistent.
  is_canary = lambda fn: fn.split('::')[-1].startswith('canary_must_fail')
  canary_failed = set(x['in_fn'] for x in failures if is_canary(x['in_fn']))
  failures = [x for x in failures if not is_canary(x['in_fn'])]
  res['failures'] = failures
  funcs = []
  if out:
    vr = out.get('verification-results', {})
    for mod in out.get('times-ms', {}).get('smt', {}).get('smt-run-module-times', []):
      for fb in mod.get('function-breakdown', []):
        nm = fb['function'].split('::', 1)[1] if '::' in fb['function'] else fb['function']
        funcs.append({'name': nm, 'mode': fb.get('mode:', fb.get('mode', '')), 'success': fb['success'],
                      'time_ms': fb['time'], 'rlimit': fb.get('rlimit', 0)})
    res['smt_ms'] = out.get('times-ms', {}).get('smt', {}).get('total', 0)
    res['verified'] = vr.get('verified', 0)
    res['errors'] = vr.get('errors', 0)
    if vr.get('encountered-vir-error'):
      hard_errors.append('verus reported a VIR (unsupported construct / mode) error')
  res['functions'] = funcs
  # obligations: per verified function one implicit body obligation (safety, callee preconditions,
  # termination) + one per labelled clause
  failed_fns = set(x['in_fn'] for x in failures)
  failed_names = set(x['name'] for x in failures)
  inconcl_fns = set(x['fn'] for x in inconcl)
  obl = []
  fsucc = {}
  for fx in funcs:
    fsucc[fx['name']] = fsucc.get(fx['name'], True) and fx['success']
  canaries = [f for f in fsucc if is_canary(f)]
  res['canaries'] = {f: (not fsucc[f]) for f in canaries}
  for f in canaries:
    if fsucc[f]:
      hard_errors.append('vacuity canary %s was verified: assumptions in scope are inconsistent' % f)
  for fname, ok in sorted(fsucc.items()):
    if fname.endswith('::clone') or fname.endswith('::eq') or is_canary(fname):
      continue
    st = 'discharged' if ok else ('inconclusive' if fname in inconcl_fns and fname not in failed_fns else 'failed')
    obl.append({'name': fname + '::<body: safety, callee preconditions, termination>', 'fn': fname, 'status': st})
  for f, lab, k in labelled:
    if is_canary(f):
      continue
    nm = '%s::%s' % (f, lab)
    if nm in failed_names:
      st = 'failed'
    elif f in fsucc and fsucc[f]:
      st = 'discharged'
    elif f in fsucc:
      # function failed but this clause was not the one reported: with --multiple-errors 20 every refuted clause is reported
      st = 'discharged' if f not in inconcl_fns else 'inconclusive'
    else:
      st = 'inconclusive'
    obl.append({'name': nm, 'fn': f, 'status': st})
  res['obligations'] = obl
  if hard_errors or out is None:
    res['status'] = 'inconclusive'
    res['diagnostic'] = '; '.join(hard_errors[:5]) or ('verus produced no result: ' + p.stderr[-800:])
  elif failures:
    res['status'] = 'failed'
  elif inconcl or any(o['status'] == 'inconclusive' for o in obl):
    res['status'] = 'inconclusive'
    res['diagnostic'] = '; '.join(x['message'] for x in inconcl[:5]) or 'labelled clause in a function Verus did not check'
  elif out and res.get('verified', 0) > 0 and (out['verification-results'].get('success') or
                                               (canaries and all(fx['success'] or is_canary(fx['name']) for fx in funcs))):
    res['status'] = 'ok'
  else:
    res['status'] = 'inconclusive'
    res['diagnostic'] = 'verus did not report success (verified=%s)' % res.get('verified')
  res['wall_s'] = time.time() - t0
  return res


if __name__ == '__main__':
  import sys
  r = run_unit(sys.argv[1], repo=os.environ.get('VERIF_REPO', '/repo'))
  print('status:', r['status'], r.get('diagnostic', ''))
  print('verified:', r.get('verified'), 'errors:', r.get('errors'), 'wall %.1fs smt %dms' % (r['wall_s'], r['smt_ms']))
  for f in r['failures']:
    print('FAILED', f['name'], '| in', f['in_fn'], '|', f['message'], '| gen line', f['gen_line'], '|', f['repo_ref'])
    if '-v' in sys.argv:
      print(f['rendered'])
  if r['status'] == 'inconclusive':
    print(r.get('raw_stderr_tail', ''))
  print('obligations: %d discharged / %d' % (sum(1 for o in r['obligations'] if o['status'] == 'discharged'), len(r['obligations'])))
  if '-o' in sys.argv:
    for o in r['obligations']:
      print('  ', o['status'], o['name'])
