// Unit `algebra` — lemmas over the mathematical integers that the Kani units rely on where a
// bit-level proof is out of SAT reach (32-bit multiplier identities).  No code is extracted here;
// the exec functions at the end tie the spec-level `wrap32` to Rust's own wrapping operators.
use vstd::prelude::*;
use vstd::arithmetic::div_mod::*;
use vstd::arithmetic::mul::*;
verus! {

pub open spec fn wrap32(x: int) -> int { (x + 0x8000_0000) % 0x1_0000_0000 - 0x8000_0000 }

pub proof fn lemma_wrap32_range(x: int)
  ensures i32::MIN <= wrap32(x) <= i32::MAX
{
  lemma_mod_bound(x + 0x8000_0000, 0x1_0000_0000);
}

/// wrap32 only depends on the residue modulo 2^32
pub proof fn lemma_wrap32_congruent(a: int, b: int, k: int)
  requires a == b + k * 0x1_0000_0000
  ensures wrap32(a) == wrap32(b)
{
  lemma_mul_is_commutative(k, 0x1_0000_0000);
  lemma_mod_multiples_vanish(k, b + 0x8000_0000, 0x1_0000_0000);
}

pub proof fn lemma_wrap32_is_plus_multiple(x: int) -> (k: int)
  ensures wrap32(x) == x + k * 0x1_0000_0000
{
  lemma_fundamental_div_mod(x + 0x8000_0000, 0x1_0000_0000);
  let k = -((x + 0x8000_0000) / 0x1_0000_0000);
  lemma_mul_is_commutative(k, 0x1_0000_0000);
  lemma_mul_unary_negation(0x1_0000_0000, (x + 0x8000_0000) / 0x1_0000_0000);
  k
}

/// (x * c1) * c2 == x * (c1 * c2) in wrapping 32-bit arithmetic: the MUL-in-MUL merge of
/// constant propagation keeps the value for every x.
pub proof fn lemma_wrapping_mul_assoc(x: int, c1: int, c2: int)
  ensures wrap32(wrap32(x * c1) * c2) == wrap32(x * wrap32(c1 * c2))  // :wrapping_mul_is_associative
{
  let k1 = lemma_wrap32_is_plus_multiple(x * c1);
  let k2 = lemma_wrap32_is_plus_multiple(c1 * c2);
  let m = 0x1_0000_0000int;
  // left = x*c1*c2 + (k1*c2)*m ; right = x*c1*c2 + (x*k2)*m
  assert((x * c1 + k1 * m) * c2 == x * c1 * c2 + (k1 * c2) * m) by (nonlinear_arith);
  assert(x * (c1 * c2 + k2 * m) == x * c1 * c2 + (x * k2) * m) by (nonlinear_arith);
  lemma_wrap32_congruent(wrap32(x * c1) * c2, x * c1 * c2, k1 * c2);
  lemma_wrap32_congruent(x * wrap32(c1 * c2), x * c1 * c2, x * k2);
}

/// a * b == b * a in wrapping arithmetic: exchanging the operands of MUL keeps the value
pub proof fn lemma_wrapping_mul_commutes(a: int, b: int)
  ensures wrap32(a * b) == wrap32(b * a)  // :wrapping_mul_is_commutative
{
  lemma_mul_is_commutative(a, b);
}

/// (x + c1) + c2 == x + (c1 + c2) in wrapping arithmetic (also proved bit-precisely by Kani)
pub proof fn lemma_wrapping_add_assoc(x: int, c1: int, c2: int)
  ensures wrap32(wrap32(x + c1) + c2) == wrap32(x + wrap32(c1 + c2))  // :wrapping_add_is_associative
{
  let k1 = lemma_wrap32_is_plus_multiple(x + c1);
  let k2 = lemma_wrap32_is_plus_multiple(c1 + c2);
  lemma_wrap32_congruent(wrap32(x + c1) + c2, x + c1 + c2, k1);
  lemma_wrap32_congruent(x + wrap32(c1 + c2), x + c1 + c2, k2);
}

/// derived induction variables: (b*m + i) * c == b*(m*c) + (i*c) in wrapping arithmetic
pub proof fn lemma_wrapping_distribute(b: int, m: int, i: int, c: int)
  ensures wrap32(wrap32(wrap32(b * m) + i) * c) == wrap32(wrap32(b * wrap32(m * c)) + wrap32(i * c))  // :scaling_a_derived_induction_variable
{
  let k1 = lemma_wrap32_is_plus_multiple(b * m);
  let k2 = lemma_wrap32_is_plus_multiple(wrap32(b * m) + i);
  let k3 = lemma_wrap32_is_plus_multiple(m * c);
  let k4 = lemma_wrap32_is_plus_multiple(b * wrap32(m * c));
  let k5 = lemma_wrap32_is_plus_multiple(i * c);
  let mm = 0x1_0000_0000int;
  assert((b * m + k1 * mm + i + k2 * mm) * c == (b * m + i) * c + ((k1 + k2) * c) * mm) by (nonlinear_arith);
  assert(b * (m * c + k3 * mm) + k4 * mm + (i * c + k5 * mm) == (b * m + i) * c + (b * k3 + k4 + k5) * mm) by (nonlinear_arith);
  lemma_wrap32_congruent(wrap32(wrap32(b * m) + i) * c, (b * m + i) * c, (k1 + k2) * c);
  lemma_wrap32_congruent(wrap32(b * wrap32(m * c)) + wrap32(i * c), (b * m + i) * c, b * k3 + k4 + k5);
}

/// adding two derived induction variables over the same base component-wise
pub proof fn lemma_wrapping_add_derived(b: int, m1: int, i1: int, m2: int, i2: int)
  ensures wrap32(wrap32(wrap32(b * m1) + i1) + wrap32(wrap32(b * m2) + i2))
    == wrap32(wrap32(b * wrap32(m1 + m2)) + wrap32(i1 + i2))  // :adding_derived_induction_variables
{
  let mm = 0x1_0000_0000int;
  let k1 = lemma_wrap32_is_plus_multiple(b * m1);
  let k2 = lemma_wrap32_is_plus_multiple(wrap32(b * m1) + i1);
  let k3 = lemma_wrap32_is_plus_multiple(b * m2);
  let k4 = lemma_wrap32_is_plus_multiple(wrap32(b * m2) + i2);
  let k5 = lemma_wrap32_is_plus_multiple(m1 + m2);
  let k6 = lemma_wrap32_is_plus_multiple(b * wrap32(m1 + m2));
  let k7 = lemma_wrap32_is_plus_multiple(i1 + i2);
  let t = b * m1 + i1 + b * m2 + i2;
  assert(b * (m1 + m2 + k5 * mm) + k6 * mm + (i1 + i2 + k7 * mm) == t + (b * k5 + k6 + k7) * mm) by (nonlinear_arith)
    requires t == b * m1 + i1 + b * m2 + i2;
  assert((b * m1 + k1 * mm + i1 + k2 * mm) + (b * m2 + k3 * mm + i2 + k4 * mm) == t + (k1 + k2 + k3 + k4) * mm) by (nonlinear_arith)
    requires t == b * m1 + i1 + b * m2 + i2;
  lemma_wrap32_congruent(wrap32(wrap32(b * m1) + i1) + wrap32(wrap32(b * m2) + i2), t, k1 + k2 + k3 + k4);
  lemma_wrap32_congruent(wrap32(b * wrap32(m1 + m2)) + wrap32(i1 + i2), t, b * k5 + k6 + k7);
}

// ---- link to Rust's operators (vstd's specs of wrapping_mul / wrapping_add on i32)
fn link_wrapping_mul(a: i32, b: i32) -> (r: i32)
  ensures r == wrap32(a * b)  // :rust_wrapping_mul_is_wrap32
{
  proof { lemma_wrap32_range(a * b); }
  a.wrapping_mul(b)
}

fn link_wrapping_add(a: i32, b: i32) -> (r: i32)
  ensures r == wrap32(a + b)  // :rust_wrapping_add_is_wrap32
{
  a.wrapping_add(b)
}

proof fn canary_must_fail_algebra() ensures false {}

} // verus!
fn main() {}
