// Unit `ccpbin` — C02 kernel: the algebraic simplifications of constant propagation.
// The part of the `Statement::Binary` arm of optimize_stmt in
// crates/samlang-optimization/src/conditional_constant_propagation.rs that replaces `name = e1 op e2`
// by a known value (x + 0, x * 0, x * 1, x / 1, x % 1, constant folding, x - x, x % x, x / x),
// extracted verbatim as a block (R14).  The replacement must be what the target computes for
// every valuation of the variables — including "it traps".
use vstd::prelude::*;
use vstd::arithmetic::div_mod::*;
use vstd::arithmetic::mul::*;
verus! {

//@extract crates/samlang-ast/src/hir.rs :: enum BinaryOperator
//@attr #[derive(Clone, Copy, PartialEq, Eq, Structural)]
//@end

// ---- R7: names are opaque; their equality is the one thing used
#[verifier::external_body]
#[derive(Clone, Copy)]
struct PStr { _p: u128 }
#[verifier::external]
impl PartialEq for PStr { fn eq(&self, other: &Self) -> bool { unimplemented!() } }
pub assume_specification[ <PStr as PartialEq>::eq ](a: &PStr, b: &PStr) -> (r: bool)
  ensures r == (*a == *b);

#[verifier::external_body]
#[derive(Clone, Copy)]
struct Type { _p: u8 }

//@extract crates/samlang-ast/src/mir.rs :: struct VariableName
//@attr #[derive(Clone, Copy)]
//@end

//@extract crates/samlang-ast/src/mir.rs :: enum Expression
//@attr #[derive(Clone, Copy)]
//@end

//@extract crates/samlang-ast/src/mir.rs :: const ZERO
//@end

//@extract crates/samlang-ast/src/mir.rs :: const ONE
//@end

// ---- the target's arithmetic (WebAssembly i32; `None` = trap), as in units foldv / algebra
spec fn wrap32(x: int) -> int { (x + 0x8000_0000) % 0x1_0000_0000 - 0x8000_0000 }
/// truncating division (vstd's model of Rust's `/` `%`; proved truncating in unit foldv)
spec fn tdiv(a: int, b: int) -> int { rust_div(a, b) }
spec fn trem(a: int, b: int) -> int { rust_rem(a, b) }
spec fn flag(b: bool) -> int { if b { 1 } else { 0 } }
uninterp spec fn bits(op: BinaryOperator, a: int, b: int) -> int;
spec fn target(op: BinaryOperator, a: int, b: int) -> Option<int> {
  match op {
    BinaryOperator::MUL => Some(wrap32(a * b)),
    BinaryOperator::PLUS => Some(wrap32(a + b)),
    BinaryOperator::MINUS => Some(wrap32(a - b)),
    BinaryOperator::DIV => if b == 0 || (a == i32::MIN && b == -1) { None } else { Some(tdiv(a, b)) },
    BinaryOperator::MOD => if b == 0 { None } else { Some(trem(a, b)) },
    BinaryOperator::LT => Some(flag(a < b)),
    BinaryOperator::LE => Some(flag(a <= b)),
    BinaryOperator::GT => Some(flag(a > b)),
    BinaryOperator::GE => Some(flag(a >= b)),
    BinaryOperator::EQ => Some(flag(a == b)),
    BinaryOperator::NE => Some(flag(a != b)),
    _ => Some(bits(op, a, b)),
  }
}

/// a run-time valuation of the SSA names
type Env = spec_fn(PStr) -> int;
spec fn env_ok(env: Env) -> bool { forall|n: PStr| i32::MIN <= #[trigger] env(n) <= i32::MAX }
/// 31-bit literals and string addresses are some 32-bit word
uninterp spec fn other_value(e: Expression) -> i32;
spec fn val(e: Expression, env: Env) -> int {
  match e {
    Expression::Int32Literal(v) => v as int,
    Expression::Variable(v) => env(v.name),
    _ => other_value(e) as int,
  }
}

spec fn same_variable(e1: Expression, e2: Expression) -> bool {
  e1 matches Expression::Variable(a) && e2 matches Expression::Variable(b) && a.name == b.name
}
spec fn is_self_division(op: BinaryOperator, e1: Expression, e2: Expression) -> bool {
  same_variable(e1, e2) && (op == BinaryOperator::DIV || op == BinaryOperator::MOD)
}

// ---- R7: the value context, reduced to "what is name bound to"
#[verifier::external_body]
struct LocalValueContextForOptimization { _p: u8 }
impl LocalValueContextForOptimization {
  uninterp spec fn bound(&self, n: PStr) -> Option<Expression>;
  /// contract of the real checked_bind: (it panics if the name is already bound — SSA names are bound once)
  #[verifier::external_body]
  fn checked_bind(&mut self, name: PStr, expression: Expression)
    requires old(self).bound(name) is None,
    ensures forall|n: PStr| #[trigger] final(self).bound(n) == (if n == name { Some(expression) } else { old(self).bound(n) }),
  { unimplemented!() }
}

/// contract of evaluate_bin_op, proved in units fold (Kani) and foldv (Verus)
#[verifier::external_body]
fn evaluate_bin_op(operator: BinaryOperator, v1: i32, v2: i32) -> (r: Option<i32>)
  ensures r matches Some(v) ==> target(operator, v1 as int, v2 as int) == Some(v as int),
{ unimplemented!() }

proof fn lemma_euclid(x: int, d: int)
  requires d != 0, x >= 0
  ensures x == d * (x / d) + x % d, 0 <= x % d, d > 0 ==> x % d < d, d < 0 ==> x % d < -d
{
  lemma_fundamental_div_mod(x, d);
  if d > 0 { lemma_mod_bound(x, d); } else {
    assert(0 <= x % d < -d) by (nonlinear_arith) requires d < 0;
  }
}

/// x / 1 == x, x % 1 == 0, and for x != 0: x / x == 1, x % x == 0  (truncating division)
proof fn lemma_division_identities(x: int)
  ensures
    tdiv(x, 1) == x, trem(x, 1) == 0,
    x != 0 ==> tdiv(x, x) == 1 && trem(x, x) == 0,
{
  if x > 0 {
    lemma_euclid(x, x);
    assert(x / x == 1 && x % x == 0) by (nonlinear_arith) requires x > 0, x == x * (x / x) + x % x, 0 <= x % x < x;
  } else if x < 0 {
    lemma_euclid(-x, x);
    assert((-x) / x == -1 && (-x) % x == 0) by (nonlinear_arith) requires x < 0, -x == x * ((-x) / x) + (-x) % x, 0 <= (-x) % x < -x;
  }
}

//@extractblock crates/samlang-optimization/src/conditional_constant_propagation.rs :: fn optimize_stmt
//@from let operator = *operator; if let Expression::Int32Literal(v2) = &e2 {
//@to if operator == BinaryOperator::DIV { value_cx.checked_bind(*name, ONE); return false; } } _ => {} }
//@replace* return false; ==>> return; ## R14: leaving the enclosing function with "no break" is leaving the block
//@replace (Expression::Variable(v1), Expression::Variable(v2)) if v1.name.eq(&v2.name) => { ==>> (Expression::Variable(v1), Expression::Variable(v2)) => { if v1.name.eq(&v2.name) { ## R16: the guard is tested inside its arm; the only later arm is `_ => {}`, so a failed guard does nothing either way (Verus loses the final value of `&mut` parameters across a guarded arm)
//@replace } _ => {} ==>> } } _ => {} ## R16: closing brace of the moved guard
//@letchain if let Expression::Int32Literal(v1) = &e1 && let Some(value) = evaluate_bin_op(operator, *v1, *v2)
//@wrap fn ccp_binary_simplify(name: &PStr, operator: &BinaryOperator, e1: Expression, e2: Expression, value_cx: &mut LocalValueContextForOptimization)
//@contract
    requires
      old(value_cx).bound(*name) is None,
    ensures
      forall|n: PStr| n != *name ==> #[trigger] final(value_cx).bound(n) == old(value_cx).bound(n),  // :other_names_untouched
      // the value that replaces the operation is what the target computes, for every run-time valuation
      final(value_cx).bound(*name) is Some && !is_self_division(*operator, e1, e2)
        ==> forall|env: Env| env_ok(env) ==> target(*operator, val(e1, env), val(e2, env)) == Some(#[trigger] val(final(value_cx).bound(*name)->Some_0, env)),  // :replacement_is_the_target_result_for_every_valuation
      final(value_cx).bound(*name) is Some && is_self_division(*operator, e1, e2)
        ==> forall|env: Env| env_ok(env) && val(e2, env) != 0 ==> target(*operator, val(e1, env), val(e2, env)) == Some(#[trigger] val(final(value_cx).bound(*name)->Some_0, env)),  // :self_division_value_is_right_when_it_does_not_trap
      final(value_cx).bound(*name) is Some && is_self_division(*operator, e1, e2)
        ==> forall|env: Env| env_ok(env) ==> target(*operator, val(e1, env), val(e2, env)) == Some(#[trigger] val(final(value_cx).bound(*name)->Some_0, env)),  // :self_division_keeps_its_trap
//@before if let Expression::Int32Literal(v2) = &e2 {
  proof {
    assert forall|x: int| #[trigger] tdiv(x, 1) == x by { lemma_division_identities(x); }
    assert forall|x: int| #[trigger] trem(x, 1) == 0 by { lemma_division_identities(x); }
    assert forall|x: int| x != 0 implies #[trigger] tdiv(x, x) == 1 by { lemma_division_identities(x); }
    assert forall|x: int| x != 0 implies #[trigger] trem(x, x) == 0 by { lemma_division_identities(x); }
    assert forall|x: int| i32::MIN <= x <= i32::MAX implies #[trigger] wrap32(x) == x by {}
    assert forall|x: int, y: int| y == 0 implies #[trigger] (x * y) == 0 by { assert(y == 0 ==> x * y == 0) by (nonlinear_arith); }
    assert forall|x: int, y: int| y == 1 implies #[trigger] (x * y) == x by { assert(y == 1 ==> x * y == x) by (nonlinear_arith); }
  }
//@end

proof fn canary_must_fail_ccpbin() ensures false {}

} // verus!
fn main() {}
