// Unit `ccploop` — C02 kernel: what constant propagation keeps of a loop whose first iteration definitely leaves it.
// try_optimize_loop_for_some_iterations (crates/samlang-optimization/src/conditional_constant_propagation.rs), the
// exit block (R14): when the statements of the first iteration — evaluated with the loop variables bound to their
// initial values — end in a `break`, the loop is replaced by exactly those statements without the break, whether or
// not anything reads the loop's result: the calls and possible traps of that iteration stay.
use vstd::prelude::*;
verus! {

global size_of usize == 8;

#[verifier::external_body]
#[derive(Clone, Copy)]
struct PStr { _p: u128 }
/// R7: values and types are opaque here
#[verifier::external_body]
#[derive(Clone, Copy)]
struct Expression { _p: u64 }
#[verifier::external_body]
#[derive(Clone, Copy)]
struct Type { _p: u64 }

//@extract crates/samlang-ast/src/mir.rs :: struct VariableName
//@attr #[derive(Clone, Copy)]
//@end

/// R6: the statement reduced to the Break variant and an opaque rest
enum Statement {
  Break(Expression),
  Other(u64),
}

#[verifier::external_body]
struct LocalValueContextForOptimization { _p: u8 }
impl LocalValueContextForOptimization {
  #[verifier::external_body]
  fn checked_bind(&mut self, name: PStr, value: Expression) { unimplemented!() }
}
#[verifier::external_body]
fn optimize_expr(value_cx: &mut LocalValueContextForOptimization, e: &Expression) -> (r: Expression) { unimplemented!() }

/// R14: falling out of the block (the function goes on with the next unrolling step): some unspecified value
#[verifier::external_body]
fn goes_on_unrolling() -> (r: Vec<Statement>) { unimplemented!() }

//@extractblock crates/samlang-optimization/src/conditional_constant_propagation.rs :: fn try_optimize_loop_for_some_iterations
//@from let last_stmt_of_first_run_optimized_stmt = first_run_optimized_stmts.last().unwrap();
//@to #1 return first_run_optimized_stmts;
//@close }
//@wrap fn leave_in_first_iteration(mut first_run_optimized_stmts: Vec<Statement>, break_collector: Option<VariableName>, value_cx: &mut LocalValueContextForOptimization) -> (r: Vec<Statement>)
//@contract
    requires
      first_run_optimized_stmts@.len() > 0,
    ensures
      // the first iteration ends in a break: the loop is gone and exactly the statements before the break remain
      first_run_optimized_stmts@.last() is Break
        ==> r@ == first_run_optimized_stmts@.drop_last(),  // :the_statements_of_the_only_iteration_are_all_kept
//@atend
  goes_on_unrolling()
//@end

proof fn canary_must_fail_ccploop() ensures false {}

} // verus!
fn main() {}
