// Unit `checkgates` — C06 kernels on the checker side: two gates of crates/samlang-checker/src/main_checker.rs,
// verbatim.  validate_type_arguments: a type argument that is neither its parameter's (substituted) bound nor a
// subtype of it is reported.  assignability_check: a failed structural assignability test is reported.
// The tests themselves (is_subtype, type_system::assignability_check) are opaque here.
use vstd::prelude::*;
use std::collections::HashMap;
use std::sync::Arc;
verus! {

global size_of usize == 8;

// ---- R7: opaque collaborators
#[verifier::external_body]
#[derive(Clone, Copy)]
struct PStr { _p: u128 }
#[verifier::external]
impl PartialEq for PStr { fn eq(&self, other: &Self) -> bool { unimplemented!() } }
#[verifier::external]
impl Eq for PStr {}
#[verifier::external]
impl std::hash::Hash for PStr { fn hash<H: std::hash::Hasher>(&self, state: &mut H) { unimplemented!() } }
#[verifier::external_body]
#[derive(Clone, Copy)]
struct Location { _p: u8 }
#[verifier::external_body]
struct Description { _p: u8 }
#[verifier::external_body]
struct StackableError { _p: u8 }
#[verifier::external_body]
struct NominalType { _p: u8 }
#[verifier::external_body]
struct Reason { _p: u8 }
impl Reason {
  /// R3: the field `use_loc` of the opaque reason
  #[verifier::external_body]
  fn use_loc(&self) -> (r: Location) { unimplemented!() }
}
#[verifier::external_body]
struct Type { _p: u8 }
uninterp spec fn same_type(a: Type, b: Type) -> bool;
uninterp spec fn nominal(n: NominalType) -> Type;
/// the type of a class object (`Foo` itself, the receiver of its static functions): a nominal type with is_class_statics set
uninterp spec fn class_object(t: Type) -> bool;
impl Type {
  /// R3: `t.as_nominal().is_some_and(|n| n.is_class_statics)` on the opaque type
  #[verifier::external_body]
  fn is_class_object(&self) -> (r: bool) ensures r == class_object(*self) { unimplemented!() }
  #[verifier::external_body]
  fn is_the_same_type(&self, other: &Type) -> (r: bool) ensures r == same_type(*self, *other) { unimplemented!() }
  #[verifier::external_body]
  fn get_reason(&self) -> (r: &Reason) { unimplemented!() }
  #[verifier::external_body]
  fn to_description(&self) -> (r: Description) { unimplemented!() }
  /// R3: the enum constructor `Type::Nominal(..)`
  #[verifier::external_body]
  fn nominal_of(n: NominalType) -> (r: Type) ensures r == nominal(n) { unimplemented!() }
}
#[verifier::external_body]
struct ErrorSet { _p: u8 }
impl ErrorSet {
  /// number of reported errors (unit errgate: an error once reported stays reported)
  uninterp spec fn count(&self) -> nat;
  #[verifier::external_body]
  fn report_incompatible_subtype_error(&mut self, loc: Location, lower: Description, upper: Description)
    ensures final(self).count() == old(self).count() + 1
  { unimplemented!() }
  #[verifier::external_body]
  fn report_stackable_error(&mut self, loc: Location, stackable: StackableError)
    ensures final(self).count() == old(self).count() + 1
  { unimplemented!() }
}

//@extract crates/samlang-checker/src/type_.rs :: struct TypeParameterSignature
//@end

/// the typing context, reduced to the error set (R6) and the subtype test
struct TypingContext<'a> { error_set: &'a mut ErrorSet }
uninterp spec fn subtype(lower: Type, upper: Type) -> bool;
impl<'a> TypingContext<'a> {
  #[verifier::external_body]
  fn is_subtype(&self, lower: &Type, upper: &Type) -> (r: bool) ensures r == subtype(*lower, *upper) { unimplemented!() }
}
mod type_system {
  use super::*;
  pub uninterp spec fn substituted(bound: NominalType, map: Map<PStr, Arc<Type>>) -> NominalType;
  #[verifier::external_body]
  pub fn subst_nominal_type(type_: &NominalType, mapping: &HashMap<PStr, Arc<Type>>) -> (r: NominalType)
    ensures r == substituted(*type_, mapping@)
  { unimplemented!() }
  pub uninterp spec fn assignable(lower: Type, upper: Type) -> bool;
  /// the structural assignability test (opaque): None iff assignable
  #[verifier::external_body]
  pub fn assignability_check(lower: &Type, upper: &Type) -> (r: Option<StackableError>)
    ensures r is None == assignable(*lower, *upper)
  { unimplemented!() }
}

/// the k-th type argument violates its parameter's bound
spec fn violates_bound(type_params: Seq<TypeParameterSignature>, subst_map: Map<PStr, Arc<Type>>, k: int) -> bool {
  type_params[k].bound is Some && subst_map.contains_key(type_params[k].name) && {
    let bound = nominal(type_system::substituted(type_params[k].bound->Some_0, subst_map));
    let arg = *subst_map[type_params[k].name];
    // a class object is not an instance of its class although the two types have the same name (fix 4169e1c)
    (class_object(arg) || !same_type(arg, bound)) && !subtype(arg, bound)
  }
}

//@extract crates/samlang-checker/src/main_checker.rs :: fn validate_type_arguments
//@replace Type::Nominal(type_system::subst_nominal_type(bound, subst_map)) => Type::nominal_of(type_system::subst_nominal_type(bound, subst_map)) ## R3: enum constructor of the opaque type
//@replace solved_type_argument.get_reason().use_loc => solved_type_argument.get_reason().use_loc() ## R3: field of the opaque reason
//@replace solved_type_argument.as_nominal().is_some_and(|n| n.is_class_statics) => solved_type_argument.is_class_object() ## R3: the class-object flag of the opaque type
//@contract
    requires
      vstd::std_specs::hash::obeys_key_model::<PStr>(),
    ensures
      final(cx).error_set.count() >= old(cx).error_set.count(),
      // a violated type-parameter bound is reported
      (exists|k: int| 0 <= k < type_params@.len() && violates_bound(type_params@, subst_map@, k))
        ==> final(cx).error_set.count() > old(cx).error_set.count(),  // :a_violated_type_parameter_bound_is_reported
      // and nothing is reported when every bound holds
      (forall|k: int| 0 <= k < type_params@.len() ==> !violates_bound(type_params@, subst_map@, k))
        ==> final(cx).error_set.count() == old(cx).error_set.count(),  // :no_report_when_all_bounds_hold
//@loop 0 iter=it
    invariant
      vstd::std_specs::hash::obeys_key_model::<PStr>(),
      it.seq().len() == type_params@.len(),
      forall|j: int| 0 <= j < type_params@.len() ==> *(#[trigger] it.seq()[j]) == type_params@[j],
      cx.error_set.count() >= old(cx).error_set.count(),
      (exists|k: int| 0 <= k < it.index() && violates_bound(type_params@, subst_map@, k))
        ==> cx.error_set.count() > old(cx).error_set.count(),
      (forall|k: int| 0 <= k < it.index() ==> !violates_bound(type_params@, subst_map@, k))
        ==> cx.error_set.count() == old(cx).error_set.count(),
//@loopstart 0
    let ghost c0 = cx.error_set.count();
//@loopend 0
    proof {
      let i = it.index() as int;
      assert(*type_param == type_params@[i]);
      assert(cx.error_set.count() != c0 ==> violates_bound(type_params@, subst_map@, i));
      assert(cx.error_set.count() == c0 ==> !violates_bound(type_params@, subst_map@, i));
      // this iteration reported exactly when parameter i is violated
      assert(violates_bound(type_params@, subst_map@, i) || !violates_bound(type_params@, subst_map@, i));
    }
//@end

//@extract crates/samlang-checker/src/main_checker.rs :: fn assignability_check
//@contract
    ensures
      !type_system::assignable(*lower, *upper) ==> final(cx).error_set.count() == old(cx).error_set.count() + 1,  // :a_failed_assignability_test_is_reported
      type_system::assignable(*lower, *upper) ==> final(cx).error_set.count() == old(cx).error_set.count(),
//@end

// ---- a type argument solved from a function-type hint is validated like any other (R14 block of
// check_member_with_unresolved_tparams)
mod solver {
  use super::*;
  pub struct TypeConstraintSolution { pub solved_substitution: HashMap<PStr, Arc<Type>>, pub solved_generic_type: Arc<Type> }
}
#[verifier::external_body]
struct MethodTypeInfo { _p: u8 }
impl MethodTypeInfo {
  /// R3: the fields `type_parameters` and `Type::Fn(type_.clone())` of the opaque member signature
  uninterp spec fn tparams(&self) -> Seq<TypeParameterSignature>;
  #[verifier::external_body]
  fn type_parameters(&self) -> (r: &Vec<TypeParameterSignature>) ensures r@ == self.tparams() { unimplemented!() }
  #[verifier::external_body]
  fn fn_type(&self) -> (r: Type) { unimplemented!() }
}
/// the solver is opaque: it returns some substitution
#[verifier::external_body]
fn solve_type_constraints(concrete: &Type, generic: &Type, type_parameters: &Vec<TypeParameterSignature>, error_set: &mut ErrorSet) -> (r: solver::TypeConstraintSolution)
  ensures final(error_set).count() >= old(error_set).count()
{ unimplemented!() }

//@extractblock crates/samlang-checker/src/main_checker.rs :: fn check_member_with_unresolved_tparams
//@from let type_system::TypeConstraintSolution { solved_generic_type, solved_substitution } = type_system::solve_type_constraints(
//@to validate_type_arguments(cx, &method_type_info.type_parameters, &solved_substitution);
//@replace type_system::TypeConstraintSolution { solved_generic_type, solved_substitution } => solver::TypeConstraintSolution { solved_generic_type, solved_substitution } ## R1: module path of the reduced solution type
//@replace type_system::solve_type_constraints( => solve_type_constraints( ## R1: module path of the opaque solver
//@replace &Type::Fn(method_type_info.type_.clone()), => &method_type_info.fn_type(), ## R3: the function type of the opaque member signature
//@replace* &method_type_info.type_parameters => method_type_info.type_parameters() ## R3: field of the opaque member signature
//@wrap fn solve_from_hint_and_validate(cx: &mut TypingContext, hint: &Type, method_type_info: &MethodTypeInfo) -> (r: (HashMap<PStr, Arc<Type>>, Arc<Type>))
//@contract
    requires
      vstd::std_specs::hash::obeys_key_model::<PStr>(),
    ensures
      final(cx).error_set.count() >= old(cx).error_set.count(),
      // whatever the solver chose: a chosen type argument that violates its parameter's bound is reported
      (exists|k: int| 0 <= k < method_type_info.tparams().len() && violates_bound(method_type_info.tparams(), r.0@, k))
        ==> final(cx).error_set.count() > old(cx).error_set.count(),  // :type_arguments_solved_from_a_hint_are_validated_against_their_bounds
//@atend
  (solved_substitution, solved_generic_type)
//@end

proof fn canary_must_fail_checkgates() ensures false {}

} // verus!
fn main() {}
