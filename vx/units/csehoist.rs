// Unit `csehoist` — C02 kernel: common-subexpression elimination never offers an operation that can trap for hoisting.
// The `Statement::Binary` arm of optimize_stmts in crates/samlang-optimization/src/common_subexpression_elimination.rs
// (R14 block).  What both branches of an if-else compute is moved in front of the if-else; a division moved there
// would trap before the effects that precede it inside the branches.
use vstd::prelude::*;
use std::collections::BTreeSet;
verus! {

global size_of usize == 8;

//@extract crates/samlang-ast/src/hir.rs :: enum BinaryOperator
//@attr #[derive(Clone, Copy, PartialEq, Eq, Structural)]
//@end

#[verifier::external_body]
#[derive(Clone, Copy)]
struct PStr { _p: u128 }
/// R7: operands are opaque here
#[verifier::external_body]
#[derive(Clone, Copy)]
struct Expression { _p: u64 }

//@extract crates/samlang-optimization/src/optimization_common.rs :: struct BinaryBindedValue
//@attr #[derive(Clone, Copy)]
//@end
/// R6: the value key reduced to the Binary variant and an opaque rest
#[derive(Clone, Copy)]
enum BindedValue {
  Binary(BinaryBindedValue),
  Other(u8),
}
#[verifier::external]
impl PartialEq for BindedValue { fn eq(&self, o: &Self) -> bool { unimplemented!() } }
#[verifier::external]
impl Eq for BindedValue {}
#[verifier::external]
impl PartialOrd for BindedValue { fn partial_cmp(&self, o: &Self) -> Option<std::cmp::Ordering> { unimplemented!() } }
#[verifier::external]
impl Ord for BindedValue { fn cmp(&self, o: &Self) -> std::cmp::Ordering { unimplemented!() } }

//@extract crates/samlang-ast/src/mir.rs :: struct Binary
//@replace hir::BinaryOperator => BinaryOperator ## R1: module path of the extracted enum
//@end
enum Statement {
  Binary(Binary),
  Other(u8),
}

spec fn can_trap(op: BinaryOperator) -> bool { op == BinaryOperator::DIV || op == BinaryOperator::MOD }

//@extractblock crates/samlang-optimization/src/common_subexpression_elimination.rs :: fn optimize_stmts
//@from Statement::Binary(Binary { name, operator, e1, e2 }) => { if operator != BinaryOperator::DIV
//@to collector.push(Statement::Binary(Binary { name, operator, e1, e2 })); }
//@replace Statement::Binary(Binary { name, operator, e1, e2 }) => { ==>> { ## R14: the arm header is part of the anchor; its bindings are the parameters of the synthetic function
//@wrap fn cse_binary_arm(name: PStr, operator: BinaryOperator, e1: Expression, e2: Expression, set: &mut BTreeSet<BindedValue>, collector: &mut Vec<Statement>)
//@contract
    requires
      vstd::laws_cmp::obeys_cmp::<BindedValue>(),
    ensures
      // the statement itself stays where it is
      final(collector)@ == old(collector)@.push(Statement::Binary(Binary { name, operator, e1, e2 })),  // :the_operation_stays_in_its_branch
      // and its value is offered for hoisting only if computing it earlier cannot trap
      final(set)@ == (if can_trap(operator) { old(set)@ } else { old(set)@.insert(BindedValue::Binary(BinaryBindedValue { operator, e1, e2 })) }),  // :trapping_operations_are_not_offered_for_hoisting
//@end

proof fn canary_must_fail_csehoist() ensures false {}

} // verus!
fn main() {}
