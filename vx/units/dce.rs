// Unit `dce` — C02 kernel: dead-code elimination never removes an operation that can trap.
// The `Statement::Binary` arm of optimize_stmt in crates/samlang-optimization/src/dead_code_elimination.rs,
// extracted verbatim as a block (R14).
use vstd::prelude::*;
use std::collections::HashSet;
verus! {

global size_of usize == 8;

//@extract crates/samlang-ast/src/hir.rs :: enum BinaryOperator
//@attr #[derive(Clone, Copy, PartialEq, Eq, Structural)]
//@end

// ---- R7: opaque names and operands
#[verifier::external_body]
#[derive(Clone, Copy)]
struct PStr { _p: u128 }
#[verifier::external]
impl PartialEq for PStr { fn eq(&self, other: &Self) -> bool { unimplemented!() } }
#[verifier::external]
impl Eq for PStr {}
#[verifier::external]
impl std::hash::Hash for PStr { fn hash<H: std::hash::Hasher>(&self, state: &mut H) { unimplemented!() } }

#[verifier::external_body]
#[derive(Clone, Copy)]
struct Type { _p: u8 }

//@extract crates/samlang-ast/src/mir.rs :: struct VariableName
//@attr #[derive(Clone, Copy)]
//@end

//@extract crates/samlang-ast/src/mir.rs :: enum Expression
//@attr #[derive(Clone, Copy)]
//@end

/// the variable an operand reads, if it is a variable
spec fn used_name(e: Expression) -> Option<PStr> {
  match e { Expression::Variable(v) => Some(v.name), _ => None }
}

//@extract crates/samlang-optimization/src/dead_code_elimination.rs :: fn collect_use_from_expression
//@contract
  requires
    vstd::std_specs::hash::obeys_key_model::<PStr>(),
  ensures
    final(set)@ == (match used_name(*expression) { Some(n) => old(set)@.insert(n), None => old(set)@ }),  // :records_exactly_the_variable_read
//@end

//@extract crates/samlang-ast/src/mir.rs :: struct Binary
//@replace hir::BinaryOperator => BinaryOperator ## R1: module path of the extracted enum
//@end

/// the target traps on `/` and `%` (division by zero, MIN / -1): removing them can remove a trap
spec fn can_trap(op: BinaryOperator) -> bool { op == BinaryOperator::DIV || op == BinaryOperator::MOD }

//@extractblock crates/samlang-optimization/src/dead_code_elimination.rs :: fn optimize_stmt
//@from Statement::Binary(binary) => { if !set.contains(&binary.name)
//@to collect_use_from_expression(&binary.e2, set); true } }
//@replace Statement::Binary(binary) => { ==>> { ## R14: the arm header is part of the anchor (nothing may precede the block inside the arm) and is reduced to its brace
//@wrap fn dce_binary_arm(binary: &mut Binary, set: &mut HashSet<PStr>) -> (keep: bool)
//@contract
    requires
      vstd::std_specs::hash::obeys_key_model::<PStr>(),
    ensures
      // an operation is dropped only if its result is not used later AND it cannot trap
      !keep ==> !old(set)@.contains(old(binary).name) && !can_trap(old(binary).operator) && final(set)@ == old(set)@,  // :only_unused_non_trapping_operations_are_removed
      // a kept operation makes both operands live
      keep ==> old(set)@.subset_of(final(set)@)
        && (used_name(old(binary).e1) is Some ==> final(set)@.contains(used_name(old(binary).e1)->Some_0))
        && (used_name(old(binary).e2) is Some ==> final(set)@.contains(used_name(old(binary).e2)->Some_0)),  // :operands_of_kept_operations_become_live
      *final(binary) == *old(binary),  // :statement_itself_unchanged
//@end


// ---- the Call arm: a call is never removed (it may trap, diverge, or print)
#[verifier::external_body]
struct FunctionNameExpression { _p: u8 }

//@extract crates/samlang-ast/src/mir.rs :: enum Callee
//@attr
//@end

//@extractblock crates/samlang-optimization/src/dead_code_elimination.rs :: fn optimize_stmt
//@from Statement::Call { callee, arguments, return_type: _, return_collector } => { *return_collector = match return_collector {
//@to for e in arguments { collect_use_from_expression(e, set); } true }
//@replace Statement::Call { callee, arguments, return_type: _, return_collector } => { ==>> { ## R14: the arm header is part of the anchor and is reduced to its brace
//@replace match return_collector { => match &*return_collector { ## R15: scrutinee reborrowed shared (the arms only read `n`); Verus rejects guard + by-mut-ref binding
//@wrap fn dce_call_arm(callee: &Callee, arguments: &Vec<Expression>, return_collector: &mut Option<PStr>, set: &mut HashSet<PStr>) -> (keep: bool)
//@contract
    requires
      vstd::std_specs::hash::obeys_key_model::<PStr>(),
    ensures
      keep,  // :calls_are_never_removed
      // the result binding is dropped only when nothing reads it
      *final(return_collector) == (match *old(return_collector) {
        Some(n) => if old(set)@.contains(n) { Some(n) } else { None },
        None => None,
      }),  // :result_binding_dropped_only_if_unused
      old(set)@.subset_of(final(set)@),
      callee matches Callee::Variable(v) ==> final(set)@.contains(v.name),  // :callee_variable_becomes_live
      forall|i: int| 0 <= i < arguments@.len() && used_name(arguments@[i]) is Some
        ==> final(set)@.contains(used_name(#[trigger] arguments@[i])->Some_0),  // :arguments_become_live
//@loop 0 iter=it
    invariant
      vstd::std_specs::hash::obeys_key_model::<PStr>(),
      old(set)@.subset_of(set@),
      callee matches Callee::Variable(v) ==> set@.contains(v.name),
      it.seq().len() == arguments@.len(),
      forall|j: int| 0 <= j < arguments@.len() ==> *(#[trigger] it.seq()[j]) == arguments@[j],
      forall|i: int| 0 <= i < it.index() && used_name(arguments@[i]) is Some
        ==> set@.contains(used_name(#[trigger] arguments@[i])->Some_0),
//@end

proof fn canary_must_fail_dce() ensures false {}

} // verus!
fn main() {}
