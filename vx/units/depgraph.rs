// Unit `depgraph` — C10 kernel: the recheck set of the language server is closed under the
// import relation.  crates/samlang-services/src/dep_graph.rs, bodies extracted verbatim.
#![feature(allocator_api)]
use vstd::prelude::*;
use std::collections::{HashMap, HashSet};
use vstd::std_specs::iter::IteratorSpec;
verus! {

global size_of usize == 8;

//@extract crates/samlang-heap/src/lib.rs :: struct ModuleReference
//@attr #[derive(Clone, Copy, PartialEq, Eq, Hash)]
//@end

// R3: `initial.into_iter().collect_vec()` — itertools' collect_vec over a consumed HashSet:
// a vector holding exactly the elements of the set (order unspecified).
#[verifier::external_body]
fn hashset_into_vec(s: HashSet<ModuleReference>) -> (r: Vec<ModuleReference>)
  ensures r@.to_set() == s@
{ unimplemented!() }

spec fn has_edge(graph: Map<ModuleReference, HashSet<ModuleReference>>, m: ModuleReference, n: ModuleReference) -> bool {
  graph.contains_key(m) && graph[m]@.contains(n)
}

/// `s` contains `init` and is closed under the edges of `graph`
spec fn closed_superset(graph: Map<ModuleReference, HashSet<ModuleReference>>, init: Set<ModuleReference>, s: Set<ModuleReference>) -> bool {
  &&& forall|m: ModuleReference| init.contains(m) ==> s.contains(m)
  &&& forall|m: ModuleReference, n: ModuleReference| s.contains(m) && #[trigger] has_edge(graph, m, n) ==> s.contains(n)
}

/// m is reachable from `init` along at most k edges of `graph`
spec fn reachable(graph: Map<ModuleReference, HashSet<ModuleReference>>, init: Set<ModuleReference>, m: ModuleReference, k: nat) -> bool
  decreases k
{
  if k == 0 {
    init.contains(m)
  } else {
    reachable(graph, init, m, (k - 1) as nat)
      || exists|p: ModuleReference| reachable(graph, init, p, (k - 1) as nat) && #[trigger] has_edge(graph, p, m)
  }
}

/// a closed superset contains everything reachable (so the computed set is not too small)
proof fn lemma_closed_contains_reachable(graph: Map<ModuleReference, HashSet<ModuleReference>>, init: Set<ModuleReference>,
    s: Set<ModuleReference>, m: ModuleReference, k: nat)
  requires closed_superset(graph, init, s), reachable(graph, init, m, k)
  ensures s.contains(m)
  decreases k
{
  if k > 0 {
    if reachable(graph, init, m, (k - 1) as nat) {
      lemma_closed_contains_reachable(graph, init, s, m, (k - 1) as nat);
    } else {
      let p = choose|p: ModuleReference| reachable(graph, init, p, (k - 1) as nat) && #[trigger] has_edge(graph, p, m);
      lemma_closed_contains_reachable(graph, init, s, p, (k - 1) as nat);
    }
  }
}

/// every module that occurs in the graph as an import target, or in the initial set: the (finite) universe the
/// worklist of transitive_set moves in.  Sets are finite in this vstd, so its cardinality bounds the number of insertions.
spec fn universe(graph: Map<ModuleReference, HashSet<ModuleReference>>, init: Set<ModuleReference>) -> Set<ModuleReference> {
  init.union(graph.values().map(|h: HashSet<ModuleReference>| h@).flatten())
}

proof fn lemma_edge_target_in_universe(graph: Map<ModuleReference, HashSet<ModuleReference>>, init: Set<ModuleReference>, m: ModuleReference, n: ModuleReference)
  requires has_edge(graph, m, n)
  ensures universe(graph, init).contains(n)
{
  assert(graph.values().contains(graph[m]));
  assert(graph.values().map(|h: HashSet<ModuleReference>| h@).contains(graph[m]@));
}

proof fn lemma_contains_drop_last<A>(s: Seq<A>, m: A)
  requires s.len() > 0, s.contains(m)
  ensures m == s.last() || s.drop_last().contains(m)
{
  let i = choose|i: int| 0 <= i < s.len() && s[i] == m;
  if i < s.len() - 1 { assert(s.drop_last()[i] == m); }
}

proof fn lemma_contains_push<A>(s: Seq<A>, x: A, m: A)
  ensures s.push(x).contains(m) <==> (s.contains(m) || m == x)
{
  if s.contains(m) {
    let i = choose|i: int| 0 <= i < s.len() && s[i] == m;
    assert(s.push(x)[i] == m);
  }
  assert(s.push(x)[s.len() as int] == x);
  if s.push(x).contains(m) {
    let i = choose|i: int| 0 <= i < s.push(x).len() && s.push(x)[i] == m;
    if i < s.len() { assert(s[i] == m); }
  }
}

//@extract crates/samlang-services/src/dep_graph.rs :: fn transitive_set
//@ret r
//@replace initial.into_iter().collect_vec() => hashset_into_vec(initial) ## R3: itertools collect_vec over a consumed HashSet
//@letchain if result.insert(mod_ref) && let Some(edges) = graph.get(&mod_ref)
//@contract
    requires
      vstd::std_specs::hash::obeys_key_model::<ModuleReference>(),
    ensures
      closed_superset(graph@, initial@, r@),  // :result_contains_initial_and_is_closed_under_edges
      forall|m: ModuleReference, k: nat| reachable(graph@, initial@, m, k) ==> r@.contains(m),  // :result_contains_everything_reachable
//@before while let Some(mod_ref) = stack.pop() {
  let ghost mut gstack = stack@;
  proof {
    assert forall|m: ModuleReference| stack@.contains(m) implies universe(graph@, initial@).contains(m) by {
      assert(stack@.to_set().contains(m));
    }
  }
//@loop 0
      invariant
        vstd::std_specs::hash::obeys_key_model::<ModuleReference>(),
        gstack == stack@,
        forall|m: ModuleReference| initial@.contains(m) ==> result@.contains(m) || stack@.contains(m),
        forall|m: ModuleReference, n: ModuleReference| result@.contains(m) && #[trigger] has_edge(graph@, m, n)
          ==> result@.contains(n) || stack@.contains(n),
        // termination: the visited set only grows inside a finite universe; between two insertions the stack shrinks
        result@.subset_of(universe(graph@, initial@)),
        forall|m: ModuleReference| stack@.contains(m) ==> universe(graph@, initial@).contains(m),
      ensures
        stack@.len() == 0,
      decreases universe(graph@, initial@).len() - result@.len(), stack@.len(),
//@loopstart 0
    let ghost result0 = result@;
    proof {
      // gstack is the stack before the pop
      assert(stack@ == gstack.drop_last() && mod_ref == gstack.last());
      assert forall|m: ModuleReference| gstack.contains(m) implies m == mod_ref || stack@.contains(m) by {
        lemma_contains_drop_last(gstack, m);
      }
      // termination bookkeeping: the popped module and what stays on the stack lie in the universe
      assert(gstack[gstack.len() - 1] == mod_ref);
      assert(gstack.contains(mod_ref));
      assert forall|m: ModuleReference| stack@.contains(m) implies gstack.contains(m) by {
        let i = choose|i: int| 0 <= i < stack@.len() && stack@[i] == m;
        assert(gstack[i] == m);
      }
      assert forall|m: ModuleReference| stack@.contains(m) implies universe(graph@, initial@).contains(m) by {
        assert(gstack.contains(m));
      }
    }
//@loopend 0
    proof {
      // termination: a new module makes the visited set larger (it stays inside the finite universe); otherwise the stack is one shorter
      assert(result@ == result0.insert(mod_ref));
      assert(result@.subset_of(universe(graph@, initial@)));
      vstd::set_lib::lemma_len_subset(result@, universe(graph@, initial@));
      if result0.contains(mod_ref) {
        assert(result@ == result0);
        assert(stack@ == gstack.drop_last());
      }
      assert forall|m: ModuleReference| initial@.contains(m) implies result@.contains(m) || stack@.contains(m) by {
        if !result0.contains(m) { assert(gstack.contains(m)); }
      }
      assert forall|m: ModuleReference, n: ModuleReference| result@.contains(m) && #[trigger] has_edge(graph@, m, n)
          implies result@.contains(n) || stack@.contains(n) by {
        if result0.contains(m) {
          if !result0.contains(n) { assert(gstack.contains(n)); }
        } else {
          assert(m == mod_ref);
          assert(graph@[mod_ref]@.contains(n));
        }
      }
      gstack = stack@;
    }
//@loop 1 iter=it suffix=.iter()
          invariant
            vstd::std_specs::hash::obeys_key_model::<ModuleReference>(),
            graph@.contains_key(mod_ref) && graph@[mod_ref] == *edges,
            result@ == result0.insert(mod_ref),
            forall|m: ModuleReference| gstack.contains(m) ==> m == mod_ref || stack@.contains(m),
            forall|m: ModuleReference| initial@.contains(m) ==> result0.contains(m) || gstack.contains(m),
            forall|m: ModuleReference, n: ModuleReference| result0.contains(m) && #[trigger] has_edge(graph@, m, n)
              ==> result0.contains(n) || gstack.contains(n),
            forall|n: ModuleReference| #[trigger] edges@.contains(n) ==> stack@.contains(n)
              || exists|j: int| it.index() <= j < it.seq().len() && *#[trigger] it.seq()[j] == n,
            forall|m: ModuleReference| stack@.contains(m) ==> universe(graph@, initial@).contains(m),
            it.seq().unref().to_set() == edges@,
//@beforetail
  proof {
    assert(stack@.len() == 0);
    assert forall|m: ModuleReference| initial@.contains(m) implies result@.contains(m) by {
      if stack@.contains(m) { let i = choose|i: int| 0 <= i < stack@.len() && stack@[i] == m; }
    }
    assert forall|m: ModuleReference, n: ModuleReference| result@.contains(m) && #[trigger] has_edge(graph@, m, n) implies result@.contains(n) by {
      if stack@.contains(n) { let i = choose|i: int| 0 <= i < stack@.len() && stack@[i] == n; }
    }
    assert forall|m: ModuleReference, k: nat| reachable(graph@, initial@, m, k) implies result@.contains(m) by {
      lemma_closed_contains_reachable(graph@, initial@, result@, m, k);
    }
  }
//@before stack.push(*e);
        let ghost s_before = stack@;
        let ghost idx = it.index() as int;
//@after stack.push(*e);
        proof {
          assert forall|m: ModuleReference| s_before.contains(m) implies stack@.contains(m) by { lemma_contains_push(s_before, *e, m); }
          lemma_contains_push(s_before, *e, *e);
          assert(*e == *it.seq()[idx]);
          assert(it.seq().unref()[idx] == *e);
          assert(it.seq().unref().contains(*e));
          assert(it.seq().unref().to_set().contains(*e));
          assert(has_edge(graph@, mod_ref, *e));
          lemma_edge_target_in_universe(graph@, initial@, mod_ref, *e);
          assert forall|m: ModuleReference| stack@.contains(m) implies universe(graph@, initial@).contains(m) by { lemma_contains_push(s_before, *e, m); }
          assert forall|n: ModuleReference| #[trigger] edges@.contains(n) implies stack@.contains(n)
              || exists|j: int| idx + 1 <= j < it.seq().len() && *#[trigger] it.seq()[j] == n by {
            if !s_before.contains(n) {
              let j = choose|j: int| idx <= j < it.seq().len() && *#[trigger] it.seq()[j] == n;
              if j == idx { assert(n == *e); }
            }
          }
        }
//@end

//@extract crates/samlang-services/src/dep_graph.rs :: struct DependencyGraph
//@end

// R6: the parsed module, projected to the one field the graph construction reads
//@extract crates/samlang-ast/src/source.rs :: struct ModuleMembersImport
//@fields imported_module
//@end
//@extract crates/samlang-ast/src/source.rs :: struct Module
//@fields imports
//@replace <T: Clone> =>  ## R6: the type parameter only occurs in dropped fields
//@end

// Trusted std contract missing from vstd: HashMap::get_mut (the returned reference is the stored value;
// what is written through it is what the map holds afterwards)
pub uninterp spec fn get_mut_final<K, V, Q: ?Sized>(old_m: Map<K, V>, new_m: Map<K, V>, k: &Q, nv: V) -> bool;
pub broadcast axiom fn axiom_get_mut_final_deref<K, V>(old_m: Map<K, V>, new_m: Map<K, V>, k: &K, nv: V)
  ensures #[trigger] get_mut_final::<K, V, K>(old_m, new_m, k, nv) <==> new_m == old_m.insert(*k, nv);
pub assume_specification<'a, K: std::borrow::Borrow<Q> + Eq + std::hash::Hash, V, S: std::hash::BuildHasher, A: std::alloc::Allocator, Q: std::hash::Hash + Eq + ?Sized>[ HashMap::<K, V, S, A>::get_mut::<Q> ](m: &'a mut HashMap<K, V, S, A>, k: &Q) -> (r: Option<&'a mut V>)
  ensures
    vstd::std_specs::hash::obeys_key_model::<K>() && vstd::std_specs::hash::builds_valid_hashers::<S>() ==> (match r {
      Some(v) => vstd::std_specs::hash::maps_borrowed_key_to_value(old(m)@, k, *v) && get_mut_final(old(m)@, final(m)@, k, *final(v)),
      None => !vstd::std_specs::hash::contains_borrowed_key(old(m)@, k) && final(m)@ == old(m)@,
    });

/// module `m` has an import line naming `target`
spec fn imports(m: Module, target: ModuleReference) -> bool {
  exists|t: int| 0 <= t < m.imports@.len() && #[trigger] m.imports@[t].imported_module == target
}

// R3: `HashSet::from([x])`
#[verifier::external_body]
fn hashset_singleton(x: ModuleReference) -> (r: HashSet<ModuleReference>)
  ensures r@ == Set::<ModuleReference>::empty().insert(x)
{ unimplemented!() }

impl DependencyGraph {
//@extract crates/samlang-services/src/dep_graph.rs :: impl DependencyGraph / fn new
//@ret r
//@replace HashSet::from([*mod_ref]) => hashset_singleton(*mod_ref) ## R3: a one-element set
//@replace Module<()> => Module ## R6: the type parameter only occurs in dropped fields
//@contract
    requires
      vstd::std_specs::hash::obeys_key_model::<ModuleReference>(),
    ensures
      // every import line of every module is an edge of the forward graph and of the reverse graph
      forall|k: ModuleReference, tgt: ModuleReference| sources@.contains_key(k) && #[trigger] imports(sources@[k], tgt)
        ==> has_edge(r.forward@, k, tgt) && has_edge(r.reverse@, tgt, k),  // :no_import_edge_is_dropped
//@before for (mod_ref, module) in sources {
    proof { broadcast use axiom_get_mut_final_deref; }
//@loop 0 iter=oit suffix=.iter()
      invariant
        vstd::std_specs::hash::obeys_key_model::<ModuleReference>(),
        forall|j: int| 0 <= j < oit.seq().len() ==> sources@.contains_key(*(#[trigger] oit.seq()[j]).0) && sources@[*oit.seq()[j].0] == *oit.seq()[j].1,
        forall|k: ModuleReference| sources@.contains_key(k) ==> exists|j: int| 0 <= j < oit.seq().len() && *(#[trigger] oit.seq()[j]).0 == k,
        oit.seq().no_duplicates(),
        forall|j: int, tgt: ModuleReference| 0 <= j < oit.index() && #[trigger] imports(*oit.seq()[j].1, tgt)
          ==> has_edge(graph.forward@, *oit.seq()[j].0, tgt) && has_edge(graph.reverse@, tgt, *oit.seq()[j].0),
      ensures
        forall|k: ModuleReference, tgt: ModuleReference| sources@.contains_key(k) && #[trigger] imports(sources@[k], tgt)
          ==> has_edge(graph.forward@, k, tgt) && has_edge(graph.reverse@, tgt, k),
//@loopstart 0
      let ghost reverse0 = graph.reverse@;
      let ghost forward0 = graph.forward@;
      let ghost oi = oit.index() as int;
      proof { assert(*mod_ref == *oit.seq()[oi].0 && *module == *oit.seq()[oi].1); }
//@loop 1 iter=iit
        invariant
          vstd::std_specs::hash::obeys_key_model::<ModuleReference>(),
          graph.forward@ == forward0,
          iit.seq().len() == module.imports@.len(),
          forall|t: int| 0 <= t < iit.seq().len() ==> *(#[trigger] iit.seq()[t]) == module.imports@[t],
          forall|t: int| 0 <= t < iit.index() ==> forward_set@.contains((#[trigger] module.imports@[t]).imported_module)
            && has_edge(graph.reverse@, module.imports@[t].imported_module, *mod_ref),
          forall|a: ModuleReference, b: ModuleReference| #[trigger] has_edge(reverse0, a, b) ==> has_edge(graph.reverse@, a, b),
//@loopstart 1
        let ghost rev_before = graph.reverse@;
        let ghost ti = iit.index() as int;
        proof { assert(*import == module.imports@[ti]); broadcast use axiom_get_mut_final_deref; }
//@loopend 1
        proof {
          let tgt = import.imported_module;
          assert(has_edge(graph.reverse@, tgt, *mod_ref));
          assert forall|a: ModuleReference, b: ModuleReference| #[trigger] has_edge(rev_before, a, b) implies has_edge(graph.reverse@, a, b) by {}
        }
//@after graph.forward.insert(*mod_ref, forward_set);
      proof {
        // keys of a map are visited once: an earlier pair with the same key would be the same pair
        assert forall|j: int| 0 <= j < oi implies *(#[trigger] oit.seq()[j]).0 != *mod_ref by {
          if *oit.seq()[j].0 == *mod_ref {
            assert(*oit.seq()[j].1 == sources@[*mod_ref] && *oit.seq()[oi].1 == sources@[*mod_ref]);
            assert(oit.seq()[j] == oit.seq()[oi]);
          }
        }
        assert forall|j: int, tgt: ModuleReference| 0 <= j < oi + 1 && #[trigger] imports(*oit.seq()[j].1, tgt)
          implies has_edge(graph.forward@, *oit.seq()[j].0, tgt) && has_edge(graph.reverse@, tgt, *oit.seq()[j].0) by {
          if j < oi {
            assert(has_edge(forward0, *oit.seq()[j].0, tgt) && has_edge(reverse0, tgt, *oit.seq()[j].0));
          } else {
            let t = choose|t: int| 0 <= t < module.imports@.len() && #[trigger] module.imports@[t].imported_module == tgt;
            assert(forward_set@.contains(module.imports@[t].imported_module));
          }
        }
      }
//@end

//@extract crates/samlang-services/src/dep_graph.rs :: impl DependencyGraph / fn affected_set
//@ret r
//@contract
    requires
      vstd::std_specs::hash::obeys_key_model::<ModuleReference>(),
    ensures
      forall|m: ModuleReference| dirty_set@.contains(m) ==> r@.contains(m),  // :dirty_modules_are_rechecked
      forall|m: ModuleReference, k: nat| reachable(self.reverse@, dirty_set@, m, k) ==> r@.contains(m),  // :every_transitive_dependent_of_a_dirty_module_is_rechecked
      forall|m: ModuleReference, n: ModuleReference| r@.contains(m) && #[trigger] has_edge(self.forward@, m, n) ==> r@.contains(n),  // :recheck_set_is_closed_under_imports
//@end
}

proof fn canary_must_fail_depgraph() ensures false {}

} // verus!
fn main() {}
