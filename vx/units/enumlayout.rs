// Unit `enumlayout` — C01 kernel: which enum variants may be stored unboxed.
// Rewriter::type_permit_enum_boxed_optimization of crates/samlang-compiler/src/mir_generics_specialization.rs,
// body extracted verbatim.  An `Unboxed(T)` variant stores a value of T in place of the enum value, so it
// is distinguishable from the tag-only (`Int31`) variants of the same enum — and from the unboxed values
// of T itself — only if every run-time value of T is a heap pointer that is not itself an unboxed payload.
use vstd::prelude::*;
use std::collections::{HashMap, HashSet};
verus! {

global size_of usize == 8;

//@extract crates/samlang-ast/src/mir.rs :: struct TypeNameId
//@attr #[derive(Clone, Copy, PartialEq, Eq, Hash)]
//@end
//@extract crates/samlang-ast/src/mir.rs :: enum Type
//@attr #[derive(Clone, Copy)]
//@end
//@extract crates/samlang-ast/src/mir.rs :: enum EnumTypeDefinition
//@end
//@extract crates/samlang-ast/src/mir.rs :: enum TypeDefinitionMappings
//@end
//@extract crates/samlang-ast/src/mir.rs :: struct TypeDefinition
//@end

// R6: the specialiser, projected to the two tables the predicate reads
//@extract crates/samlang-compiler/src/mir_generics_specialization.rs :: struct Rewriter
//@fields specialized_type_definition_names, specialized_type_definitions
//@replace* mir:: =>  ## R1: module path of the extracted MIR types
//@end

/// every value of `t` is a heap pointer to a boxed cell (never an i31 tag, never an unboxed payload of
/// another type): the type is KNOWN (its definition is complete) to be a struct, or an enum all of
/// whose variants are boxed.  A name whose definition is not recorded yet is not known to be so.
spec fn pointer_only(t: Type, defs: Map<TypeNameId, TypeDefinition>) -> bool {
  match t {
    Type::Int32 | Type::Int31 => false,
    Type::Id(n) => defs.contains_key(n) && (match defs[n].mappings {
      TypeDefinitionMappings::Struct(_) => true,
      TypeDefinitionMappings::Enum(vs) => forall|i: int| 0 <= i < vs@.len() ==> (#[trigger] vs@[i]) is Boxed,
    }),
  }
}

impl Rewriter {
//@extract crates/samlang-compiler/src/mir_generics_specialization.rs :: impl Rewriter / fn type_permit_enum_boxed_optimization
//@ret r
//@replace* mir:: =>  ## R1: module path of the extracted MIR types
//@contract
    requires
      vstd::std_specs::hash::obeys_key_model::<TypeNameId>(),
    ensures
      r ==> pointer_only(*type_, self.specialized_type_definitions@),  // :unboxed_only_for_types_known_to_be_pointer_only
//@loop 0 iter=it
              invariant
                it.seq().len() == defs@.len(),
                forall|j: int| 0 <= j < it.seq().len() ==> *(#[trigger] it.seq()[j]) == defs@[j],
                forall|j: int| 0 <= j < it.index() ==> (#[trigger] defs@[j]) is Boxed,
//@end
}

proof fn canary_must_fail_enumlayout() ensures false {}

} // verus!
fn main() {}
