// Unit `errgate` — C06 kernel: a reported error is never forgotten and stops compilation.
// crates/samlang-errors/src/lib.rs (ErrorSet::{new, report_error, merge, has_errors}, verbatim) and the
// gate of compile_sources in crates/samlang-compiler/src/lib.rs (R14 block).
use vstd::prelude::*;
use std::collections::BTreeSet;
verus! {

/// the errors held by a set (vstd's view of std's BTreeSet)
pub open spec fn elems(s: BTreeSet<CompileTimeError>) -> Set<CompileTimeError> { s@ }

#[verifier::external_body]
struct Location { _p: u8 }
#[verifier::external_body]
struct ErrorDetail { _p: u8 }
#[verifier::external]
impl PartialEq for CompileTimeError { fn eq(&self, o: &Self) -> bool { unimplemented!() } }
#[verifier::external]
impl Eq for CompileTimeError {}
#[verifier::external]
impl PartialOrd for CompileTimeError { fn partial_cmp(&self, o: &Self) -> Option<std::cmp::Ordering> { unimplemented!() } }
#[verifier::external]
impl Ord for CompileTimeError { fn cmp(&self, o: &Self) -> std::cmp::Ordering { unimplemented!() } }

//@extract crates/samlang-errors/src/lib.rs :: struct CompileTimeError
//@end

//@extract crates/samlang-errors/src/lib.rs :: struct ErrorSet
//@end

/// R3: `self.errors.extend(other.errors)` — BTreeSet::extend inserts every element of the argument
#[verifier::external_body]
fn btreeset_extend(s: &mut BTreeSet<CompileTimeError>, other: BTreeSet<CompileTimeError>)
  ensures elems(*final(s)) == elems(*old(s)).union(elems(other))
{ unimplemented!() }

impl ErrorSet {
  spec fn reported(&self) -> Set<CompileTimeError> { elems(self.errors) }

//@extract crates/samlang-errors/src/lib.rs :: impl ErrorSet / fn new
//@ret r
//@replace ErrorSet::default() => ErrorSet { errors: BTreeSet::new() } ## R9: the derived Default of a one-field struct, written out
//@contract
    ensures r.reported() == Set::<CompileTimeError>::empty(),  // :a_new_error_set_is_empty
//@end

//@extract crates/samlang-errors/src/lib.rs :: impl ErrorSet / fn report_error
//@contract
    requires
      vstd::laws_cmp::obeys_cmp::<CompileTimeError>(),  // the derived Ord of CompileTimeError is a total order (assumed)
    ensures
      final(self).reported() == old(self).reported().insert(CompileTimeError { location, detail }),  // :a_reported_error_is_kept_with_all_earlier_ones
//@end

//@extract crates/samlang-errors/src/lib.rs :: impl ErrorSet / fn merge
//@replace self.errors.extend(other.errors) => btreeset_extend(&mut self.errors, other.errors) ## R3: BTreeSet::extend (no vstd specification)
//@contract
    ensures
      final(self).reported() == old(self).reported().union(other.reported()),  // :merging_loses_no_error
//@end

//@extract crates/samlang-errors/src/lib.rs :: impl ErrorSet / fn has_errors
//@ret r
//@contract
    ensures
      r == (self.reported() != Set::<CompileTimeError>::empty()),  // :has_errors_iff_something_was_reported
//@end
}

/// client theorem: after any report, has_errors() answers true, also after merging into another set
fn thm_reported_error_is_seen(location: Location, detail: ErrorDetail) -> (r: bool)
  requires vstd::laws_cmp::obeys_cmp::<CompileTimeError>()
  ensures r  // :a_reported_error_makes_has_errors_true_even_after_a_merge
{
  let mut local = ErrorSet::new();
  let ghost e = CompileTimeError { location, detail };
  local.report_error(location, detail);
  assert(local.reported().contains(e));
  let mut global = ErrorSet::new();
  global.merge(local);
  assert(global.reported().contains(e));
  global.has_errors()
}

// ---- the gate in compile_sources
#[verifier::external_body]
struct SourcesCompilationResult { _p: u8 }
/// everything compile_sources does after the gate (lowering, optimisation, code emission)
#[verifier::external_body]
fn rest_of_compile_sources() -> (r: Result<SourcesCompilationResult, String>) { unimplemented!() }

//@extractblock crates/samlang-compiler/src/lib.rs :: fn compile_sources
//@from let errors = error_set.pretty_print_error_messages(heap, &source_handles); if error_set.has_errors() {
//@to return Err(errors); }
//@replace let errors = error_set.pretty_print_error_messages(heap, &source_handles); ==>> ## R14: the rendered message is a parameter of the synthetic function (the statement is part of the anchor)
//@wrap fn compile_gate(error_set: &ErrorSet, errors: String) -> (r: Result<SourcesCompilationResult, String>)
//@contract
    ensures
      error_set.reported() != Set::<CompileTimeError>::empty() ==> r is Err,  // :no_code_is_emitted_when_an_error_was_reported
//@atend
  rest_of_compile_sources()
//@end

proof fn canary_must_fail_errgate() ensures false {}

} // verus!
fn main() {}
