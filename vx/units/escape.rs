// Unit `escape` — C02 kernel: which structs scalar replacement must leave alone.
// EscapeAnalysis::{mark_escape, mark_escapes} (crates/samlang-optimization/src/scalar_replacement.rs, verbatim) and
// the While arm of visit_statement (R14 block): a value that a loop variable starts with, or is given for the next
// iteration, escapes — a struct carried from one iteration to the next is never dissolved into scalars.
use vstd::prelude::*;
use std::collections::HashSet;
verus! {

global size_of usize == 8;

#[verifier::external_body]
#[derive(Clone, Copy)]
struct PStr { _p: u128 }
#[verifier::external]
impl PartialEq for PStr { fn eq(&self, other: &Self) -> bool { unimplemented!() } }
#[verifier::external]
impl Eq for PStr {}
#[verifier::external]
impl std::hash::Hash for PStr { fn hash<H: std::hash::Hasher>(&self, state: &mut H) { unimplemented!() } }
#[verifier::external_body]
#[derive(Clone, Copy)]
struct Type { _p: u64 }
#[verifier::external_body]
struct Statement { _p: u64 }

//@extract crates/samlang-ast/src/mir.rs :: struct VariableName
//@attr #[derive(Clone, Copy)]
//@end
//@extract crates/samlang-ast/src/mir.rs :: enum Expression
//@attr #[derive(Clone, Copy)]
//@end
//@extract crates/samlang-ast/src/mir.rs :: struct GenenalLoopVariable
//@end

/// the names an operand list makes escape
spec fn with_operand(s: Set<PStr>, e: Expression) -> Set<PStr> {
  if e is Variable { s.insert(e->Variable_0.name) } else { s }
}

/// R6: the analysis state reduced to the escape set
struct EscapeAnalysis { escaped: HashSet<PStr> }
impl EscapeAnalysis {
//@extract crates/samlang-optimization/src/scalar_replacement.rs :: impl EscapeAnalysis / fn mark_escape
//@contract
    requires vstd::std_specs::hash::obeys_key_model::<PStr>()
    ensures final(self).escaped@ == with_operand(old(self).escaped@, *expression),  // :a_variable_operand_is_marked_as_escaping
//@end

  /// the nested statements: whatever they mark, nothing is unmarked
  #[verifier::external_body]
  fn visit_statements(&mut self, statements: &[Statement])
    ensures old(self).escaped@.subset_of(final(self).escaped@)
  { unimplemented!() }

//@extractblock crates/samlang-optimization/src/scalar_replacement.rs :: impl EscapeAnalysis / fn visit_statement
//@from Statement::While { loop_variables, statements, break_collector: _ } => { for GenenalLoopVariable
//@to self.visit_statements(statements); }
//@replace Statement::While { loop_variables, statements, break_collector: _ } => { ==>> { ## R14: the arm header is part of the anchor; its bindings are the parameters of the synthetic function
//@replace for GenenalLoopVariable { name: _, type_: _, initial_value, loop_value } in loop_variables { ==>> for lv in it: loop_variables.iter() invariant vstd::std_specs::hash::obeys_key_model::<PStr>(), it.seq().len() == loop_variables@.len(), forall|j: int| 0 <= j < loop_variables@.len() ==> *(#[trigger] it.seq()[j]) == loop_variables@[j], old(self).escaped@.subset_of(self.escaped@), forall|j: int| 0 <= j < it.index() ==> with_operand(with_operand(Set::empty(), (#[trigger] loop_variables@[j]).initial_value), loop_variables@[j].loop_value).subset_of(self.escaped@), { let GenenalLoopVariable { name: _, type_: _, initial_value, loop_value } = lv; ## R11: the destructuring pattern of the loop is written as a let at the top of the body; R9: IntoIterator for &Vec is Vec::iter; R8: ghost iterator name and loop invariant
//@wrap fn while_arm(&mut self, loop_variables: &Vec<GenenalLoopVariable>, statements: &Vec<Statement>)
//@contract
    requires vstd::std_specs::hash::obeys_key_model::<PStr>()
    ensures
      old(self).escaped@.subset_of(final(self).escaped@),
      forall|j: int| 0 <= j < loop_variables@.len() && (#[trigger] loop_variables@[j]).initial_value is Variable
        ==> final(self).escaped@.contains(loop_variables@[j].initial_value->Variable_0.name),  // :what_a_loop_variable_starts_with_escapes
      forall|j: int| 0 <= j < loop_variables@.len() && (#[trigger] loop_variables@[j]).loop_value is Variable
        ==> final(self).escaped@.contains(loop_variables@[j].loop_value->Variable_0.name),  // :what_a_loop_variable_is_given_for_the_next_iteration_escapes
//@end
}

proof fn canary_must_fail_escape() ensures false {}

} // verus!
fn main() {}
