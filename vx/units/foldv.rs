// Unit `foldv` — C02: the DIV / MOD arms of constant folding against truncating division
// (WebAssembly i32.div_s / i32.rem_s), where a bit-level proof needs a divider and a multiplier
// at once.  crates/samlang-optimization/src/conditional_constant_propagation.rs, verbatim.
use vstd::prelude::*;
use vstd::arithmetic::div_mod::*;
use vstd::arithmetic::mul::*;
verus! {

//@extract crates/samlang-ast/src/hir.rs :: enum BinaryOperator
//@attr #[derive(Clone, Copy, PartialEq, Eq)]
//@end

/// i32.div_s: quotient truncated toward zero; None = trap
spec fn wasm_div_s(a: int, b: int) -> Option<int> {
  if b == 0 || (a == i32::MIN && b == -1) { None }
  else if (a >= 0) == (b > 0) { Some(abs(a) / abs(b)) } else { Some(-(abs(a) / abs(b))) }
}
/// i32.rem_s: remainder with the sign of the dividend; None = trap
spec fn wasm_rem_s(a: int, b: int) -> Option<int> {
  if b == 0 { None }
  else if a >= 0 { Some(abs(a) % abs(b)) } else { Some(-(abs(a) % abs(b))) }
}
spec fn abs(x: int) -> int { if x < 0 { -x } else { x } }

//@extract crates/samlang-optimization/src/conditional_constant_propagation.rs :: fn evaluate_bin_op
//@ret r
//@contract
    ensures
      operator == BinaryOperator::DIV && r is Some ==> wasm_div_s(v1 as int, v2 as int) == Some(r->Some_0 as int),  // :folded_quotient_is_div_s
      operator == BinaryOperator::DIV && wasm_div_s(v1 as int, v2 as int) is None ==> r is None,  // :trapping_division_is_not_folded
      operator == BinaryOperator::MOD && r is Some ==> wasm_rem_s(v1 as int, v2 as int) == Some(r->Some_0 as int),  // :folded_remainder_is_rem_s
      operator == BinaryOperator::MOD && v2 == 0 ==> r is None,  // :remainder_by_zero_is_not_folded
      operator == BinaryOperator::LT ==> r == Some(if v1 < v2 { 1i32 } else { 0i32 }),  // :lt_folds_to_flag
//@end

proof fn canary_must_fail_foldv() ensures false {}

} // verus!
fn main() {}
