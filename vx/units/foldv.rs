// Unit `foldv` — C02: the DIV / MOD arms of constant folding against truncating division
// (WebAssembly i32.div_s / i32.rem_s), where a bit-level proof needs a divider and a multiplier
// at once.  crates/samlang-optimization/src/conditional_constant_propagation.rs, verbatim.
use vstd::prelude::*;
use vstd::arithmetic::div_mod::*;
use vstd::arithmetic::mul::*;
verus! {

//@extract crates/samlang-ast/src/hir.rs :: enum BinaryOperator
//@attr #[derive(Clone, Copy, PartialEq, Eq)]
//@end

spec fn abs(x: int) -> int { if x < 0 { -x } else { x } }

/// WebAssembly i32.div_s / i32.rem_s (and Rust's `/`, `%`): the unique q, r with
/// a == q*b + r, |r| < |b|, and r zero or of the sign of the dividend (truncation toward zero).
spec fn truncating_div_rem(a: int, b: int, q: int, r: int) -> bool {
  &&& q * b + r == a
  &&& abs(r) < abs(b)
  &&& (r == 0 || (r < 0) == (a < 0))
}
spec fn div_s_traps(a: int, b: int) -> bool { b == 0 || (a == i32::MIN && b == -1) }
spec fn rem_s_traps(a: int, b: int) -> bool { b == 0 }

proof fn lemma_euclid(x: int, d: int)
  requires d != 0, x >= 0
  ensures x == d * (x / d) + x % d, 0 <= x % d < abs(d)
{
  lemma_fundamental_div_mod(x, d);
  if d > 0 { lemma_mod_bound(x, d); } else {
    assert(0 <= x % d < -d) by (nonlinear_arith) requires d < 0;
  }
}

/// vstd's model of Rust's signed division (the contract of i32::checked_div / checked_rem) is
/// truncating division
proof fn lemma_rust_div_rem_is_truncating(a: int, b: int)
  requires b != 0
  ensures truncating_div_rem(a, b, rust_div(a, b), rust_rem(a, b))  // :rust_division_truncates_toward_zero
{
  if a > 0 { lemma_euclid(a, b); assert(b * (a / b) == (a / b) * b) by (nonlinear_arith); }
  else if a < 0 { lemma_euclid(-a, b); assert((-((-a) / b)) * b == -(b * ((-a) / b))) by (nonlinear_arith); }
}

/// for i32 operands (except MIN / -1) the truncating quotient and remainder fit i32
proof fn lemma_truncating_div_rem_in_range(a: int, b: int, q: int, r: int)
  requires i32::MIN <= a <= i32::MAX, i32::MIN <= b <= i32::MAX, b != 0, !(a == i32::MIN && b == -1),
    truncating_div_rem(a, b, q, r)
  ensures i32::MIN <= q <= i32::MAX, i32::MIN <= r <= i32::MAX  // :quotient_and_remainder_fit_i32
{
  assert(abs(q) <= abs(a)) by (nonlinear_arith) requires q * b + r == a, abs(r) < abs(b), (r == 0 || (r < 0) == (a < 0)), b != 0;
  if q == 0x8000_0000 {
    assert(a == i32::MIN);
    assert(false) by (nonlinear_arith) requires q == 0x8000_0000, a == -0x8000_0000, q * b + r == a, abs(r) < abs(b), b != 0, b != -1, -0x8000_0000 <= b <= 0x7fff_ffff;
  }
}

/// the law determines q and r uniquely, so "some q, r satisfy it" pins the folded value down
proof fn lemma_truncating_div_rem_unique(a: int, b: int, q1: int, r1: int, q2: int, r2: int)
  requires b != 0, truncating_div_rem(a, b, q1, r1), truncating_div_rem(a, b, q2, r2)
  ensures q1 == q2 && r1 == r2  // :truncating_quotient_and_remainder_are_unique
{
  assert((q1 - q2) * b == r2 - r1) by (nonlinear_arith) requires q1 * b + r1 == a, q2 * b + r2 == a;
  if q1 != q2 {
    assert(abs((q1 - q2) * b) >= abs(b)) by (nonlinear_arith) requires q1 != q2, b != 0;
    // r1, r2 have the same sign (that of a) or are zero, so |r2 - r1| < |b|
    assert(abs(r2 - r1) < abs(b));
  }
}

//@extract crates/samlang-optimization/src/conditional_constant_propagation.rs :: fn evaluate_bin_op
//@ret r
//@contract
    ensures
      operator == BinaryOperator::DIV && r is Some ==> !div_s_traps(v1 as int, v2 as int)
        && truncating_div_rem(v1 as int, v2 as int, r->Some_0 as int, rust_rem(v1 as int, v2 as int)),  // :folded_quotient_is_div_s
      operator == BinaryOperator::DIV && div_s_traps(v1 as int, v2 as int) ==> r is None,  // :trapping_division_is_not_folded
      operator == BinaryOperator::MOD && r is Some ==> !rem_s_traps(v1 as int, v2 as int)
        && truncating_div_rem(v1 as int, v2 as int, rust_div(v1 as int, v2 as int), r->Some_0 as int),  // :folded_remainder_is_rem_s
      operator == BinaryOperator::MOD && rem_s_traps(v1 as int, v2 as int) ==> r is None,  // :remainder_by_zero_is_not_folded
      operator == BinaryOperator::LT ==> r == Some(if v1 < v2 { 1i32 } else { 0i32 }),  // :lt_folds_to_flag
//@before match operator {
  proof {
    if v2 != 0 {
      lemma_rust_div_rem_is_truncating(v1 as int, v2 as int);
      if !(v1 == i32::MIN && v2 == -1) {
        assert(truncating_div_rem(v1 as int, v2 as int, rust_div(v1 as int, v2 as int), rust_rem(v1 as int, v2 as int)));
        // |q| <= |a| and |r| < |b| : both fit i32
        assert(abs(rust_div(v1 as int, v2 as int)) <= abs(v1 as int)) by (nonlinear_arith)
          requires truncating_div_rem(v1 as int, v2 as int, rust_div(v1 as int, v2 as int), rust_rem(v1 as int, v2 as int)), v2 != 0;
        lemma_truncating_div_rem_in_range(v1 as int, v2 as int, rust_div(v1 as int, v2 as int), rust_rem(v1 as int, v2 as int));
      }
    }
  }
//@end

proof fn canary_must_fail_foldv() ensures false {}

} // verus!
fn main() {}
