// Unit `heap` — C17 layer B: the interning table and the incremental collector of
// crates/samlang-heap/src/lib.rs, function bodies extracted verbatim on every run.
#![feature(allocator_api)]
use vstd::prelude::*;
use std::collections::{HashMap, HashSet};
use std::ops::Deref;
verus! {

global size_of usize == 8;

// ------------------------------------------------------------------------------------------
// Trusted boundary 1 (R7): the 16-byte handle.  Verus cannot read a `union` through the
// "wrong" variant, so PStrPrivateRepr is opaque here; the contracts below are exactly the
// obligations discharged on the real union code by the Kani unit `pstr` (C17 layer A).
#[verifier::external_body]
#[derive(Clone, Copy)]
struct PStrPrivateRepr { _p: u128 }

#[verifier::external]
impl PartialEq for PStrPrivateRepr { fn eq(&self, other: &Self) -> bool { unimplemented!() } }
#[verifier::external]
impl Eq for PStrPrivateRepr {}
#[verifier::external]
impl std::hash::Hash for PStrPrivateRepr { fn hash<H: std::hash::Hasher>(&self, state: &mut H) { unimplemented!() } }

uninterp spec fn repr_heap_id(r: PStrPrivateRepr) -> Option<u32>;
uninterp spec fn repr_inline(r: PStrPrivateRepr) -> Option<Seq<char>>;
/// "the UTF-8 encoding of s has at most 15 bytes"
uninterp spec fn fits_inline(s: Seq<char>) -> bool;

broadcast axiom fn repr_cases(r: PStrPrivateRepr)
  ensures
    #[trigger] repr_heap_id(r) is Some <==> repr_inline(r) is None,
    repr_inline(r) is Some ==> fits_inline(repr_inline(r)->Some_0);

broadcast axiom fn axiom_empty_fits()
  ensures #[trigger] fits_inline(Seq::<char>::empty());

impl PStrPrivateRepr {
  #[verifier::external_body]
  fn as_inline_str(&self) -> (r: Result<&str, u32>)
    ensures match r {
      Ok(s) => repr_inline(*self) == Some(s@),
      Err(id) => repr_heap_id(*self) == Some(id),
    }
  { unimplemented!() }
  #[verifier::external_body]
  fn as_heap_id(&self) -> (r: Option<u32>) ensures r == repr_heap_id(*self) { unimplemented!() }
  #[verifier::external_body]
  fn from_id(id: u32) -> (r: PStrPrivateRepr) ensures repr_heap_id(r) == Some(id) { unimplemented!() }
  #[verifier::external_body]
  fn from_str_opt(s: &str) -> (r: Option<PStrPrivateRepr>)
    ensures match r {
      Some(repr) => fits_inline(s@) && repr_inline(repr) == Some(s@),
      None => !fits_inline(s@),
    }
  { unimplemented!() }
  #[verifier::external_body]
  fn from_string(s: String) -> (r: Result<PStrPrivateRepr, String>)
    ensures match r {
      Ok(repr) => fits_inline(s@) && repr_inline(repr) == Some(s@),
      Err(back) => !fits_inline(s@) && back@ == s@,
    }
  { unimplemented!() }
}

/// The exec `==` / `Ord` / `Hash` of a handle look at the raw 128 bits; the Kani unit proves
/// that raw equality coincides with this relation.
spec fn handle_eq(a: PStr, b: PStr) -> bool {
  repr_heap_id(a.0) == repr_heap_id(b.0) && repr_inline(a.0) == repr_inline(b.0)
}

// ------------------------------------------------------------------------------------------
// Trusted boundary 2: `&str` is modelled extensionally (std's Eq / Hash for str compare
// content), and every character sequence is the view of some string.
uninterp spec fn str_of(v: Seq<char>) -> &'static str;
broadcast axiom fn axiom_str_of(v: Seq<char>)
  ensures (#[trigger] str_of(v))@ == v;
broadcast axiom fn axiom_str_ext(a: &'static str, b: &'static str)
  ensures #[trigger] a@ == #[trigger] b@ ==> a == b;
proof fn lemma_str_of_view(k: &'static str)
  ensures str_of(k@) == k
{
  broadcast use axiom_str_of, axiom_str_ext;
  assert(str_of(k@)@ == k@);
}

// Trusted boundary 3: std's `impl Borrow<str> for &str` is the identity, so looking a map keyed by
// `&'static str` up with a `&str` is looking it up with that key (vstd ships the same three
// axioms for Q == K and for Box<Q>; the &str/str pair is missing there).
broadcast axiom fn axiom_str_key_contains<V>(m: Map<&'static str, V>, k: &str)
  ensures #[trigger] vstd::std_specs::hash::contains_borrowed_key::<&'static str, V, str>(m, k) <==> m.contains_key(k);
broadcast axiom fn axiom_str_key_maps<V>(m: Map<&'static str, V>, k: &str, v: V)
  ensures #[trigger] vstd::std_specs::hash::maps_borrowed_key_to_value::<&'static str, V, str>(m, k, v) <==> m.contains_key(k) && m[k] == v;
broadcast axiom fn axiom_str_key_removed<V>(old_m: Map<&'static str, V>, new_m: Map<&'static str, V>, k: &str)
  ensures #[trigger] vstd::std_specs::hash::borrowed_key_removed::<&'static str, V, str>(old_m, new_m, k) <==> new_m == old_m.remove(k);
broadcast group group_str_keys { axiom_str_key_contains, axiom_str_key_maps, axiom_str_key_removed, axiom_str_of, axiom_str_ext }

// Trusted std contract: `ToString for &mut String` (through Display) yields the same text.
broadcast axiom fn axiom_mut_string_to_string(t: &&mut String, s: String)
  ensures #[trigger] vstd::string::to_string_from_display_ensures::<&mut String>(t, s) <==> s@ == mut_ref_current(*t)@;

// same for `&'static [PStr]` keys looked up with `&[PStr]`
broadcast axiom fn axiom_slice_key_contains<T, V>(m: Map<&'static [T], V>, k: &[T])
  ensures #[trigger] vstd::std_specs::hash::contains_borrowed_key::<&'static [T], V, [T]>(m, k) <==> m.contains_key(k);
broadcast axiom fn axiom_slice_key_maps<T, V>(m: Map<&'static [T], V>, k: &[T], v: V)
  ensures #[trigger] vstd::std_specs::hash::maps_borrowed_key_to_value::<&'static [T], V, [T]>(m, k, v) <==> m.contains_key(k) && m[k] == v;
broadcast axiom fn axiom_slice_ext<T>(a: &'static [T], b: &'static [T])
  ensures #[trigger] a@ == #[trigger] b@ ==> a == b;
broadcast group group_slice_keys { axiom_slice_key_contains, axiom_slice_key_maps, axiom_slice_ext }

#[verifier::external_body]
fn vec_leak<T>(v: Vec<T>) -> (r: &'static [T]) ensures r@ == v@ { unimplemented!() }

// Trusted std contracts missing from vstd: Option::copied, Option::or_else.
pub assume_specification<'a, T: Copy>[ Option::<&'a T>::copied ](o: Option<&'a T>) -> (r: Option<T>)
  ensures r == (match o { Some(x) => Some(*x), None => None });
pub assume_specification<T, F: FnOnce() -> Option<T>>[ Option::<T>::or_else ](o: Option<T>, f: F) -> (r: Option<T>)
  requires o is None ==> f.requires(()),
  ensures match o { Some(x) => r == Some(x), None => f.ensures((), r) };

pub assume_specification<T, E, F: FnOnce(E) -> T>[ Result::<T, E>::unwrap_or_else ](res: Result<T, E>, f: F) -> (t: T)
  requires res is Err ==> f.requires((res->Err_0,)),
  ensures match res { Ok(v) => t == v, Err(e) => f.ensures((e,), t) };

// R3 stubs: the exact unsafe / leaking / cfg expressions of the real code, with their
// documented behaviour as contract.
#[verifier::external_body]
fn unsafe_extend_str_lifetime(key: &str) -> (r: &'static str) ensures r@ == key@ { unimplemented!() }
#[verifier::external_body]
fn cfg_test() -> bool { unimplemented!() }
fn runtime_assert(b: bool) requires b {}
#[verifier::external_body]
fn unreachable_panic() -> ! requires false { unimplemented!() }
#[verifier::external_body]
fn pstr_const_dummy_module() -> (r: PStr) ensures repr_inline(r.0) is Some { unimplemented!() }
#[verifier::external_body]
fn pstr_const_std() -> (r: PStr) ensures repr_inline(r.0) is Some { unimplemented!() }
#[verifier::external_body]
fn pstr_const_tuples() -> (r: PStr) ensures repr_inline(r.0) is Some { unimplemented!() }
#[verifier::external_body]
fn format_temp_name(id: u32) -> (r: String) ensures fits_inline(r@) { unimplemented!() }
#[verifier::external_body]
fn box_leak_string(s: String) -> (r: &'static str) ensures r@ == s@ { unimplemented!() }

//@extract crates/samlang-heap/src/lib.rs :: struct PStr
//@attr #[derive(Clone, Copy, PartialEq, Eq, Hash)]
//@end

//@extract crates/samlang-heap/src/lib.rs :: struct ModuleReference
//@attr #[derive(Clone, Copy, PartialEq, Eq, Hash)]
//@end

//@extract crates/samlang-heap/src/lib.rs :: enum StringStoredInHeap
//@end

impl PStr {
//@extract crates/samlang-heap/src/lib.rs :: impl PStr / fn create_inline_opt
//@ret r
//@replace .map(PStr) => .map(|r0: PStrPrivateRepr| -> (p0: PStr) ensures p0.0 == r0 { PStr(r0) }) ## R10: tuple-struct constructor used as a function value is eta-expanded (Verus does not accept constructors as fn values)
//@contract
    ensures match r {  // :inline_iff_short
      Some(p) => fits_inline(s@) && repr_inline(p.0) == Some(s@),
      None => !fits_inline(s@),
    }
//@end
}

// R12: `Deref::deref` is emitted as an inherent method (Verus forbids `requires` on trait impls);
// the one deref coercion that reaches it (in PStr::as_str) is written as an explicit call.
impl StringStoredInHeap {
//@extract crates/samlang-heap/src/lib.rs :: impl Deref for StringStoredInHeap / fn deref
//@ret r
//@replace &Self::Target => &str ## R12: the associated type `Target = str` of the Deref impl written out
//@replace panic!("Dereferencing deallocated string: {}", s.as_deref().unwrap_or("???")) => unreachable_panic() ## R3: the panic becomes a call with precondition false (so reading a reclaimed slot is proved impossible under the contract)
//@contract
    requires
      !(self is Deallocated),
    ensures
      Some(r@) == slot_content(*self),                                              // :reads_slot_text
//@end
}

impl StringStoredInHeap {
//@extract crates/samlang-heap/src/lib.rs :: impl StringStoredInHeap / fn deallocated
//@ret r
//@contract
    ensures r is Deallocated  // :result_is_deallocated
//@end
}

//@extract crates/samlang-heap/src/lib.rs :: struct Heap
//@end

// R7: the atomic counter is opaque (concurrency is outside this unit); `current` returns any u32.
#[verifier::external_body]
struct TempPStrCounter { _c: u32 }
impl TempPStrCounter {
  #[verifier::external_body]
  fn current(&self) -> u32 { unimplemented!() }
}

spec fn slot_content(s: StringStoredInHeap) -> Option<Seq<char>> {
  match s {
    StringStoredInHeap::Permanent(p) => Some(p@),
    StringStoredInHeap::Temporary(t, _) => Some(t@),
    StringStoredInHeap::Deallocated(_) => None,
  }
}

/// the view of the key under which a Temporary slot is interned
spec fn temp_text(s: StringStoredInHeap) -> Seq<char> { s->Temporary_0@ }

/// what one sweeper pass does to one slot
spec fn swept_slot(o: StringStoredInHeap, n: StringStoredInHeap) -> bool {
  match o {
    StringStoredInHeap::Permanent(_) | StringStoredInHeap::Deallocated(_) => n == o,
    StringStoredInHeap::Temporary(s, true) => n is Temporary && n->Temporary_0@ == s@ && !n->Temporary_1,
    StringStoredInHeap::Temporary(s, false) => n is Deallocated,
  }
}

impl Heap {
  spec fn len(&self) -> int { self.str_pointer_table.len() as int }

  /// What slot i reads back as; None iff reclaimed.
  spec fn content(&self, i: int) -> Option<Seq<char>> {
    slot_content(self.str_pointer_table[i])
  }

  spec fn is_perm(&self, i: int) -> bool { self.str_pointer_table[i] is Permanent }
  spec fn is_temp(&self, i: int) -> bool { self.str_pointer_table[i] is Temporary }
  spec fn marked(&self, i: int) -> bool {
    self.str_pointer_table[i] is Temporary && self.str_pointer_table[i]->Temporary_1
  }

  spec fn static_key_ok(&self, k: &'static str) -> bool {
    let id = self.interned_static_str@[k];
    &&& (id as int) < self.len()
    &&& self.str_pointer_table[id as int] is Permanent
    &&& self.str_pointer_table[id as int]->Permanent_0@ == k@
    &&& !self.interned_string@.contains_key(k)
  }
  spec fn temp_key_ok(&self, k: &'static str) -> bool {
    let id = self.interned_string@[k];
    &&& (id as int) < self.len()
    &&& self.str_pointer_table[id as int] is Temporary
    &&& self.str_pointer_table[id as int]->Temporary_0@ == k@
  }
  spec fn temp_slot_ok(&self, i: int) -> bool {
    let c = self.str_pointer_table[i]->Temporary_0@;
    &&& !fits_inline(c)
    &&& self.interned_string@.contains_key(str_of(c))
    &&& self.interned_string@[str_of(c)] == i
  }
  spec fn perm_slot_ok(&self, i: int) -> bool {
    let c = self.str_pointer_table[i]->Permanent_0@;
    !fits_inline(c) ==> self.interned_static_str@.contains_key(str_of(c)) && self.interned_static_str@[str_of(c)] == i
  }
  /// a module-reference part never points at a slot the sweeper may reclaim
  spec fn part_ok(&self, p: PStr) -> bool {
    match repr_heap_id(p.0) {
      Some(id) => (id as int) < self.len() && self.is_perm(id as int),
      None => true,
    }
  }

  /// The representation invariant of the interning table: string side ...
  spec fn wf_strings(&self) -> bool {
    &&& self.sweep_index <= self.str_pointer_table.len()
    &&& self.str_pointer_table.len() <= 0xffff_ffff
    &&& forall|k: &'static str| #[trigger] self.interned_static_str@.contains_key(k) ==> self.static_key_ok(k)
    &&& forall|k: &'static str| #[trigger] self.interned_string@.contains_key(k) ==> self.temp_key_ok(k)
    &&& forall|i: int| 0 <= i < self.len() && #[trigger] self.is_temp(i) ==> self.temp_slot_ok(i)
    &&& forall|i: int| 0 <= i < self.len() && #[trigger] self.is_perm(i) ==> self.perm_slot_ok(i)
  }
  /// ... and module-reference side
  spec fn wf_modules(&self) -> bool {
    &&& forall|m: int, j: int| 0 <= m < self.module_reference_pointer_table.len()
          && 0 <= j < self.module_reference_pointer_table[m]@.len()
          ==> self.part_ok(#[trigger] self.module_reference_pointer_table[m]@[j])
    &&& forall|k: &'static [PStr]| #[trigger] self.interned_module_reference@.contains_key(k)
          ==> self.interned_module_reference@[k].0 < self.module_reference_pointer_table.len()
              && self.module_reference_pointer_table[self.interned_module_reference@[k].0 as int]@ == k@
    &&& forall|m: int| 0 <= m < self.module_reference_pointer_table.len()
          ==> self.interned_module_reference@.contains_key(#[trigger] self.module_reference_pointer_table[m])
              && self.interned_module_reference@[self.module_reference_pointer_table[m]].0 == m
  }
  spec fn wf(&self) -> bool { self.wf_strings() && self.wf_modules() }

  proof fn lemma_wf_modules_same_fields(&self, other: &Heap)
    requires other.wf_modules(), self.str_pointer_table == other.str_pointer_table,
      self.module_reference_pointer_table == other.module_reference_pointer_table,
      self.interned_module_reference == other.interned_module_reference,
    ensures self.wf_modules()
  {
    assert forall|m: int, j: int| 0 <= m < self.module_reference_pointer_table.len()
        && 0 <= j < self.module_reference_pointer_table[m]@.len()
        implies self.part_ok(#[trigger] self.module_reference_pointer_table[m]@[j]) by {
      assert(other.part_ok(other.module_reference_pointer_table[m]@[j]));
    }
  }

  /// pushing the dummy slot Permanent("") (used only to advance ids) keeps the invariant
  proof fn lemma_wf_after_push_empty(&self, mid: &Heap)
    requires mid.wf(), mid.len() < 0xffff_ffff,
      self.str_pointer_table@ == mid.str_pointer_table@.push(StringStoredInHeap::Permanent("")),
      self.sweep_index == mid.sweep_index,
      self.interned_string == mid.interned_string, self.interned_static_str == mid.interned_static_str,
      self.module_reference_pointer_table == mid.module_reference_pointer_table,
      self.interned_module_reference == mid.interned_module_reference,
    ensures self.wf(), self.preserves(mid)
  {
    broadcast use axiom_empty_fits;
    assert(""@ =~= Seq::<char>::empty()) by { reveal_strlit(""); }
    assert forall|i: int| 0 <= i < self.len() && #[trigger] self.is_temp(i) implies self.temp_slot_ok(i) by {
      assert(mid.is_temp(i)); assert(mid.temp_slot_ok(i));
    }
    assert forall|i: int| 0 <= i < self.len() && #[trigger] self.is_perm(i) implies self.perm_slot_ok(i) by {
      if i < mid.len() { assert(mid.is_perm(i)); assert(mid.perm_slot_ok(i)); }
    }
    assert forall|k: &'static str| #[trigger] self.interned_static_str@.contains_key(k) implies self.static_key_ok(k) by {
      assert(mid.static_key_ok(k));
    }
    assert forall|k: &'static str| #[trigger] self.interned_string@.contains_key(k) implies self.temp_key_ok(k) by {
      assert(mid.temp_key_ok(k));
    }
    assert forall|m: int, j: int| 0 <= m < self.module_reference_pointer_table.len()
        && 0 <= j < self.module_reference_pointer_table[m]@.len()
        implies self.part_ok(#[trigger] self.module_reference_pointer_table[m]@[j]) by {
      assert(mid.part_ok(mid.module_reference_pointer_table[m]@[j]));
    }
    assert forall|i: int| 0 <= i < mid.len() implies #[trigger] self.content(i) == mid.content(i) by {}
  }

  /// wf_strings only reads the string table, the two string maps and the cursor
  proof fn lemma_wf_strings_same_fields(&self, other: &Heap)
    requires other.wf_strings(), self.str_pointer_table == other.str_pointer_table, self.sweep_index == other.sweep_index,
      self.interned_string == other.interned_string, self.interned_static_str == other.interned_static_str,
    ensures self.wf_strings()
  {
    assert forall|i: int| 0 <= i < self.len() && #[trigger] self.is_temp(i) implies self.temp_slot_ok(i) by {
      assert(other.is_temp(i)); assert(other.temp_slot_ok(i));
    }
    assert forall|i: int| 0 <= i < self.len() && #[trigger] self.is_perm(i) implies self.perm_slot_ok(i) by {
      assert(other.is_perm(i)); assert(other.perm_slot_ok(i));
    }
    assert forall|k: &'static str| #[trigger] self.interned_static_str@.contains_key(k) implies self.static_key_ok(k) by {
      assert(other.static_key_ok(k));
    }
    assert forall|k: &'static str| #[trigger] self.interned_string@.contains_key(k) implies self.temp_key_ok(k) by {
      assert(other.temp_key_ok(k));
    }
  }

  /// the gate: sweeping is disabled while some module still has to be marked
  spec fn gate_closed(&self) -> bool { self.unmarked_module_references@.len() != 0 }
  spec fn next_cursor(&self, work_unit: usize) -> int {
    if self.sweep_index + work_unit >= self.len() { 0 } else { self.sweep_index + work_unit }
  }
  /// the slots one call of sweep(work_unit) passes over
  spec fn in_window(&self, work_unit: usize, i: int) -> bool {
    self.sweep_index <= i && i < self.sweep_index + work_unit && i < self.len()
  }

  /// A handle that may be dereferenced: inline, or an id of a slot that has not been reclaimed.
  spec fn live(&self, p: PStr) -> bool {
    match repr_heap_id(p.0) {
      Some(id) => (id as int) < self.len() && self.content(id as int) is Some,
      None => true,
    }
  }

  /// The string a live handle denotes.
  spec fn read(&self, p: PStr) -> Seq<char> {
    match repr_heap_id(p.0) {
      Some(id) => self.content(id as int)->Some_0,
      None => repr_inline(p.0)->Some_0,
    }
  }

  /// frame used by every operation except sweep: nothing that was readable changes its text,
  /// permanent stays permanent, a set mark bit stays set (or the slot became permanent).
  spec fn preserves(&self, old: &Heap) -> bool {
    &&& self.len() >= old.len()
    &&& self.sweep_index == old.sweep_index
    &&& forall|i: int| 0 <= i < old.len() ==> #[trigger] self.content(i) == old.content(i)
    &&& forall|i: int| 0 <= i < old.len() && old.is_perm(i) ==> #[trigger] self.is_perm(i)
    &&& forall|i: int| 0 <= i < old.len() && old.marked(i) ==> #[trigger] self.marked(i) || self.is_perm(i)
    &&& forall|i: int| 0 <= i < old.len() && #[trigger] self.is_temp(i) ==> old.is_temp(i)
  }

  proof fn lemma_preserves_trans(&self, mid: &Heap, old: &Heap)
    requires self.preserves(mid), mid.preserves(old)
    ensures self.preserves(old)
  {
    assert forall|i: int| 0 <= i < old.len() implies #[trigger] self.content(i) == old.content(i) by {
      assert(mid.content(i) == old.content(i));
    }
    assert forall|i: int| 0 <= i < old.len() && old.is_perm(i) implies #[trigger] self.is_perm(i) by {
      assert(mid.is_perm(i));
    }
    assert forall|i: int| 0 <= i < old.len() && old.marked(i) implies #[trigger] self.marked(i) || self.is_perm(i) by {
      assert(mid.marked(i) || mid.is_perm(i));
      if mid.is_perm(i) { assert(self.is_perm(i)); }
    }
    assert forall|i: int| 0 <= i < old.len() && #[trigger] self.is_temp(i) implies old.is_temp(i) by {
      assert(mid.is_temp(i));
    }
  }
  proof fn lemma_preserves_refl(&self)
    ensures self.preserves(self)
  {}

  /// two distinct live, interned (non-inline) slots never hold the same text
  proof fn lemma_contents_unique(&self, i: int, j: int)
    requires self.wf(), 0 <= i < self.len(), 0 <= j < self.len(), i != j,
      self.content(i) is Some, self.content(i) == self.content(j), !fits_inline(self.content(i)->Some_0),
    ensures false
  {
    assert(self.is_temp(i) || self.is_perm(i));
    assert(self.is_temp(j) || self.is_perm(j));
    let c = self.content(i)->Some_0;
    if self.is_temp(i) { assert(self.temp_slot_ok(i)); assert(self.interned_string@.contains_key(str_of(c))); }
    if self.is_perm(i) { assert(self.perm_slot_ok(i)); assert(self.interned_static_str@.contains_key(str_of(c))); }
    if self.is_temp(j) { assert(self.temp_slot_ok(j)); }
    if self.is_perm(j) { assert(self.perm_slot_ok(j)); }
    if self.interned_static_str@.contains_key(str_of(c)) { assert(self.static_key_ok(str_of(c))); }
  }

  spec fn same_shape(&self, old: &Heap, i: int) -> bool {
    &&& self.is_temp(i) == old.is_temp(i)
    &&& self.is_perm(i) == old.is_perm(i)
    &&& self.content(i) == old.content(i)
  }

  /// wf only depends on the kind and text of each slot, the maps, the module table and the cursor
  proof fn lemma_wf_transfer(&self, old: &Heap)
    requires old.wf(), self.len() == old.len(), self.sweep_index <= self.len(),
      self.interned_string == old.interned_string, self.interned_static_str == old.interned_static_str,
      self.module_reference_pointer_table == old.module_reference_pointer_table,
      self.interned_module_reference == old.interned_module_reference,
      forall|i: int| 0 <= i < old.len() ==> self.same_shape(old, i),
    ensures self.wf()
  {
    assert forall|i: int| 0 <= i < self.len() && #[trigger] self.is_temp(i) implies self.temp_slot_ok(i) by {
      assert(self.same_shape(old, i)); assert(old.is_temp(i)); assert(old.temp_slot_ok(i));
    }
    assert forall|i: int| 0 <= i < self.len() && #[trigger] self.is_perm(i) implies self.perm_slot_ok(i) by {
      assert(self.same_shape(old, i)); assert(old.is_perm(i)); assert(old.perm_slot_ok(i));
    }
    assert forall|k: &'static str| #[trigger] self.interned_static_str@.contains_key(k) implies self.static_key_ok(k) by {
      assert(old.static_key_ok(k)); assert(self.same_shape(old, old.interned_static_str@[k] as int));
    }
    assert forall|k: &'static str| #[trigger] self.interned_string@.contains_key(k) implies self.temp_key_ok(k) by {
      assert(old.temp_key_ok(k)); assert(self.same_shape(old, old.interned_string@[k] as int));
    }
    assert forall|m: int, j: int| 0 <= m < self.module_reference_pointer_table.len()
        && 0 <= j < self.module_reference_pointer_table[m]@.len()
        implies self.part_ok(#[trigger] self.module_reference_pointer_table[m]@[j]) by {
      let p = old.module_reference_pointer_table[m]@[j];
      assert(old.part_ok(p));
      if repr_heap_id(p.0) is Some { assert(self.same_shape(old, repr_heap_id(p.0)->Some_0 as int)); }
    }
  }

//@extract crates/samlang-heap/src/lib.rs :: impl Heap / fn alloc_string
//@ret r
//@replace unsafe { (key as *const str).as_ref().unwrap() } => unsafe_extend_str_lifetime(key) ## R3: lifetime extension of a borrow of the String that is moved into the table right after
//@contract
    requires
      old(self).wf(),
      old(self).len() < 0xffff_ffff,
      vstd::std_specs::hash::obeys_key_model::<&'static str>(),
    ensures
      final(self).wf(),                                                             // :wf_preserved
      final(self).live(r) && final(self).read(r) == string@,                        // :reads_back_exact_string
      repr_heap_id(r.0) is None <==> fits_inline(string@),                          // :inline_iff_short
      final(self).preserves(old(self)),                                             // :frame_nothing_readable_changes
      final(self).len() <= old(self).len() + 1,                                     // :table_grows_by_at_most_one
      forall|i: int| 0 <= i < old(self).len() ==> final(self).str_pointer_table[i] == old(self).str_pointer_table[i],  // :frame_all_old_slots_identical
      repr_heap_id(r.0) is Some && !(exists|i: int| 0 <= i < old(self).len() && old(self).content(i) == Some(string@))
        ==> (repr_heap_id(r.0)->Some_0) as int == old(self).len() && final(self).len() == old(self).len() + 1,  // :fresh_slot_when_absent
      final(self).module_reference_pointer_table == old(self).module_reference_pointer_table,   // :module_table_unchanged
      final(self).unmarked_module_references == old(self).unmarked_module_references,           // :gate_unchanged
//@before match PStrPrivateRepr::from_string(string) {
    proof { broadcast use repr_cases, axiom_str_of, axiom_str_ext; }
//@after self.interned_string.insert(unmanaged_str_ptr, id);
    proof {
      lemma_str_of_view(unmanaged_str_ptr);
      assert(unmanaged_str_ptr == key);
      assert(self.is_temp(id as int));
      assert forall|i: int| 0 <= i < self.len() && #[trigger] self.is_temp(i) implies self.temp_slot_ok(i) by {
        if i < old(self).len() { assert(old(self).is_temp(i)); assert(old(self).temp_slot_ok(i)); }
      }
      assert forall|i: int| 0 <= i < self.len() && #[trigger] self.is_perm(i) implies self.perm_slot_ok(i) by {
        if i < old(self).len() { assert(old(self).is_perm(i)); assert(old(self).perm_slot_ok(i)); }
      }
      assert forall|k: &'static str| #[trigger] self.interned_static_str@.contains_key(k) implies self.static_key_ok(k) by {
        assert(old(self).static_key_ok(k));
      }
      assert forall|k: &'static str| #[trigger] self.interned_string@.contains_key(k) implies self.temp_key_ok(k) by {
        if k != unmanaged_str_ptr { assert(old(self).temp_key_ok(k)); }
      }
      assert forall|m: int, j: int| 0 <= m < self.module_reference_pointer_table.len()
          && 0 <= j < self.module_reference_pointer_table[m]@.len()
          implies self.part_ok(#[trigger] self.module_reference_pointer_table[m]@[j]) by {
        assert(old(self).part_ok(old(self).module_reference_pointer_table[m]@[j]));
      }
    }
//@end

//@extract crates/samlang-heap/src/lib.rs :: impl Heap / fn mark
//@contract
    requires
      old(self).wf(),
      repr_heap_id(p_str.0) is Some ==> (repr_heap_id(p_str.0)->Some_0 as int) < old(self).len(),
    ensures
      final(self).wf(),                                                             // :wf_preserved
      final(self).len() == old(self).len(),                                         // :len_unchanged
      final(self).preserves(old(self)),                                             // :frame_nothing_readable_changes
      repr_heap_id(p_str.0) is Some && old(self).is_temp(repr_heap_id(p_str.0)->Some_0 as int)
        ==> final(self).marked(repr_heap_id(p_str.0)->Some_0 as int),                // :mark_bit_set
      forall|i: int| 0 <= i < old(self).len() && repr_heap_id(p_str.0) != Some(i as u32)
        ==> final(self).str_pointer_table[i] == old(self).str_pointer_table[i],      // :other_slots_identical
      final(self).interned_string == old(self).interned_string,                     // :temp_map_unchanged
      final(self).interned_static_str == old(self).interned_static_str,             // :static_map_unchanged
      final(self).module_reference_pointer_table == old(self).module_reference_pointer_table,   // :module_table_unchanged
      final(self).unmarked_module_references == old(self).unmarked_module_references,           // :gate_unchanged
//@atend
    proof {
      assert forall|i: int| 0 <= i < old(self).len() implies self.same_shape(old(self), i) by {}
      self.lemma_wf_transfer(old(self));
    }
//@end

//@extract crates/samlang-heap/src/lib.rs :: impl Heap / fn sweep
//@replace cfg!(test) => cfg_test() ## R3: compile-time flag becomes an arbitrary boolean (both settings are covered)
//@replace self.str_pointer_table[sweep_start..sweep_end] => self.str_pointer_table.as_mut_slice()[sweep_start..sweep_end] ## R9: Vec range indexing written as std defines it (IndexMut for Vec forwards to the slice)
//@contract
    requires
      old(self).wf(),
      vstd::std_specs::hash::obeys_key_model::<&'static str>(),
    ensures
      final(self).wf(),                                                             // :wf_preserved
      final(self).len() == old(self).len(),                                         // :len_unchanged
      final(self).interned_static_str == old(self).interned_static_str,             // :static_map_unchanged
      final(self).module_reference_pointer_table == old(self).module_reference_pointer_table,   // :module_table_unchanged
      final(self).unmarked_module_references == old(self).unmarked_module_references,           // :gate_unchanged
      old(self).gate_closed() ==> final(self).sweep_index == old(self).sweep_index
        && final(self).interned_string == old(self).interned_string
        && forall|i: int| 0 <= i < old(self).len() ==> final(self).str_pointer_table[i] == old(self).str_pointer_table[i],  // :no_sweep_while_modules_unmarked
      !old(self).gate_closed() ==> final(self).sweep_index == old(self).next_cursor(work_unit),  // :cursor_advances_and_wraps
      !old(self).gate_closed() ==> forall|i: int| 0 <= i < old(self).len() && !old(self).in_window(work_unit, i)
        ==> final(self).str_pointer_table[i] == old(self).str_pointer_table[i],      // :outside_window_untouched
      forall|i: int| 0 <= i < old(self).len() && old(self).is_perm(i)
        ==> final(self).str_pointer_table[i] == old(self).str_pointer_table[i],      // :permanent_never_reclaimed
      forall|i: int| 0 <= i < old(self).len() && old(self).marked(i)
        ==> final(self).is_temp(i) && final(self).content(i) == old(self).content(i), // :marked_never_reclaimed
      !old(self).gate_closed() ==> forall|i: int| 0 <= i < old(self).len() && old(self).in_window(work_unit, i) && old(self).marked(i)
        ==> !final(self).marked(i),                                                  // :mark_cleared_when_passed
      !old(self).gate_closed() ==> forall|i: int| 0 <= i < old(self).len() && old(self).in_window(work_unit, i)
        && old(self).is_temp(i) && !old(self).marked(i)
        ==> final(self).content(i) is None
            && !final(self).interned_string@.contains_key(str_of(temp_text(old(self).str_pointer_table[i]))),  // :unmarked_reclaimed_and_uninterned
      forall|i: int| 0 <= i < old(self).len() && final(self).content(i) is Some
        ==> final(self).content(i) == old(self).content(i),                          // :surviving_text_unchanged
      forall|i: int| 0 <= i < old(self).len() && old(self).content(i) is None ==> final(self).content(i) is None,  // :reclaimed_stays_reclaimed
//@before let sweep_start = self.sweep_index;
    proof { broadcast use group_str_keys; }
//@loop 0 iter=it
      invariant
        it.seq().len() == sweep_end - sweep_start,
        sweep_start <= sweep_end <= old(self).len(),
        old(self).wf(),
        vstd::std_specs::hash::obeys_key_model::<&'static str>(),
        forall|j: int| 0 <= j < it.seq().len() ==> *(#[trigger] it.seq()[j]) == old(self).str_pointer_table[sweep_start + j],
        forall|j: int| 0 <= j < it.index() ==> swept_slot(old(self).str_pointer_table[sweep_start + j], *final(#[trigger] it.seq()[j])),
        forall|k: &'static str| #[trigger] self.interned_string@.contains_key(k)
          ==> old(self).interned_string@.contains_key(k) && self.interned_string@[k] == old(self).interned_string@[k],
        forall|k: &'static str| old(self).interned_string@.contains_key(k) && !(#[trigger] self.interned_string@.contains_key(k))
          ==> sweep_start <= old(self).interned_string@[k] < sweep_start + it.index() && !old(self).marked(old(self).interned_string@[k] as int),
        forall|j: int| 0 <= j < it.index() && old(self).is_temp(sweep_start + j) && !old(self).marked(sweep_start + j)
          ==> !self.interned_string@.contains_key(str_of(temp_text(#[trigger] old(self).str_pointer_table[sweep_start + j]))),
        self.interned_static_str == old(self).interned_static_str,
        self.module_reference_pointer_table == old(self).module_reference_pointer_table,
        self.interned_module_reference == old(self).interned_module_reference,
        self.unmarked_module_references == old(self).unmarked_module_references,
//@before match string_stored {
      let ghost j0 = it.index() as int;
      let ghost pre_map = self.interned_string@;
      proof {
        broadcast use group_str_keys;
        assert(*string_stored == *it.seq()[j0]);
        assert(old(self).str_pointer_table[sweep_start + j0] == *string_stored);
      }
//@after self.interned_string.remove(str.as_str());
            proof {
              assert(self.interned_string@ == pre_map.remove(str_of(str@)));
              assert(old(self).is_temp(sweep_start + j0));
              assert(old(self).temp_slot_ok(sweep_start + j0));
            }
//@atend
    proof {
      broadcast use group_str_keys;
      let o = old(self);
      assert forall|i: int| 0 <= i < self.len() implies
        (if sweep_start <= i < sweep_end { swept_slot(o.str_pointer_table[i], self.str_pointer_table[i]) } else { self.str_pointer_table[i] == o.str_pointer_table[i] }) by {
        if sweep_start <= i < sweep_end { let j = i - sweep_start; assert(swept_slot(o.str_pointer_table[sweep_start + j], self.str_pointer_table[i])); }
      }
      assert forall|i: int| 0 <= i < self.len() && #[trigger] self.is_temp(i) implies self.temp_slot_ok(i) by {
        assert(o.is_temp(i)); assert(o.temp_slot_ok(i));
        let k = str_of(temp_text(o.str_pointer_table[i]));
        assert(o.interned_string@.contains_key(k));
        if !self.interned_string@.contains_key(k) { assert(!o.marked(i)); }
      }
      assert forall|i: int| 0 <= i < self.len() && #[trigger] self.is_perm(i) implies self.perm_slot_ok(i) by {
        assert(o.is_perm(i)); assert(o.perm_slot_ok(i));
      }
      assert forall|k: &'static str| #[trigger] self.interned_static_str@.contains_key(k) implies self.static_key_ok(k) by {
        assert(o.static_key_ok(k));
      }
      assert forall|k: &'static str| #[trigger] self.interned_string@.contains_key(k) implies self.temp_key_ok(k) by {
        assert(o.temp_key_ok(k));
        let id = o.interned_string@[k] as int;
        lemma_str_of_view(k);
        if sweep_start <= id < sweep_end && !o.marked(id) {
          let j = id - sweep_start;
          assert(o.is_temp(sweep_start + j));
          assert(!self.interned_string@.contains_key(str_of(temp_text(o.str_pointer_table[sweep_start + j]))));
        }
      }
      assert forall|m: int, j: int| 0 <= m < self.module_reference_pointer_table.len()
          && 0 <= j < self.module_reference_pointer_table[m]@.len()
          implies self.part_ok(#[trigger] self.module_reference_pointer_table[m]@[j]) by {
        assert(o.part_ok(o.module_reference_pointer_table[m]@[j]));
      }
    }
//@end

//@extract crates/samlang-heap/src/lib.rs :: impl Heap / fn alloc_str_internal
//@ret r
//@contract
    requires
      old(self).wf(),
      old(self).len() < 0xffff_ffff,
      vstd::std_specs::hash::obeys_key_model::<&'static str>(),
    ensures
      final(self).wf(),                                                             // :wf_preserved
      final(self).live(r) && final(self).read(r) == str@,                           // :reads_back_exact_string
      repr_heap_id(r.0) is None <==> fits_inline(str@),                             // :inline_iff_short
      repr_heap_id(r.0) is Some ==> final(self).is_perm(repr_heap_id(r.0)->Some_0 as int),  // :result_is_permanent
      final(self).preserves(old(self)),                                             // :frame_nothing_readable_changes
      final(self).len() <= old(self).len() + 1,                                     // :table_grows_by_at_most_one
      final(self).module_reference_pointer_table == old(self).module_reference_pointer_table,   // :module_table_unchanged
      final(self).unmarked_module_references == old(self).unmarked_module_references,           // :gate_unchanged
//@before if let Some(p) = PStr::create_inline_opt(str) {
    proof { broadcast use repr_cases, group_str_keys; lemma_str_of_view(str); }
//@after#1 self.interned_static_str.insert(str, id);
      proof {
        let o = old(self);
        assert(o.temp_key_ok(str));
        assert forall|i: int| 0 <= i < self.len() && #[trigger] self.is_temp(i) implies self.temp_slot_ok(i) by {
          assert(o.is_temp(i)); assert(o.temp_slot_ok(i));
        }
        assert forall|i: int| 0 <= i < self.len() && #[trigger] self.is_perm(i) implies self.perm_slot_ok(i) by {
          if i != id as int { assert(o.is_perm(i)); assert(o.perm_slot_ok(i)); }
        }
        assert forall|k: &'static str| #[trigger] self.interned_static_str@.contains_key(k) implies self.static_key_ok(k) by {
          if k != str { assert(o.static_key_ok(k)); }
        }
        assert forall|k: &'static str| #[trigger] self.interned_string@.contains_key(k) implies self.temp_key_ok(k) by {
          assert(o.temp_key_ok(k));
          if o.interned_string@[k] == id { lemma_str_of_view(k); }
        }
        assert forall|m: int, j: int| 0 <= m < self.module_reference_pointer_table.len()
            && 0 <= j < self.module_reference_pointer_table[m]@.len()
            implies self.part_ok(#[trigger] self.module_reference_pointer_table[m]@[j]) by {
          assert(o.part_ok(o.module_reference_pointer_table[m]@[j]));
        }
      }
//@after self.str_pointer_table.push(StringStoredInHeap::Permanent(str));
      proof {
        let o = old(self);
        assert(self.is_perm(id as int));
        assert forall|i: int| 0 <= i < self.len() && #[trigger] self.is_temp(i) implies self.temp_slot_ok(i) by {
          assert(o.is_temp(i)); assert(o.temp_slot_ok(i));
        }
        assert forall|i: int| 0 <= i < self.len() && #[trigger] self.is_perm(i) implies self.perm_slot_ok(i) by {
          if i != id as int { assert(o.is_perm(i)); assert(o.perm_slot_ok(i)); }
        }
        assert forall|k: &'static str| #[trigger] self.interned_static_str@.contains_key(k) implies self.static_key_ok(k) by {
          if k != str { assert(o.static_key_ok(k)); }
        }
        assert forall|k: &'static str| #[trigger] self.interned_string@.contains_key(k) implies self.temp_key_ok(k) by {
          assert(o.temp_key_ok(k));
        }
        assert forall|m: int, j: int| 0 <= m < self.module_reference_pointer_table.len()
            && 0 <= j < self.module_reference_pointer_table[m]@.len()
            implies self.part_ok(#[trigger] self.module_reference_pointer_table[m]@[j]) by {
          assert(o.part_ok(o.module_reference_pointer_table[m]@[j]));
        }
      }
//@end

  // R7: `Box::leak(Box::new(string))` — trusted leaf: returns a `&'static str` with the same text.
  #[verifier::external_body]
  fn make_string_static(string: String) -> (r: &'static str) ensures r@ == string@ { unimplemented!() }

//@extract crates/samlang-heap/src/lib.rs :: impl Heap / fn make_string_permanent
//@replace debug_assert_eq!(removed, id); => runtime_assert(removed == id); ## R3: the debug assertion becomes a call whose precondition is the asserted condition (so it is proved never to fire)
//@contract
    requires
      old(self).wf(),
      repr_heap_id(p_str.0) is Some ==> (repr_heap_id(p_str.0)->Some_0 as int) < old(self).len(),
      vstd::std_specs::hash::obeys_key_model::<&'static str>(),
    ensures
      final(self).wf(),                                                             // :wf_preserved
      final(self).len() == old(self).len(),                                         // :len_unchanged
      final(self).preserves(old(self)),                                             // :frame_nothing_readable_changes
      old(self).live(p_str) ==> final(self).part_ok(p_str),                         // :live_handle_becomes_permanent
      forall|i: int| 0 <= i < old(self).len() && repr_heap_id(p_str.0) != Some(i as u32)
        ==> final(self).str_pointer_table[i] == old(self).str_pointer_table[i],      // :other_slots_identical
      final(self).module_reference_pointer_table == old(self).module_reference_pointer_table,   // :module_table_unchanged
      final(self).interned_module_reference == old(self).interned_module_reference,             // :module_map_unchanged
      final(self).unmarked_module_references == old(self).unmarked_module_references,           // :gate_unchanged
//@before if let Some(id) = p_str.0.as_heap_id() {
    proof { broadcast use repr_cases, group_str_keys, axiom_mut_string_to_string; }
//@after#1 StringStoredInHeap::Permanent(_) | StringStoredInHeap::Deallocated(_) => {
          proof {
            assert(self.str_pointer_table@ =~= old(self).str_pointer_table@);
            assert forall|i: int| 0 <= i < old(self).len() implies self.same_shape(old(self), i) by {}
            self.lemma_wf_transfer(old(self));
          }
//@before let stored_string = &mut self.str_pointer_table[id as usize];
      proof { if self.is_temp(id as int) { assert(self.temp_slot_ok(id as int)); } }
      let ghost txt = temp_text(self.str_pointer_table[id as int]);
//@after self.interned_static_str.insert(static_str, id);
          proof {
            let o = old(self);
            lemma_str_of_view(static_str);
            assert(static_str@ == txt);
            assert(static_str == str_of(txt));
            assert(self.is_perm(id as int));
            assert forall|i: int| 0 <= i < self.len() && #[trigger] self.is_temp(i) implies self.temp_slot_ok(i) by {
              assert(o.is_temp(i)); assert(o.temp_slot_ok(i));
            }
            assert forall|i: int| 0 <= i < self.len() && #[trigger] self.is_perm(i) implies self.perm_slot_ok(i) by {
              if i != id as int { assert(o.is_perm(i)); assert(o.perm_slot_ok(i)); }
            }
            assert forall|k: &'static str| #[trigger] self.interned_static_str@.contains_key(k) implies self.static_key_ok(k) by {
              if k != static_str { assert(o.static_key_ok(k)); }
            }
            assert forall|k: &'static str| #[trigger] self.interned_string@.contains_key(k) implies self.temp_key_ok(k) by {
              assert(o.temp_key_ok(k));
              if o.interned_string@[k] == id { lemma_str_of_view(k); }
            }
            assert forall|m: int, j: int| 0 <= m < self.module_reference_pointer_table.len()
                && 0 <= j < self.module_reference_pointer_table[m]@.len()
                implies self.part_ok(#[trigger] self.module_reference_pointer_table[m]@[j]) by {
              assert(o.part_ok(o.module_reference_pointer_table[m]@[j]));
            }
          }
//@end

//@extract crates/samlang-heap/src/lib.rs :: impl Heap / fn alloc_module_reference
//@ret r
//@replace Vec::leak(parts) => vec_leak(parts) ## R3: leaking the vector yields a 'static slice with the same elements
//@contract
    requires
      old(self).wf(),
      forall|j: int| 0 <= j < parts@.len() ==> old(self).live(#[trigger] parts@[j]),
      old(self).module_reference_pointer_table.len() < usize::MAX,
      vstd::std_specs::hash::obeys_key_model::<&'static str>(),
      vstd::std_specs::hash::obeys_key_model::<&'static [PStr]>(),
    ensures
      final(self).wf(),                                                             // :wf_preserved
      final(self).len() == old(self).len(),                                         // :len_unchanged
      final(self).preserves(old(self)),                                             // :frame_nothing_readable_changes
      r.0 < final(self).module_reference_pointer_table.len(),                       // :result_in_table
      final(self).module_reference_pointer_table[r.0 as int]@ == parts@,            // :result_denotes_parts
      forall|j: int| 0 <= j < parts@.len() ==> final(self).part_ok(#[trigger] parts@[j]),   // :every_part_permanent
      forall|m: int| 0 <= m < old(self).module_reference_pointer_table.len()
        ==> final(self).module_reference_pointer_table[m] == old(self).module_reference_pointer_table[m],  // :existing_module_refs_unchanged
      final(self).unmarked_module_references == old(self).unmarked_module_references,           // :gate_unchanged
      (forall|m: int| 0 <= m < old(self).module_reference_pointer_table.len() ==> old(self).module_reference_pointer_table[m]@ != parts@)
        ==> r.0 == old(self).module_reference_pointer_table.len()
            && final(self).module_reference_pointer_table.len() == old(self).module_reference_pointer_table.len() + 1,  // :fresh_module_ref_when_absent
      forall|m: int| 0 <= m < old(self).module_reference_pointer_table.len() && old(self).module_reference_pointer_table[m]@ == parts@
        ==> r.0 == m && final(self).module_reference_pointer_table.len() == old(self).module_reference_pointer_table.len(),  // :same_module_ref_when_present
//@before if let Some(id) = self.interned_module_reference.get(parts.deref()) {
    proof { broadcast use group_slice_keys; self.lemma_preserves_refl(); }
//@loop 0 iter=it
        invariant
          self.wf(),
          self.len() == old(self).len(),
          self.preserves(old(self)),
          it.seq().len() == parts@.len(),
          forall|j: int| 0 <= j < parts@.len() ==> *(#[trigger] it.seq()[j]) == parts@[j],
          forall|j: int| 0 <= j < parts@.len() ==> old(self).live(#[trigger] parts@[j]),
          forall|j: int| 0 <= j < it.index() ==> self.part_ok(#[trigger] parts@[j]),
          self.module_reference_pointer_table == old(self).module_reference_pointer_table,
          self.interned_module_reference == old(self).interned_module_reference,
          self.unmarked_module_references == old(self).unmarked_module_references,
          vstd::std_specs::hash::obeys_key_model::<&'static str>(),
//@before self.make_string_permanent(*p);
        let ghost mid = *self;
        let ghost idx = it.index() as int;
        proof {
          assert(*p == parts@[idx]);
          assert(old(self).live(parts@[idx]));
          assert(self.live(*p)) by { if repr_heap_id(p.0) is Some { assert(self.content(repr_heap_id(p.0)->Some_0 as int) == old(self).content(repr_heap_id(p.0)->Some_0 as int)); } }
        }
//@after self.make_string_permanent(*p);
        proof {
          self.lemma_preserves_trans(&mid, old(self));
          assert forall|j: int| 0 <= j < idx + 1 implies self.part_ok(#[trigger] parts@[j]) by {
            if j < idx {
              assert(mid.part_ok(parts@[j]));
              if repr_heap_id(parts@[j].0) is Some { assert(self.is_perm(repr_heap_id(parts@[j].0)->Some_0 as int)); }
            }
          }
        }
//@before let leaked_parts = Vec::leak(parts);
      let ghost after_loop = *self;
//@after self.module_reference_pointer_table.push(leaked_parts);
      proof {
        let o = old(self);
        broadcast use group_slice_keys;
        self.lemma_wf_strings_same_fields(&after_loop);
        assert forall|i: int| 0 <= i < o.len() implies #[trigger] self.content(i) == o.content(i) by { assert(after_loop.content(i) == o.content(i)); }
        assert forall|i: int| 0 <= i < o.len() && o.is_perm(i) implies #[trigger] self.is_perm(i) by { assert(after_loop.is_perm(i)); }
        assert forall|i: int| 0 <= i < o.len() && o.marked(i) implies #[trigger] self.marked(i) || self.is_perm(i) by { assert(after_loop.marked(i) || after_loop.is_perm(i)); }
        assert forall|i: int| 0 <= i < o.len() && #[trigger] self.is_temp(i) implies o.is_temp(i) by { assert(after_loop.is_temp(i)); }
        assert forall|m: int, j: int| 0 <= m < self.module_reference_pointer_table.len()
            && 0 <= j < self.module_reference_pointer_table[m]@.len()
            implies self.part_ok(#[trigger] self.module_reference_pointer_table[m]@[j]) by {
          if m < o.module_reference_pointer_table.len() {
            let p = o.module_reference_pointer_table[m]@[j];
            assert(o.part_ok(p));
            if repr_heap_id(p.0) is Some { assert(after_loop.is_perm(repr_heap_id(p.0)->Some_0 as int)); assert(self.is_perm(repr_heap_id(p.0)->Some_0 as int)); }
          } else {
            assert(self.module_reference_pointer_table[m]@[j] == parts@[j]);
            assert(after_loop.part_ok(parts@[j]));
          }
        }
      }
//@end

//@extract crates/samlang-heap/src/lib.rs :: impl Heap / fn sync_temp_counter
//@contract
    requires
      old(self).wf(),
    ensures
      final(self).wf(),                                                             // :wf_preserved
      final(self).preserves(old(self)),                                             // :frame_nothing_readable_changes
      forall|i: int| 0 <= i < old(self).len() ==> final(self).str_pointer_table[i] == old(self).str_pointer_table[i],  // :frame_all_old_slots_identical
      final(self).module_reference_pointer_table == old(self).module_reference_pointer_table,   // :module_table_unchanged
      final(self).unmarked_module_references == old(self).unmarked_module_references,           // :gate_unchanged
//@before let target = counter.current() as usize;
    proof { self.lemma_preserves_refl(); broadcast use axiom_empty_fits; }
//@loop 0
      invariant
        self.wf(),
        self.preserves(old(self)),
        target <= 0xffff_ffff,
        forall|i: int| 0 <= i < old(self).len() ==> self.str_pointer_table[i] == old(self).str_pointer_table[i],
        self.module_reference_pointer_table == old(self).module_reference_pointer_table,
        self.unmarked_module_references == old(self).unmarked_module_references,
      decreases target - self.str_pointer_table.len(),
//@before self.str_pointer_table.push(StringStoredInHeap::Permanent(""));
      let ghost mid = *self;
//@after self.str_pointer_table.push(StringStoredInHeap::Permanent(""));
      proof { broadcast use axiom_empty_fits; self.lemma_wf_after_push_empty(&mid); self.lemma_preserves_trans(&mid, old(self)); }
//@end

//@extract crates/samlang-heap/src/lib.rs :: impl Heap / fn alloc_temp_str
//@ret r
//@replace format!("_t{id}") => format_temp_name(id) ## R3: formatting "_t" followed by the decimal digits of a u32 (at most 12 bytes)
//@contract
    requires
      old(self).wf(),
      old(self).len() < 0xffff_ffff,
    ensures
      final(self).wf(),                                                             // :wf_preserved
      final(self).preserves(old(self)),                                             // :frame_nothing_readable_changes
      repr_heap_id(r.0) is None,                                                    // :temp_name_is_inline
      final(self).len() == old(self).len() + 1,                                     // :table_grows_by_one
      forall|i: int| 0 <= i < old(self).len() ==> final(self).str_pointer_table[i] == old(self).str_pointer_table[i],  // :frame_all_old_slots_identical
      final(self).module_reference_pointer_table == old(self).module_reference_pointer_table,   // :module_table_unchanged
      final(self).unmarked_module_references == old(self).unmarked_module_references,           // :gate_unchanged
//@before let id = self.str_pointer_table.len() as u32;
    proof { broadcast use repr_cases, axiom_empty_fits; }
    let ghost mid = *self;
//@after self.str_pointer_table.push(StringStoredInHeap::Permanent(""));
    proof { self.lemma_wf_after_push_empty(&mid); }
//@end

//@extract crates/samlang-heap/src/lib.rs :: impl Heap / fn add_unmarked_module_reference
//@contract
    requires
      old(self).wf(),
      vstd::std_specs::hash::obeys_key_model::<ModuleReference>(),
    ensures
      final(self).wf(),                                                             // :wf_preserved
      final(self).unmarked_module_references@ == old(self).unmarked_module_references@.insert(module_reference),  // :gate_gains_module
      final(self).gate_closed(),                                                    // :gate_closed_afterwards
      final(self).str_pointer_table == old(self).str_pointer_table,                 // :table_unchanged
      final(self).interned_string == old(self).interned_string,                     // :temp_map_unchanged
      final(self).interned_static_str == old(self).interned_static_str,             // :static_map_unchanged
      final(self).sweep_index == old(self).sweep_index,                             // :cursor_unchanged
      final(self).module_reference_pointer_table == old(self).module_reference_pointer_table,   // :module_table_unchanged
//@atend
    proof {
      self.lemma_wf_strings_same_fields(old(self));
      self.lemma_wf_modules_same_fields(old(self));
    }
//@end

//@extract crates/samlang-heap/src/lib.rs :: impl Heap / fn pop_unmarked_module_reference
//@ret r
//@contract
    requires
      old(self).wf(),
      vstd::std_specs::hash::obeys_key_model::<ModuleReference>(),
    ensures
      final(self).wf(),                                                             // :wf_preserved
      match r {                                                                     // :gate_loses_exactly_the_returned_module
        Some(m) => final(self).unmarked_module_references@ == old(self).unmarked_module_references@.remove(m),
        None => !old(self).gate_closed() && final(self).unmarked_module_references@ == old(self).unmarked_module_references@,
      },
      final(self).str_pointer_table == old(self).str_pointer_table,                 // :table_unchanged
      final(self).interned_string == old(self).interned_string,                     // :temp_map_unchanged
      final(self).interned_static_str == old(self).interned_static_str,             // :static_map_unchanged
      final(self).sweep_index == old(self).sweep_index,                             // :cursor_unchanged
      final(self).module_reference_pointer_table == old(self).module_reference_pointer_table,   // :module_table_unchanged
//@before Some(item)
    proof {
      self.lemma_wf_strings_same_fields(old(self));
      self.lemma_wf_modules_same_fields(old(self));
    }
//@end

//@extract crates/samlang-heap/src/lib.rs :: impl Heap / fn alloc_str_for_test
//@ret r
//@contract
    requires
      old(self).wf(),
      old(self).len() < 0xffff_ffff,
      vstd::std_specs::hash::obeys_key_model::<&'static str>(),
    ensures
      final(self).wf(),                                                             // :wf_preserved
      final(self).live(r) && final(self).read(r) == s@,                             // :reads_back_exact_string
      final(self).preserves(old(self)),                                             // :frame_nothing_readable_changes
//@end

//@extract crates/samlang-heap/src/lib.rs :: impl Heap / fn get_allocated_str_opt
//@ret r
//@replace || self.interned_string.get(&str) => || -> (o: Option<&u32>) ensures (match o { Some(v) => self.interned_string@.contains_key(str) && *v == self.interned_string@[str], None => !self.interned_string@.contains_key(str) }) { self.interned_string.get(&str) } ## R8: contract on a closure (ghost annotation; the body is wrapped in braces, nothing else changes)
//@replace |id| PStr(PStrPrivateRepr::from_id(id)) => |id: u32| -> (p: PStr) ensures repr_heap_id(p.0) == Some(id) { PStr(PStrPrivateRepr::from_id(id)) } ## R8: contract on a closure (ghost annotation; the body is wrapped in braces, nothing else changes)
//@before let inlined = PStr::create_inline_opt(str);
    proof {
      broadcast use repr_cases, group_str_keys;
      lemma_str_of_view(str_of(str@));
      assert forall|i: int| 0 <= i < self.len() && self.content(i) == Some(str@) && !fits_inline(str@) implies
         self.interned_static_str@.contains_key(str_of(str@)) || self.interned_string@.contains_key(str_of(str@)) by {
           if self.is_temp(i) { assert(self.temp_slot_ok(i)); } else { assert(self.is_perm(i)); assert(self.perm_slot_ok(i)); }
      }
      if self.interned_static_str@.contains_key(str_of(str@)) { assert(self.static_key_ok(str_of(str@))); }
      if self.interned_string@.contains_key(str_of(str@)) { assert(self.temp_key_ok(str_of(str@))); }
    }
//@contract
    requires
      self.wf(),
      vstd::std_specs::hash::obeys_key_model::<&'static str>(),
    ensures
      match r {                                                                     // :finds_exactly_the_live_handle
        Some(p) => self.live(p) && self.read(p) == str@,
        None => !fits_inline(str@) && forall|i: int| 0 <= i < self.len() ==> self.content(i) != Some(str@),
      },
//@end

//@extract crates/samlang-heap/src/lib.rs :: impl Heap / fn alloc_dummy_module_reference
//@ret r
//@replace PStr::DUMMY_MODULE => pstr_const_dummy_module() ## R7: const built by the const-fn union constructors (proved by the Kani unit to be an inline handle)
//@contract
    requires
      old(self).wf(),
      old(self).module_reference_pointer_table.len() < usize::MAX,
      vstd::std_specs::hash::obeys_key_model::<&'static str>(),
      vstd::std_specs::hash::obeys_key_model::<&'static [PStr]>(),
    ensures
      final(self).wf(),                                                             // :wf_preserved
      final(self).preserves(old(self)),                                             // :frame_nothing_readable_changes
//@before let parts = vec![PStr::DUMMY_MODULE];
    proof { broadcast use repr_cases; }
//@end

//@extract crates/samlang-heap/src/lib.rs :: impl Heap / fn new
//@ret r
//@replace* PStr::DUMMY_MODULE => pstr_const_dummy_module() ## R7: const built by the const-fn union constructors (proved by the Kani unit to be an inline handle)
//@replace PStr::STD => pstr_const_std() ## R7: const built by the const-fn union constructors (proved by the Kani unit to be an inline handle)
//@replace PStr::TUPLES => pstr_const_tuples() ## R7: const built by the const-fn union constructors (proved by the Kani unit to be an inline handle)
//@replace debug_assert!(ModuleReference::DUMMY == allocated_dummy); => runtime_assert(ModuleReference::DUMMY.0 == allocated_dummy.0); ## R3: the debug assertion becomes a call whose precondition is the asserted condition (derived PartialEq on a one-field tuple struct compares that field)
//@replace debug_assert!(ModuleReference::STD_TUPLES == allocated_std_tuples); => runtime_assert(ModuleReference::STD_TUPLES.0 == allocated_std_tuples.0); ## R3: the debug assertion becomes a call whose precondition is the asserted condition (derived PartialEq on a one-field tuple struct compares that field)
//@contract
    requires
      vstd::std_specs::hash::obeys_key_model::<&'static str>(),
      vstd::std_specs::hash::obeys_key_model::<&'static [PStr]>(),
      vstd::std_specs::hash::obeys_key_model::<ModuleReference>(),
    ensures
      r.wf(),                                                                       // :new_heap_is_wf
      r.len() == 0,                                                                 // :new_heap_has_no_strings
      !r.gate_closed(),                                                             // :new_heap_gate_open
//@before heap.alloc_module_reference(Vec::new()); // Root
    proof { broadcast use repr_cases; }
//@end
}

impl PStr {
//@extract crates/samlang-heap/src/lib.rs :: impl PStr / fn as_str
//@ret r
//@replace |id| &heap.str_pointer_table[id as usize] => |id: u32| -> (t: &'a str) requires (id as int) < heap.len() && heap.content(id as int) is Some ensures Some(t@) == heap.content(id as int) { heap.str_pointer_table[id as usize].deref() } ## R12: closure contract (ghost) and the `&T -> &str` deref coercion written as the explicit call `.deref()`
//@contract
    requires
      heap.live(*self),
    ensures
      r@ == heap.read(*self),                                                       // :live_handle_reads_its_string
//@before self.0.as_inline_str().unwrap_or_else(
    proof { broadcast use repr_cases; }
//@end
}

impl ModuleReference {
//@extract crates/samlang-heap/src/lib.rs :: impl ModuleReference / const ROOT
//@end
//@extract crates/samlang-heap/src/lib.rs :: impl ModuleReference / const DUMMY
//@end
//@extract crates/samlang-heap/src/lib.rs :: impl ModuleReference / const STD_TUPLES
//@end
//@extract crates/samlang-heap/src/lib.rs :: impl ModuleReference / fn get_parts
//@ret r
//@contract
    requires
      heap.wf(),
      self.0 < heap.module_reference_pointer_table.len(),
    ensures
      r@ == heap.module_reference_pointer_table[self.0 as int]@,                    // :returns_the_interned_parts
      forall|j: int| 0 <= j < r@.len() ==> heap.live(#[trigger] r@[j]),               // :parts_are_live
//@end
}

// ------------------------------------------------------------------------------------------
// The sentences of property C17 as theorems over the contracts above.  These are exec functions
// that call the real (extracted) methods on an arbitrary well-formed heap with arbitrary
// arguments; Verus checks them modularly, i.e. against the callee contracts only.

/// "two handles are equal exactly when their strings are equal" (regular strings)
fn thm_equal_handles_iff_equal_strings(heap: &mut Heap, s1: String, s2: String)
  requires old(heap).wf(), old(heap).len() + 2 < 0xffff_ffff,
    vstd::std_specs::hash::obeys_key_model::<&'static str>(),
{
  let ghost t1 = s1@;
  let ghost t2 = s2@;
  let h1 = heap.alloc_string(s1);
  let ghost mid = *heap;
  let h2 = heap.alloc_string(s2);
  proof {
    broadcast use repr_cases;
    if repr_heap_id(h1.0) is Some && repr_heap_id(h2.0) is Some {
      let i1 = repr_heap_id(h1.0)->Some_0 as int;
      let i2 = repr_heap_id(h2.0)->Some_0 as int;
      assert(heap.content(i1) == mid.content(i1));
      if t1 == t2 && i1 != i2 { heap.lemma_contents_unique(i1, i2); }
    }
  }
  assert(handle_eq(h1, h2) <==> t1 == t2);                    // :equal_handles_iff_equal_strings
  assert(heap.live(h1) && heap.read(h1) == t1);               // :earlier_handle_still_reads_its_string
  assert(heap.live(h2) && heap.read(h2) == t2);               // :later_handle_reads_its_string
}

/// the same across the two allocation entry points (static strings are promoted, not duplicated)
fn thm_equal_handles_iff_equal_strings_static(heap: &mut Heap, s1: String, s2: &'static str, static_first: bool)
  requires old(heap).wf(), old(heap).len() + 2 < 0xffff_ffff,
    vstd::std_specs::hash::obeys_key_model::<&'static str>(),
{
  let ghost t1 = s1@;
  let ghost t2 = s2@;
  let h1;
  let h2;
  let ghost mid;
  if static_first {
    h2 = heap.alloc_str_internal(s2);
    proof { mid = *heap; }
    h1 = heap.alloc_string(s1);
  } else {
    h1 = heap.alloc_string(s1);
    proof { mid = *heap; }
    h2 = heap.alloc_str_internal(s2);
  }
  proof {
    broadcast use repr_cases;
    if repr_heap_id(h1.0) is Some && repr_heap_id(h2.0) is Some {
      let i1 = repr_heap_id(h1.0)->Some_0 as int;
      let i2 = repr_heap_id(h2.0)->Some_0 as int;
      if static_first { assert(heap.content(i2) == mid.content(i2)); } else { assert(heap.content(i1) == mid.content(i1)); }
      if t1 == t2 && i1 != i2 { heap.lemma_contents_unique(i1, i2); }
    }
  }
  assert(handle_eq(h1, h2) <==> t1 == t2);                    // :equal_handles_iff_equal_strings
  assert(heap.live(h1) && heap.read(h1) == t1);               // :regular_handle_reads_its_string
  assert(heap.live(h2) && heap.read(h2) == t2);               // :static_handle_reads_its_string
}

/// "no string that is ... marked since the sweeper last passed over it is ever reclaimed" and
/// "re-allocating a reclaimed string yields a fresh, readable handle", for every work unit
fn thm_marked_survives_and_realloc_is_fresh(heap: &mut Heap, s: String, s_again: String, w: usize, do_mark: bool)
  requires old(heap).wf(), old(heap).len() + 2 < 0xffff_ffff, s@ == s_again@,
    old(heap).sweep_index + w <= usize::MAX,
    vstd::std_specs::hash::obeys_key_model::<&'static str>(),
{
  let ghost t = s@;
  let h = heap.alloc_string(s);
  if do_mark {
    proof { broadcast use repr_cases; }
    heap.mark(h);
  }
  let ghost before = *heap;
  heap.sweep(w);
  proof {
    broadcast use repr_cases;
    if repr_heap_id(h.0) is Some {
      let i = repr_heap_id(h.0)->Some_0 as int;
      if do_mark { assert(before.marked(i) || before.is_perm(i)); }
    }
  }
  assert(do_mark ==> heap.live(h) && heap.read(h) == t);      // :marked_handle_survives_any_sweep
  assert(heap.live(h) ==> heap.read(h) == t);                 // :surviving_handle_reads_same_string
  let ghost swept = *heap;
  let h2 = heap.alloc_string(s_again);
  assert(heap.live(h2) && heap.read(h2) == t);                // :realloc_is_readable
  proof {
    if !swept.live(h) && repr_heap_id(h2.0) is Some {
      // the old slot is gone, and no other live slot can hold t (it would have been h's slot)
      assert forall|i: int| 0 <= i < swept.len() implies swept.content(i) != Some(t) by {
        if swept.content(i) == Some(t) {
          let i0 = repr_heap_id(h.0)->Some_0 as int;
          assert(before.content(i) == Some(t));
          if i != i0 { before.lemma_contents_unique(i, i0); }
        }
      }
    }
  }
  assert(!swept.live(h) && repr_heap_id(h2.0) is Some ==> (repr_heap_id(h2.0)->Some_0) as int == swept.len());  // :realloc_after_reclaim_is_a_fresh_slot
}

/// "no string that is permanent [or] part of a module reference ... is ever reclaimed"
fn thm_module_parts_and_static_strings_survive(heap: &mut Heap, parts: Vec<PStr>, st: &'static str, w: usize)
  requires old(heap).wf(), old(heap).len() + 2 < 0xffff_ffff,
    forall|j: int| 0 <= j < parts@.len() ==> old(heap).live(#[trigger] parts@[j]),
    old(heap).module_reference_pointer_table.len() < usize::MAX,
    old(heap).sweep_index + w <= usize::MAX,
    vstd::std_specs::hash::obeys_key_model::<&'static str>(),
    vstd::std_specs::hash::obeys_key_model::<&'static [PStr]>(),
{
  let ghost ps = parts@;
  let ghost o = *heap;
  let hs = heap.alloc_str_internal(st);
  proof {
    assert forall|j: int| 0 <= j < ps.len() implies heap.live(#[trigger] ps[j]) by {
      assert(o.live(ps[j]));
      if repr_heap_id(ps[j].0) is Some { assert(heap.content(repr_heap_id(ps[j].0)->Some_0 as int) == o.content(repr_heap_id(ps[j].0)->Some_0 as int)); }
    }
  }
  let ghost a = *heap;
  let m = heap.alloc_module_reference(parts);
  let ghost b = *heap;
  heap.sweep(w);
  proof {
    broadcast use repr_cases;
    assert forall|j: int| 0 <= j < ps.len() implies heap.live(#[trigger] ps[j]) && heap.read(ps[j]) == o.read(ps[j]) by {
      assert(b.part_ok(ps[j]));
      assert(o.live(ps[j]));
      if repr_heap_id(ps[j].0) is Some {
        let i = repr_heap_id(ps[j].0)->Some_0 as int;
        assert(a.content(i) == o.content(i));
        assert(b.content(i) == a.content(i));
      }
    }
    if repr_heap_id(hs.0) is Some {
      let i = repr_heap_id(hs.0)->Some_0 as int;
      assert(b.is_perm(i));
      assert(b.content(i) == a.content(i));
    }
  }
  assert(forall|j: int| 0 <= j < ps.len() ==> heap.live(#[trigger] ps[j]) && heap.read(ps[j]) == o.read(ps[j]));  // :module_reference_parts_survive_any_sweep
  assert(heap.live(hs) && heap.read(hs) == st@);              // :static_string_survives_any_sweep
}

// ------------------------------------------------------------------------------------------
// "For any sequence of allocations, module-reference creations, marks and incremental sweeps": an
// interpreter for ARBITRARY histories over the real methods.  The loop invariant is the induction the
// property quantifies over: the table invariant holds after every step, every handle ever returned stays
// in range, and a chosen handle keeps reading its string unless a sweep passed while it was neither
// permanent nor marked.
enum HistoryOp {
  AllocString(String),
  AllocStatic(&'static str),
  Mark(usize),            // index into the handles obtained so far
  MakeModuleReference(usize),
  Sweep(usize),
  AddUnmarkedModule(ModuleReference),
  PopUnmarkedModule,
  AllocTemp,
}

spec fn handle_in_range(h: &Heap, p: PStr) -> bool {
  repr_heap_id(p.0) is Some ==> (repr_heap_id(p.0)->Some_0 as int) < h.len()
}
/// the watched handle may not be reclaimed by the next sweep
spec fn protected(h: &Heap, p: PStr) -> bool {
  match repr_heap_id(p.0) {
    Some(id) => h.is_perm(id as int) || h.marked(id as int),
    None => true,
  }
}

fn thm_every_history(heap: &mut Heap, ops: Vec<HistoryOp>, first: String)
  requires old(heap).wf(),
    old(heap).len() + ops@.len() + 1 < 0xffff_ffff,
    old(heap).module_reference_pointer_table.len() + ops@.len() < usize::MAX,
    vstd::std_specs::hash::obeys_key_model::<&'static str>(),
    vstd::std_specs::hash::obeys_key_model::<&'static [PStr]>(),
    vstd::std_specs::hash::obeys_key_model::<ModuleReference>(),
{
  proof { broadcast use repr_cases; }
  let ghost text = first@;
  let watched = heap.alloc_string(first);
  let mut handles: Vec<PStr> = Vec::new();
  handles.push(watched);
  // false once a sweep has passed while the watched handle was neither permanent nor marked
  let ghost mut never_swept_unprotected = true;
  let ghost len0 = heap.len();
  let ghost mlen0 = heap.module_reference_pointer_table.len();
  let mut i: usize = 0;
  while i < ops.len()
    invariant
      0 <= i <= ops@.len(),
      heap.wf(),
      heap.len() <= len0 + i,
      len0 + ops@.len() < 0xffff_ffff,
      heap.module_reference_pointer_table.len() <= mlen0 + i,
      mlen0 + ops@.len() < usize::MAX,
      handles@.len() >= 1 && handles@[0] == watched,
      forall|k: int| 0 <= k < handles@.len() ==> handle_in_range(heap, #[trigger] handles@[k]),
      never_swept_unprotected ==> heap.live(watched) && heap.read(watched) == text,   // :watched_handle_reads_its_string_unless_swept_unprotected
      vstd::std_specs::hash::obeys_key_model::<&'static str>(),
      vstd::std_specs::hash::obeys_key_model::<&'static [PStr]>(),
      vstd::std_specs::hash::obeys_key_model::<ModuleReference>(),
    decreases ops@.len() - i,
  {
    let ghost before = *heap;
    let ghost handles_before = handles@;
    proof { broadcast use repr_cases; }
    match &ops[i] {
      HistoryOp::AllocString(s) => {
        let p = heap.alloc_string(s.clone());
        handles.push(p);
      }
      HistoryOp::AllocStatic(s) => {
        let p = heap.alloc_str_internal(*s);
        handles.push(p);
      }
      HistoryOp::Mark(k) => {
        if *k < handles.len() {
          heap.mark(handles[*k]);
        }
      }
      HistoryOp::MakeModuleReference(k) => {
        if *k < handles.len() {
          let p = handles[*k];
          // only live handles may become module-reference parts (precondition of the real method)
          let live = match p.0.as_heap_id() {
            Some(_) => false,   // liveness of a heap handle is not observable in exec code: skip
            None => true,
          };
          if live {
            let mut parts: Vec<PStr> = Vec::new();
            parts.push(p);
            let _ = heap.alloc_module_reference(parts);
          }
        }
      }
      HistoryOp::Sweep(w) => {
        if *w <= 0xffff_ffff {
          proof {
            if !protected(heap, watched) && !heap.gate_closed() { never_swept_unprotected = false; }
          }
          heap.sweep(*w);
        }
      }
      HistoryOp::AddUnmarkedModule(m) => { heap.add_unmarked_module_reference(*m); }
      HistoryOp::PopUnmarkedModule => { let _ = heap.pop_unmarked_module_reference(); }
      HistoryOp::AllocTemp => { let _ = heap.alloc_temp_str(); }
    }
    proof {
      assert forall|k: int| 0 <= k < handles@.len() implies handle_in_range(heap, #[trigger] handles@[k]) by {
        if k < handles_before.len() { assert(handle_in_range(&before, handles_before[k])); }
      }
      if never_swept_unprotected && repr_heap_id(watched.0) is Some {
        let id = repr_heap_id(watched.0)->Some_0 as int;
        assert(before.content(id) == Some(text));
      }
    }
    i += 1;
  }
}

/// vacuity guard: with every axiom group of this unit in scope, `false` must not be provable
proof fn canary_must_fail_heap() ensures false { broadcast use group_str_keys; broadcast use group_slice_keys; }

} // verus!
fn main() {}
