// Unit `ifchain` — C08 kernel: which `else` branches the formatter prints as `else if`.
// flattened_if_else (crates/samlang-printer/src/source_printer.rs, verbatim): the chain follows the
// else-branches that ARE if-else expressions and stops at the first else-branch that is a block; that block —
// whatever it contains — is printed as the final `else { .. }`.
use vstd::prelude::*;
verus! {

global size_of usize == 8;

// ---- R6 / R7: the syntax tree reduced to what the function looks at
#[verifier::external_body]
#[derive(Clone, Copy)]
struct CommentReference { _p: usize }
uninterp spec fn no_comment_reference() -> CommentReference;
/// R3: the named constant NO_COMMENT_REFERENCE
#[verifier::external_body]
fn no_comment() -> (r: CommentReference) ensures r == no_comment_reference() { unimplemented!() }
#[verifier::external_body]
struct IfElseCondition { _p: u8 }
#[verifier::external_body]
struct Block { _p: u8 }
struct ExpressionCommon { associated_comments: CommentReference }
struct IfElse {
  common: ExpressionCommon,
  condition: Box<IfElseCondition>,
  e1: Box<Block>,
  e2: Box<IfElseOrBlock>,
}
enum IfElseOrBlock {
  IfElse(IfElse),
  Block(Block),
}

//@extract crates/samlang-printer/src/source_printer.rs :: struct FlattenedIfElseChainElement
//@replace expr::IfElseCondition<()> => IfElseCondition ## R7: reduced syntax tree
//@replace expr::Block<()> => Block ## R7: reduced syntax tree
//@end

/// number of `else if` links below this node
spec fn links(i: IfElse) -> nat
  decreases i
{
  match *i.e2 { IfElseOrBlock::IfElse(n) => 1 + links(n), IfElseOrBlock::Block(_) => 0 }
}
/// the k-th node of the chain
spec fn node(i: IfElse, k: nat) -> IfElse
  decreases k
{
  if k == 0 { i } else { match *i.e2 { IfElseOrBlock::IfElse(n) => node(n, (k - 1) as nat), IfElseOrBlock::Block(_) => i } }
}
/// the block of the last `else`
spec fn final_else(i: IfElse) -> Block
  decreases i
{
  match *i.e2 { IfElseOrBlock::IfElse(n) => final_else(n), IfElseOrBlock::Block(b) => b }
}

proof fn lemma_node_step(i: IfElse, k: nat)
  requires k < links(i)
  ensures
    *node(i, k).e2 is IfElse,
    node(i, k + 1) == (*node(i, k).e2)->IfElse_0,
    links(node(i, k)) == links(i) - k,
    final_else(node(i, k)) == final_else(i),
  decreases k
{
  reveal_with_fuel(node, 3);
  if k > 0 {
    match *i.e2 {
      IfElseOrBlock::IfElse(n) => {
        lemma_node_step(n, (k - 1) as nat);
        assert(node(i, k) == node(n, (k - 1) as nat));
        assert(node(i, k + 1) == node(n, k));
      },
      IfElseOrBlock::Block(_) => {}
    }
  }
}
proof fn lemma_node_last(i: IfElse)
  ensures *node(i, links(i)).e2 is Block, final_else(node(i, links(i))) == final_else(i), links(node(i, links(i))) == 0
  decreases i
{
  match *i.e2 { IfElseOrBlock::IfElse(n) => { lemma_node_last(n); }, IfElseOrBlock::Block(_) => {} }
}

//@extract crates/samlang-printer/src/source_printer.rs :: fn flattened_if_else
//@ret r
//@replace* expr::IfElse<()> => IfElse ## R7: reduced syntax tree
//@replace* expr::Block<()> => Block ## R7: reduced syntax tree
//@replace* expr::IfElseOrBlock:: => IfElseOrBlock:: ## R1: module path
//@replace* NO_COMMENT_REFERENCE => no_comment() ## R3: named constant of the opaque comment reference type
//@replace let mut chain = Vec::new(); => let mut chain: Vec<FlattenedIfElseChainElement<'_>> = Vec::new(); ## R8: type ascription (rustc infers it from the later push; the spliced invariant mentions the variable first)
//@replace match acc.e2.as_ref() { => match &*acc.e2 { ## R9: Box::as_ref is the dereference
//@replace* acc.condition.as_ref() => &*acc.condition ## R9: Box::as_ref is the dereference
//@replace* acc.e1.as_ref() => &*acc.e1 ## R9: Box::as_ref is the dereference
//@contract
    ensures
      // the final `else` is the first else-branch that is a block, unopened
      *r.1 == final_else(*if_else),  // :final_else_is_the_first_block_branch
      // one `if` / `else if` per if-else node on the way, in order, with its own condition and then-block
      r.0@.len() == links(*if_else) + 1,
      forall|k: int| 0 <= k < r.0@.len() ==> *(#[trigger] r.0@[k]).condition == *node(*if_else, k as nat).condition
        && *r.0@[k].e1 == *node(*if_else, k as nat).e1,  // :chain_elements_are_the_nested_if_else_nodes_in_order
//@loop 0
    invariant
      chain@.len() <= links(*if_else),
      *acc == node(*if_else, chain@.len() as nat),
      forall|k: int| 0 <= k < chain@.len() ==> *(#[trigger] chain@[k]).condition == *node(*if_else, k as nat).condition
        && *chain@[k].e1 == *node(*if_else, k as nat).e1,
    decreases links(*if_else) - chain@.len(),
//@loopstart 0
    proof {
      if chain@.len() < links(*if_else) { lemma_node_step(*if_else, chain@.len() as nat); } else { lemma_node_last(*if_else); }
    }
//@end

proof fn canary_must_fail_ifchain() ensures false {}

} // verus!
fn main() {}
