// Unit `ivelim` — C02 kernel: induction-variable elimination replaces the loop guard `i op g` by a guard on the
// derived variable j = m * i + c against m * g + c.  The construction of the new guarded induction variable in
// optimize (crates/samlang-optimization/src/loop_induction_variable_elimination.rs, R14 block).
// Over the mathematical integers `i op g` is `m*i + c op m*g + c` for m > 0 and the MIRRORED comparison for m < 0.
use vstd::prelude::*;
use vstd::arithmetic::mul::*;
verus! {

global size_of usize == 8;

#[verifier::external_body]
#[derive(Clone, Copy)]
struct PStr { _p: u128 }
#[verifier::external_body]
#[derive(Clone, Copy)]
struct Type { _p: u8 }
/// R3: the named constant INT_32_TYPE
#[verifier::external_body]
fn int_32_type() -> (r: Type) { unimplemented!() }

//@extract crates/samlang-ast/src/mir.rs :: struct VariableName
//@attr #[derive(Clone, Copy)]
//@end
//@extract crates/samlang-ast/src/mir.rs :: enum Expression
//@attr #[derive(Clone, Copy)]
//@end
impl Expression {
  /// R3: `Expression::var_name(n, t)`
  #[verifier::external_body]
  fn var_name(name: PStr, type_: Type) -> (r: Expression) ensures r == Expression::Variable(VariableName { name, type_ }) { unimplemented!() }
}
//@extract crates/samlang-optimization/src/loop_induction_analysis.rs :: enum GuardOperator
//@attr #[derive(Clone, Copy)]
//@end
//@extract crates/samlang-optimization/src/loop_induction_analysis.rs :: enum PotentialLoopInvariantExpression
//@attr #[derive(Clone, Copy)]
//@end
//@extract crates/samlang-optimization/src/loop_induction_analysis.rs :: struct BasicInductionVariableWithLoopGuard
//@end
//@extract crates/samlang-optimization/src/loop_induction_analysis.rs :: struct DerivedInductionVariableWithName
//@end

spec fn holds(g: GuardOperator, a: int, b: int) -> bool {
  match g { GuardOperator::LT => a < b, GuardOperator::LE => a <= b, GuardOperator::GT => a > b, GuardOperator::GE => a >= b }
}
spec fn mirrored(g: GuardOperator) -> GuardOperator {
  match g { GuardOperator::LT => GuardOperator::GT, GuardOperator::LE => GuardOperator::GE, GuardOperator::GT => GuardOperator::LT, GuardOperator::GE => GuardOperator::LE }
}
/// the comparison that has to guard the derived variable
spec fn required_operator(op: GuardOperator, m: int) -> GuardOperator { if m > 0 { op } else { mirrored(op) } }

/// scaling both sides by a positive number keeps a comparison, by a negative number mirrors it (no wrap-around)
proof fn lemma_guard_on_the_derived_variable(op: GuardOperator, m: int, c: int, i: int, g: int)
  requires m != 0
  ensures holds(required_operator(op, m), m * i + c, m * g + c) == holds(op, i, g)  // :scaled_guard_is_the_original_guard
{
  if m > 0 {
    if i < g { lemma_mul_strict_inequality(i, g, m); lemma_mul_is_commutative(i, m); lemma_mul_is_commutative(g, m); }
    if i > g { lemma_mul_strict_inequality(g, i, m); lemma_mul_is_commutative(i, m); lemma_mul_is_commutative(g, m); }
  } else {
    let n = -m;
    assert(m * i == -(n * i) && m * g == -(n * g)) by (nonlinear_arith) requires n == -m;
    if i < g { lemma_mul_strict_inequality(i, g, n); lemma_mul_is_commutative(i, n); lemma_mul_is_commutative(g, n); }
    if i > g { lemma_mul_strict_inequality(g, i, n); lemma_mul_is_commutative(i, n); lemma_mul_is_commutative(g, n); }
  }
}

//@extractblock crates/samlang-optimization/src/loop_induction_variable_elimination.rs :: fn optimize
//@from let new_basic_induction_variable_with_loop_guard = BasicInductionVariableWithLoopGuard {
//@to name: new_guard_value_name, type_: INT_32_TYPE, }), };
//@replace* INT_32_TYPE => int_32_type() ## R3: named constant of the opaque type
//@wrap fn new_guarded_induction_variable(optimizable_while_loop_guard: &BasicInductionVariableWithLoopGuard, only_relevant_induction_loop_variables: &DerivedInductionVariableWithName, new_initial_value_name: PStr, new_guard_value_name: PStr, added_invariant_expression_in_loop: PotentialLoopInvariantExpression) -> (r: BasicInductionVariableWithLoopGuard)
//@contract
    ensures
      r.name == only_relevant_induction_loop_variables.name,
      r.guard_expression matches PotentialLoopInvariantExpression::Var(v) && v.name == new_guard_value_name,
      // the comparison of the new guard is right when the old one was `<` and the multiplier is a positive constant
      optimizable_while_loop_guard.guard_operator is LT
        && only_relevant_induction_loop_variables.multiplier is Int && only_relevant_induction_loop_variables.multiplier->Int_0 > 0
        ==> r.guard_operator == required_operator(optimizable_while_loop_guard.guard_operator, only_relevant_induction_loop_variables.multiplier->Int_0 as int),  // :new_guard_comparison_is_right_for_less_than_and_a_positive_constant_multiplier
      // .. and for every comparison and every (non-zero, known) multiplier
      only_relevant_induction_loop_variables.multiplier is Int && only_relevant_induction_loop_variables.multiplier->Int_0 != 0
        ==> r.guard_operator == required_operator(optimizable_while_loop_guard.guard_operator, only_relevant_induction_loop_variables.multiplier->Int_0 as int),  // :new_guard_comparison_is_right_for_every_comparison_and_multiplier
//@atend
  new_basic_induction_variable_with_loop_guard
//@end

proof fn canary_must_fail_ivelim() ensures false {}

} // verus!
fn main() {}
