// Unit `lexer` — C05 (no crash / no hang in the hand-written byte scanners) and C14 (the tracked
// line/column equals the position of the consumed offset in the text).
// crates/samlang-parser/src/lexer.rs, bodies extracted verbatim.
use vstd::prelude::*;
use vstd::utf8::encode_utf8;
verus! {

global size_of usize == 8;

//@extract crates/samlang-heap/src/lib.rs :: struct ModuleReference
//@attr #[derive(Clone, Copy)]
//@end
//@extract crates/samlang-ast/src/loc.rs :: struct Position
//@attr #[derive(Clone, Copy)]
//@end
//@extract crates/samlang-ast/src/loc.rs :: struct Location
//@attr #[derive(Clone, Copy)]
//@end

// ------------------------------------------------------------------------------------------
// Trusted boundary (R7): logos::Lexer is opaque.  Model: a fixed source text (bytes of a &str, so
// valid UTF-8) and an offset; `remainder()` is the text from the offset on; `bump(n)` advances by n
// bytes and panics unless n stays inside the text and lands on a char boundary (logos' documented
// behaviour).  The generated DFA (`next`, `slice`, `span`) is outside this unit.
#[verifier::external_body]
struct LogosLexer<'a> { _p: &'a str }

impl<'a> LogosLexer<'a> {
  uninterp spec fn src(&self) -> Seq<u8>;
  uninterp spec fn off(&self) -> int;
  spec fn rem(&self) -> Seq<u8> { self.src().skip(self.off()) }
  spec fn inv(&self) -> bool {
    0 <= self.off() <= self.src().len() && self.src().len() <= i32::MAX && valid_utf8_suffix(self.src(), self.off())
  }

  #[verifier::external_body]
  fn remainder(&self) -> (r: &'a str)
    requires self.inv()
    ensures encode_utf8(r@) == self.rem()
  { unimplemented!() }

  /// the bytes of the token logos has just produced (they end at the current offset); an error token
  /// never contains a newline (whitespace has been skipped before and is never part of a token)
  uninterp spec fn cur_len(&self) -> int;
  #[verifier::external_body]
  fn slice(&self) -> (r: &'a str)
    requires self.inv()
    ensures
      0 <= self.cur_len() <= self.off(),
      encode_utf8(r@) == self.src().subrange(self.off() - self.cur_len(), self.off()),
      forall|i: int| self.off() - self.cur_len() <= i < self.off() ==> self.src()[i] != 10u8,
  { unimplemented!() }

  #[verifier::external_body]
  fn bump(&mut self, n: usize)
    requires old(self).inv(), n <= old(self).rem().len(), is_boundary(old(self).rem(), n as int),
    ensures final(self).src() == old(self).src(), final(self).off() == old(self).off() + n, final(self).inv()
  { unimplemented!() }
}

/// offset n of b is a char boundary: the end, or not a UTF-8 continuation byte (10xxxxxx)
spec fn is_boundary(b: Seq<u8>, n: int) -> bool { n == b.len() || (0 <= n < b.len() && !(0x80 <= b[n] < 0xC0)) }
/// "the bytes of s from offset off on are the UTF-8 encoding of some string"
uninterp spec fn valid_utf8_suffix(s: Seq<u8>, off: int) -> bool;
/// Trusted UTF-8 fact: in well-formed UTF-8 the byte after an ASCII byte starts a new character
/// (a continuation byte only follows a lead or another continuation byte).
broadcast axiom fn axiom_after_ascii_is_boundary(s: Seq<u8>, off: int, n: int)
  requires valid_utf8_suffix(s, off), 0 <= off, 0 < n <= s.len() - off, s[off + n - 1] < 0x80
  ensures #[trigger] is_boundary(s.skip(off), n);
broadcast axiom fn axiom_zero_is_boundary(s: Seq<u8>, off: int)
  requires valid_utf8_suffix(s, off), 0 <= off <= s.len()
  ensures #[trigger] is_boundary(s.skip(off), 0);

// ------------------------------------------------------------------------------------------
// Position of a byte offset: line = number of '\n' before it, column = bytes since the last '\n'.
spec fn line_of(s: Seq<u8>, off: int) -> int
  decreases off
{
  if off <= 0 { 0 } else { line_of(s, off - 1) + (if s[off - 1] == 10u8 { 1int } else { 0int }) }
}
spec fn col_of(s: Seq<u8>, off: int) -> int
  decreases off
{
  if off <= 0 { 0 } else if s[off - 1] == 10u8 { 0 } else { col_of(s, off - 1) + 1 }
}

proof fn lemma_pos_bounds(s: Seq<u8>, off: int)
  requires 0 <= off <= s.len()
  ensures 0 <= line_of(s, off) <= off, 0 <= col_of(s, off) <= off
  decreases off
{
  if off > 0 { lemma_pos_bounds(s, off - 1); }
}

/// positions are monotone in the offset
proof fn lemma_pos_monotone(s: Seq<u8>, a: int, b: int)
  requires 0 <= a <= b <= s.len()
  ensures line_of(s, a) < line_of(s, b) || (line_of(s, a) == line_of(s, b) && col_of(s, a) <= col_of(s, b))
  decreases b - a
{
  if a < b { lemma_pos_monotone(s, a, b - 1); }
}

/// advancing over n bytes none of which is '\n' keeps the line and adds n columns
proof fn lemma_advance_no_newline(s: Seq<u8>, off: int, n: int)
  requires 0 <= off, 0 <= n, off + n <= s.len(), forall|i: int| off <= i < off + n ==> s[i] != 10u8
  ensures line_of(s, off + n) == line_of(s, off), col_of(s, off + n) == col_of(s, off) + n
  decreases n
{
  if n > 0 { lemma_advance_no_newline(s, off, n - 1); }
}

// Trusted std contract (documented set: space, \t, \n, form feed, \r)
pub assume_specification[ u8::is_ascii_whitespace ](c: &u8) -> (r: bool)
  ensures r == is_ws(*c);
pub open spec fn is_ws(c: u8) -> bool { c == 0x20 || c == 0x09 || c == 0x0A || c == 0x0C || c == 0x0D }

// Trusted std contracts missing from vstd
pub assume_specification[ String::len ](s: &String) -> (r: usize)
  ensures r == encode_utf8(s@).len();

// R3 stubs for str / String helpers that vstd does not specify.  Patterns are ASCII, so matching
// the pattern at the start of the str is matching its bytes.
#[verifier::external_body]
fn str_starts_with_byte(s: &str, c: u8) -> (b: bool)
  requires c < 0x80
  ensures b == (encode_utf8(s@).len() >= 1 && encode_utf8(s@)[0] == c)
{ unimplemented!() }
#[verifier::external_body]
fn str_starts_with_2bytes(s: &str, c1: u8, c2: u8) -> (b: bool)
  requires c1 < 0x80, c2 < 0x80
  ensures b == (encode_utf8(s@).len() >= 2 && encode_utf8(s@)[0] == c1 && encode_utf8(s@)[1] == c2)
{ unimplemented!() }
/// `&s[..n]` on a str: panics unless n is in range and on a char boundary
/// (std: `is_char_boundary(n)` = n == len or byte n is not a continuation byte 10xxxxxx)
#[verifier::external_body]
fn str_prefix(s: &str, n: usize) -> (r: &str)
  requires n <= encode_utf8(s@).len(), is_boundary(encode_utf8(s@), n as int)
  ensures encode_utf8(r@) == encode_utf8(s@).subrange(0, n as int)
{ unimplemented!() }
/// `String::from_utf8_lossy(bytes).trim().to_string()` — total on every byte slice
#[verifier::external_body]
fn lossy_trimmed_string(bytes: &[u8]) -> String { unimplemented!() }

uninterp spec fn valid_utf8_bytes(b: Seq<u8>) -> bool;
/// Trusted UTF-8 fact: well-formed UTF-8 cut at a char boundary is well-formed
broadcast axiom fn axiom_prefix_at_boundary_is_valid(s: Seq<u8>, off: int, n: int)
  requires valid_utf8_suffix(s, off), 0 <= off, 0 <= n <= s.len() - off, is_boundary(s.skip(off), n)
  ensures #[trigger] valid_utf8_bytes(s.skip(off).take(n));
/// `String::from_utf8(bytes.to_vec()).unwrap()`: panics unless the bytes are well-formed UTF-8
#[verifier::external_body]
fn string_from_utf8_unwrap(bytes: &[u8]) -> String
  requires valid_utf8_bytes(bytes@)
{ unimplemented!() }

/// `post_process_block_comment(&String::from_utf8_lossy(bytes))` — lossy decoding, then an iterator
/// chain over lines (split / trim / filter / join); total on every byte slice
#[verifier::external_body]
fn post_process_lossy(bytes: &[u8]) -> String { unimplemented!() }

/// start <= end in the (line, column) order
spec fn pos_le(a: Position, b: Position) -> bool { a.0 < b.0 || (a.0 == b.0 && a.1 <= b.1) }

//@extract crates/samlang-parser/src/lexer.rs :: struct WrappedLogosLexer
//@replace logos::Lexer<'a, LogosToken> => LogosLexer<'a> ## R7: the logos lexer is an opaque type with the contract above
//@end

impl<'a> WrappedLogosLexer<'a> {
  /// the tracked position is the position of the consumed offset
  spec fn pos_ok(&self) -> bool {
    &&& self.lexer.inv()
    &&& self.position.0 == line_of(self.lexer.src(), self.lexer.off())
    &&& self.position.1 == col_of(self.lexer.src(), self.lexer.off())
  }
  /// the tracked position is the position of offset `off + k` (used while a scanner runs ahead of the lexer)
  spec fn pos_at(&self, k: int) -> bool {
    &&& self.position.0 == line_of(self.lexer.src(), self.lexer.off() + k)
    &&& self.position.1 == col_of(self.lexer.src(), self.lexer.off() + k)
  }

//@extract crates/samlang-parser/src/lexer.rs :: impl<'a> WrappedLogosLexer<'a> / fn next_n_column
//@contract
    requires
      old(self).position.1 + n <= u32::MAX,
    ensures
      final(self).position.1 == old(self).position.1 + n,  // :column_advances_by_n
      final(self).position.0 == old(self).position.0,      // :line_unchanged
      final(self).lexer == old(self).lexer, final(self).module_reference == old(self).module_reference,
//@end

//@extract crates/samlang-parser/src/lexer.rs :: impl<'a> WrappedLogosLexer<'a> / fn next_line_or_column
//@contract
    requires
      old(self).position.0 < u32::MAX, old(self).position.1 < u32::MAX,
    ensures
      c == 10u8 ==> final(self).position.0 == old(self).position.0 + 1 && final(self).position.1 == 0,  // :newline_starts_next_line_at_column_0
      c != 10u8 ==> final(self).position.0 == old(self).position.0 && final(self).position.1 == old(self).position.1 + 1,  // :other_byte_advances_column
      final(self).lexer == old(self).lexer, final(self).module_reference == old(self).module_reference,
//@end

//@extract crates/samlang-parser/src/lexer.rs :: impl<'a> WrappedLogosLexer<'a> / fn loc_of_advance
//@ret r
//@contract
    requires
      old(self).position.1 + len <= u32::MAX,
    ensures
      r.start == old(self).position && r.end == final(self).position,   // :location_spans_old_to_new_position
      r.module_reference == old(self).module_reference,
      final(self).position.0 == old(self).position.0 && final(self).position.1 == old(self).position.1 + len,  // :column_advances_by_len
      final(self).lexer == old(self).lexer, final(self).module_reference == old(self).module_reference,
//@end

//@extract crates/samlang-parser/src/lexer.rs :: impl<'a> WrappedLogosLexer<'a> / fn skip_whitespace
//@contract
    requires
      old(self).pos_ok(),
    ensures
      final(self).pos_ok(),                                                    // :position_tracks_consumed_offset
      final(self).lexer.src() == old(self).lexer.src(),                        // :same_text
      old(self).lexer.off() <= final(self).lexer.off(),                        // :only_moves_forward
      forall|i: int| old(self).lexer.off() <= i < final(self).lexer.off() ==> is_ws(old(self).lexer.src()[i]),  // :only_whitespace_skipped
      final(self).module_reference == old(self).module_reference,
//@loop 0 iter=it
      invariant_except_break
        bump_counter == it.index(),
      invariant
        self.lexer == old(self).lexer,
        self.module_reference == old(self).module_reference,
        old(self).pos_ok(),
        it.seq().len() == old(self).lexer.rem().len(),
        forall|j: int| 0 <= j < it.seq().len() ==> *(#[trigger] it.seq()[j]) == old(self).lexer.rem()[j],
        bump_counter <= old(self).lexer.rem().len(),
        self.pos_at(bump_counter as int),
        forall|i: int| 0 <= i < bump_counter ==> is_ws(#[trigger] old(self).lexer.rem()[i]),
//@before if c.is_ascii_whitespace() {
      proof {
        let s = old(self).lexer.src(); let o = old(self).lexer.off();
        assert(*c == old(self).lexer.rem()[bump_counter as int]);
        assert(*c == s[o + bump_counter]);
        lemma_pos_bounds(s, o + bump_counter);
      }
//@before self.lexer.bump(bump_counter);
    proof {
      broadcast use axiom_after_ascii_is_boundary, axiom_zero_is_boundary;
      let s = old(self).lexer.src(); let o = old(self).lexer.off();
      if bump_counter > 0 { assert(is_ws(old(self).lexer.rem()[bump_counter - 1])); assert(s[o + bump_counter - 1] < 0x80); }
      assert forall|i: int| o <= i < o + bump_counter implies is_ws(s[i]) by { assert(is_ws(old(self).lexer.rem()[i - o])); }
    }
//@end

//@extract crates/samlang-parser/src/lexer.rs :: impl<'a> WrappedLogosLexer<'a> / fn lex_line_comment_opt
//@ret r
//@replace remainder.starts_with("//") => str_starts_with_2bytes(remainder, b'/', b'/') ## R3: ASCII pattern at the start of a str = its first bytes
//@replace String::from_utf8_lossy(&bytes_remainder[2..bump_counter]).trim().to_string() => lossy_trimmed_string(&bytes_remainder[2..bump_counter]) ## R3: lossy decoding + trim is total; the slice expression (and its bounds check) is kept
//@contract
    requires
      old(self).pos_ok(),
    ensures
      r is None ==> *final(self) == *old(self),                                // :no_token_no_state_change
      r is Some ==> {
        let loc = r->Some_0.0;
        &&& final(self).pos_ok()                                               // (position tracks consumed offset)
        &&& final(self).lexer.src() == old(self).lexer.src()
        &&& final(self).lexer.off() >= old(self).lexer.off() + 2               // (progress)
        &&& loc.start == old(self).position && loc.end == final(self).position
        &&& loc.module_reference == old(self).module_reference
        &&& pos_le(loc.start, loc.end)
        &&& forall|i: int| old(self).lexer.off() <= i < final(self).lexer.off() ==> old(self).lexer.src()[i] != 10u8
      },                                                                       // :comment_token_location_is_faithful
      final(self).module_reference == old(self).module_reference,
//@loop 0 iter=it
      invariant_except_break
        bump_counter == it.index() + 2,
      invariant
        self.lexer == old(self).lexer, self.position == old(self).position, self.module_reference == old(self).module_reference,
        old(self).pos_ok(),
        bytes_remainder@ == old(self).lexer.rem(),
        it.seq().len() == bytes_remainder@.len() - 2,
        forall|j: int| 0 <= j < it.seq().len() ==> *(#[trigger] it.seq()[j]) == bytes_remainder@[j + 2],
        2 <= bump_counter <= bytes_remainder@.len(),
        forall|i: int| 2 <= i < bump_counter ==> bytes_remainder@[i] != 10u8,
      ensures
        bump_counter == bytes_remainder@.len() || bytes_remainder@[bump_counter as int] == 10u8,
//@before let string =
    proof {
      let s = old(self).lexer.src(); let o = old(self).lexer.off();
      assert forall|i: int| o <= i < o + bump_counter implies s[i] != 10u8 by {
        assert(s[i] == bytes_remainder@[i - o]);
      }
      lemma_advance_no_newline(s, o, bump_counter as int);
      lemma_pos_bounds(s, o + bump_counter);
    }
//@end

//@extract crates/samlang-parser/src/lexer.rs :: impl<'a> WrappedLogosLexer<'a> / fn lex_str_lit_opt
//@ret r
//@replace remainder.starts_with('"') => str_starts_with_byte(remainder, b'"') ## R3: ASCII pattern at the start of a str = its first byte
//@replace String::from_utf8(remainder_bytes[..(pos + 1)].to_vec()).unwrap() => string_from_utf8_unwrap(&remainder_bytes[..(pos + 1)]) ## R3: the unwrap becomes a precondition (bytes are well-formed UTF-8); the slice expression is kept
//@contract
    requires
      old(self).pos_ok(),
    ensures
      r is None ==> *final(self) == *old(self),                                // :no_token_no_state_change
      r is Some ==> {
        let loc = r->Some_0.0;
        &&& final(self).pos_ok()
        &&& final(self).lexer.src() == old(self).lexer.src()
        &&& final(self).lexer.off() >= old(self).lexer.off() + 2
        &&& loc.start == old(self).position && loc.end == final(self).position
        &&& loc.module_reference == old(self).module_reference
        &&& pos_le(loc.start, loc.end)
        &&& old(self).lexer.src()[old(self).lexer.off()] == 0x22u8 && old(self).lexer.src()[final(self).lexer.off() - 1] == 0x22u8
        &&& forall|i: int| old(self).lexer.off() <= i < final(self).lexer.off() ==> old(self).lexer.src()[i] != 10u8
      },                                                                       // :string_token_location_is_faithful
      r is Some ==> forall|i: int| old(self).lexer.off() < i < final(self).lexer.off() - 1 && #[trigger] old(self).lexer.src()[i] == 0x22u8
        ==> old(self).lexer.src()[i - 1] == 0x5cu8,                             // :interior_quotes_are_escaped
      final(self).module_reference == old(self).module_reference,
//@loop 0
      invariant
        *self == *old(self),
        old(self).pos_ok(),
        remainder_bytes@ == old(self).lexer.rem(),
        start == old(self).position,
        1 <= pos,
        remainder_bytes@.len() >= 1 && remainder_bytes@[0] == 0x22u8,
        forall|i: int| 0 <= i < pos && i < remainder_bytes@.len() ==> remainder_bytes@[i] != 10u8,
        forall|i: int| 1 <= i < pos && i < remainder_bytes@.len() && #[trigger] remainder_bytes@[i] == 0x22u8 ==> remainder_bytes@[i - 1] == 0x5cu8,  // :interior_quotes_are_escaped_so_far
      decreases remainder_bytes@.len() - pos,
//@loop 1 iter=it
          invariant_except_break
            escape_count == it.index(),
            forall|j: int| 0 <= j < it.seq().len() ==> #[trigger] it.seq()[j] == pos - 1 - j,
          invariant
            escape_count > 0 ==> remainder_bytes@[pos - 1] == 0x5cu8,  // :counted_quotes_escape_starts_right_before_the_quote
            0 <= escape_count <= it.index(),
            it.index() <= it.seq().len(),
            it.seq().len() == pos - 1,
            forall|j: int| 0 <= j < it.seq().len() ==> 1 <= #[trigger] it.seq()[j] < pos,
            pos < remainder_bytes@.len() <= i32::MAX,
//@before let string =
          proof {
            broadcast use axiom_after_ascii_is_boundary, axiom_prefix_at_boundary_is_valid;
            let s = old(self).lexer.src(); let o = old(self).lexer.off();
            assert(s[o + pos] == remainder_bytes@[pos as int]);
            assert(is_boundary(s.skip(o), pos + 1));
            assert(remainder_bytes@.subrange(0, pos + 1) == s.skip(o).take(pos + 1));
            assert forall|i: int| o <= i < o + pos + 1 implies s[i] != 10u8 by { assert(s[i] == remainder_bytes@[i - o]); }
            assert forall|i: int| o < i < o + pos && #[trigger] s[i] == 0x22u8 implies s[i - 1] == 0x5cu8 by {
              assert(s[i] == remainder_bytes@[i - o]); assert(s[i - 1] == remainder_bytes@[i - o - 1]);
            }
            lemma_advance_no_newline(s, o, pos + 1);
            lemma_pos_bounds(s, o + pos + 1);
          }
//@end

//@extract crates/samlang-parser/src/lexer.rs :: impl<'a> WrappedLogosLexer<'a> / fn lex_block_comment_opt
//@ret r
//@dropnested fn post_process_block_comment
//@replace remainder.starts_with("/*") => str_starts_with_2bytes(remainder, b'/', b'*') ## R3: ASCII pattern at the start of a str = its first bytes
//@replace post_process_block_comment(&String::from_utf8_lossy(&chars[3..(chars.len() - 2)])) => post_process_lossy(&chars[3..(chars.len() - 2)]) ## R3: nested helper (iterator chain over lines) + lossy decoding are total; the slice expression is kept
//@replace post_process_block_comment(&String::from_utf8_lossy(&chars[2..(chars.len() - 2)])) => post_process_lossy(&chars[2..(chars.len() - 2)]) ## R3: nested helper (iterator chain over lines) + lossy decoding are total; the slice expression is kept
//@contract
    requires
      old(self).pos_ok(),
    ensures
      r is None ==> *final(self) == *old(self),                                // :no_token_no_state_change
      r is Some ==> {
        let loc = r->Some_0.1;
        &&& final(self).pos_ok()
        &&& final(self).lexer.src() == old(self).lexer.src()
        &&& final(self).lexer.off() >= old(self).lexer.off() + 4
        &&& loc.start == old(self).position && loc.end == final(self).position
        &&& loc.module_reference == old(self).module_reference
        &&& pos_le(loc.start, loc.end)
      },                                                                       // :comment_token_location_is_faithful
      final(self).module_reference == old(self).module_reference,
//@loop 0
      invariant
        self.lexer == old(self).lexer, self.module_reference == old(self).module_reference,
        old(self).pos_ok(),
        saved_position == old(self).position, start == old(self).position,
        remainder_bytes@ == old(self).lexer.rem(),
        2 <= comment_length <= remainder_bytes@.len(),
        remainder_bytes@[0] == 0x2Fu8 && remainder_bytes@[1] == 0x2Au8,
        self.pos_at(comment_length as int),
      ensures
        self.lexer == old(self).lexer, self.module_reference == old(self).module_reference,
        4 <= comment_length <= remainder_bytes@.len(),
        remainder_bytes@[comment_length - 2] == 0x2Au8 && remainder_bytes@[comment_length - 1] == 0x2Fu8,
        self.pos_at(comment_length as int),
      decreases remainder_bytes@.len() - comment_length,
//@before#1 self.next_n_column(2);
    proof {
      let s = old(self).lexer.src(); let o = old(self).lexer.off();
      assert(s[o] == remainder_bytes@[0] && s[o + 1] == remainder_bytes@[1]);
      assert forall|i: int| o <= i < o + 2 implies s[i] != 10u8 by {}
      lemma_advance_no_newline(s, o, 2);
      lemma_pos_bounds(s, o + 2);
    }
//@before if c == b'*' && remainder_bytes[comment_length + 1] == b'/' {
      let ghost s = old(self).lexer.src(); let ghost o = old(self).lexer.off();
      proof {
        assert(s[o + comment_length] == remainder_bytes@[comment_length as int]);
        assert(s[o + comment_length + 1] == remainder_bytes@[comment_length + 1]);
        lemma_pos_bounds(s, o + comment_length);
      }
//@before comment_length += 2;
        proof {
          assert forall|i: int| o + comment_length <= i < o + comment_length + 2 implies s[i] != 10u8 by {}
          lemma_advance_no_newline(s, o + comment_length, 2);
          lemma_pos_bounds(s, o + comment_length + 2);
        }
//@before self.lexer.bump(comment_length);
    proof {
      broadcast use axiom_after_ascii_is_boundary;
      let s = old(self).lexer.src(); let o = old(self).lexer.off();
      assert(s[o + comment_length - 1] == remainder_bytes@[comment_length - 1]);
      lemma_pos_bounds(s, o + comment_length);
      lemma_pos_monotone(s, o, o + comment_length);
    }
//@end

  /// the tracked position is the position of the start of the token logos has just produced
  spec fn pos_at_token_start(&self) -> bool {
    &&& self.lexer.inv()
    &&& self.position.0 == line_of(self.lexer.src(), self.lexer.off() - self.lexer.cur_len())
    &&& self.position.1 == col_of(self.lexer.src(), self.lexer.off() - self.lexer.cur_len())
  }

// R14: the error-token resynchronisation block of `next_token` (the arm `Err(()) => { .. }`), from its
// first statement up to and including the bump; `next_token` itself also drives logos, the heap and
// the error set and is not extracted.
//@extractblock crates/samlang-parser/src/lexer.rs :: impl<'a> WrappedLogosLexer<'a> / fn next_token
//@from let start = self.position;
//@to self.lexer.bump(skip_count);
//@wrap fn resync_after_error_token(&mut self)
//@replace &self.lexer.remainder()[..skip_count] => str_prefix(self.lexer.remainder(), skip_count) ## R3: str slicing `&s[..n]` with std's documented panic condition (range, char boundary) as precondition
//@contract
    requires
      old(self).pos_at_token_start(),
    ensures
      final(self).pos_ok(),                                                    // :position_tracks_consumed_offset
      final(self).lexer.src() == old(self).lexer.src(),
      old(self).lexer.off() <= final(self).lexer.off(),                        // :only_moves_forward
      forall|i: int| old(self).lexer.off() <= i < final(self).lexer.off() ==> !is_ws(old(self).lexer.src()[i]),  // :stops_at_the_first_whitespace
      final(self).module_reference == old(self).module_reference,
//@after let mut content = self.lexer.slice().to_string();
        proof {
          let s0 = old(self).lexer.src(); let o = old(self).lexer.off(); let n = old(self).lexer.cur_len();
          assert(encode_utf8(content@).len() == n);
          lemma_advance_no_newline(s0, o - n, n);
          lemma_pos_bounds(s0, o);
        }
//@loop 0 iter=it
          invariant_except_break
            skip_count == it.index(),
          invariant
            self.lexer == old(self).lexer, self.module_reference == old(self).module_reference,
            old(self).lexer.inv(),
            it.seq().len() == old(self).lexer.rem().len(),
            forall|j: int| 0 <= j < it.seq().len() ==> *(#[trigger] it.seq()[j]) == old(self).lexer.rem()[j],
            0 <= skip_count <= old(self).lexer.rem().len(),
            forall|i: int| 0 <= i < skip_count ==> !is_ws(#[trigger] old(self).lexer.rem()[i]),
          ensures
            skip_count == old(self).lexer.rem().len() || is_ws(old(self).lexer.rem()[skip_count as int]),
//@before content.push_str(&self.lexer.remainder()[..skip_count]);
        proof {
          let s0 = old(self).lexer.src(); let o = old(self).lexer.off();
          // an ASCII whitespace byte (or the end) is a char boundary
          assert(is_boundary(old(self).lexer.rem(), skip_count as int));
          assert forall|i: int| o <= i < o + skip_count implies s0[i] != 10u8 by { assert(!is_ws(old(self).lexer.rem()[i - o])); }
          lemma_advance_no_newline(s0, o, skip_count as int);
          lemma_pos_bounds(s0, o + skip_count);
          assert forall|i: int| o <= i < o + skip_count implies !is_ws(s0[i]) by { assert(!is_ws(old(self).lexer.rem()[i - o])); }
        }
//@end
}

proof fn canary_must_fail_lexer() ensures false { broadcast use axiom_after_ascii_is_boundary, axiom_zero_is_boundary; }

} // verus!
fn main() {}
