// Unit `licm` — C02 kernel: loop-invariant code motion never moves an operation that can trap in front of the loop.
// The `Statement::Binary` arm of optimize in crates/samlang-optimization/src/loop_invariant_code_motion.rs (R14 block).
// In front of the loop a statement also runs when the loop body never does (the guard breaks at once): a hoisted
// `a / b` would introduce a division-by-zero trap into a run that had none.
use vstd::prelude::*;
use std::collections::HashSet;
verus! {

global size_of usize == 8;

//@extract crates/samlang-ast/src/hir.rs :: enum BinaryOperator
//@attr #[derive(Clone, Copy, PartialEq, Eq, Structural)]
//@end

#[verifier::external_body]
#[derive(Clone, Copy)]
struct PStr { _p: u128 }
#[verifier::external]
impl PartialEq for PStr { fn eq(&self, other: &Self) -> bool { unimplemented!() } }
#[verifier::external]
impl Eq for PStr {}
#[verifier::external]
impl std::hash::Hash for PStr { fn hash<H: std::hash::Hasher>(&self, state: &mut H) { unimplemented!() } }
#[verifier::external_body]
#[derive(Clone, Copy)]
struct Type { _p: u8 }

//@extract crates/samlang-ast/src/mir.rs :: struct VariableName
//@attr #[derive(Clone, Copy)]
//@end
//@extract crates/samlang-ast/src/mir.rs :: enum Expression
//@attr #[derive(Clone, Copy)]
//@end
//@extract crates/samlang-ast/src/mir.rs :: struct Binary
//@replace hir::BinaryOperator => BinaryOperator ## R1: module path of the extracted enum
//@end
/// R6: the statement type reduced to the variant this arm handles and an opaque rest
enum Statement {
  Binary(Binary),
  Other(u8),
}

spec fn can_trap(op: BinaryOperator) -> bool { op == BinaryOperator::DIV || op == BinaryOperator::MOD }
spec fn invariant(e: Expression, changed_by_the_loop: Set<PStr>) -> bool {
  !(e is Variable && changed_by_the_loop.contains(e->Variable_0.name))
}
/// contract of the real expression_is_loop_invariant (`expr.as_variable().map(|v| !set.contains(&v.name)).unwrap_or(true)`)
#[verifier::external_body]
fn expression_is_loop_invariant(expr: &Expression, non_loop_invariant_variables: &HashSet<PStr>) -> (r: bool)
  ensures r == invariant(*expr, non_loop_invariant_variables@)
{ unimplemented!() }

//@extractblock crates/samlang-optimization/src/loop_invariant_code_motion.rs :: fn optimize
//@from Statement::Binary(b) => { if b.operator != BinaryOperator::DIV
//@to non_loop_invariant_variables.insert(b.name); inner_stmts.push(stmt); } }
//@replace Statement::Binary(b) => { ==>> match &stmt { Statement::Binary(b) => { ## R14: the arm header is part of the anchor; the arm is put back into a match on the statement (the enclosing match of the real function)
//@wrap fn licm_binary_arm(stmt: Statement, hoisted_stmts: &mut Vec<Statement>, inner_stmts: &mut Vec<Statement>, non_loop_invariant_variables: &mut HashSet<PStr>)
//@contract
    requires
      vstd::std_specs::hash::obeys_key_model::<PStr>(),
      stmt is Binary,
    ensures
      // the statement goes to exactly one of the two lists ..
      (final(hoisted_stmts)@ == old(hoisted_stmts)@.push(stmt) && final(inner_stmts)@ == old(inner_stmts)@
        && final(non_loop_invariant_variables)@ == old(non_loop_invariant_variables)@)
      || (final(hoisted_stmts)@ == old(hoisted_stmts)@ && final(inner_stmts)@ == old(inner_stmts)@.push(stmt)
        && final(non_loop_invariant_variables)@ == old(non_loop_invariant_variables)@.insert(stmt->Binary_0.name)),  // :statement_is_hoisted_or_kept_and_then_its_name_changes_in_the_loop
      // .. and in front of the loop only if it cannot trap and reads nothing the loop changes
      final(hoisted_stmts)@.len() > old(hoisted_stmts)@.len() ==> !can_trap(stmt->Binary_0.operator)
        && invariant(stmt->Binary_0.e1, old(non_loop_invariant_variables)@)
        && invariant(stmt->Binary_0.e2, old(non_loop_invariant_variables)@),  // :only_non_trapping_loop_invariant_operations_are_hoisted
//@atend
  _ => {} }
//@end

proof fn canary_must_fail_licm() ensures false {}

} // verus!
fn main() {}
