// Unit `litgate` — C06, one clause only: "an integer literal outside the 32-bit range is reported".
// TokenProducer::process_raw_token of crates/samlang-parser/src/lexer.rs, body extracted verbatim.
use vstd::prelude::*;
verus! {

global size_of usize == 8;

//@extract crates/samlang-heap/src/lib.rs :: struct ModuleReference
//@attr #[derive(Clone, Copy, PartialEq, Eq)]
//@end
//@extract crates/samlang-ast/src/loc.rs :: struct Position
//@attr #[derive(Clone, Copy)]
//@end
//@extract crates/samlang-ast/src/loc.rs :: struct Location
//@attr #[derive(Clone, Copy)]
//@end
//@extract crates/samlang-parser/src/lexer.rs :: enum Keyword
//@attr #[derive(Clone, Copy)]
//@end
//@extract crates/samlang-parser/src/lexer.rs :: enum TokenOp
//@attr #[derive(Clone, Copy)]
//@end
//@extract crates/samlang-parser/src/lexer.rs :: enum TokenContent
//@attr #[derive(Clone, Copy)]
//@end
//@extract crates/samlang-parser/src/lexer.rs :: struct Token
//@attr #[derive(Clone, Copy)]
//@end

// ---- R7: opaque collaborators
/// interned string handle; `text(p)` is the string it denotes in the heap at hand
#[verifier::external_body]
#[derive(Clone, Copy)]
struct PStr { _p: u128 }
#[verifier::external_body]
struct Heap { _p: u8 }
#[verifier::external_body]
struct ErrorSet { _p: u8 }
#[verifier::external_body]
struct WrappedLogosLexer<'a> { _p: &'a str }

uninterp spec fn text(p: PStr) -> Seq<char>;
/// the number of errors reported so far
uninterp spec fn error_count(e: &ErrorSet) -> nat;
/// the mathematical value of a decimal numeral (None: not a numeral)
uninterp spec fn decimal_value(s: Seq<char>) -> Option<int>;
/// numeral with a leading minus sign
spec fn negated_text(s: Seq<char>) -> Seq<char> { seq!['-'].add(s) }
broadcast axiom fn axiom_negated_numeral(s: Seq<char>)
  ensures decimal_value(s) is Some ==> #[trigger] decimal_value(negated_text(s)) == Some(-(decimal_value(s)->Some_0));

impl PStr {
  #[verifier::external_body]
  fn as_str<'a>(&'a self, heap: &'a Heap) -> (r: &'a str) ensures r@ == text(*self) { unimplemented!() }
}
impl Heap {
  /// contract of Heap::alloc_string as proved in unit heap (the handle reads back the string)
  #[verifier::external_body]
  fn alloc_string(&mut self, string: String) -> (p: PStr) ensures text(p) == string@ { unimplemented!() }
}
impl ErrorSet {
  #[verifier::external_body]
  fn report_invalid_syntax_error(&mut self, loc: Location, reason: String)
    ensures error_count(final(self)) == error_count(old(self)) + 1
  { unimplemented!() }
}
/// R3: `s.parse::<i64>()` — Ok exactly for decimal numerals whose value fits i64 (the lexer only
/// produces `0|[1-9][0-9]*`, so sign and blanks do not occur)
#[verifier::external_body]
fn parse_i64(s: &str) -> (r: Result<i64, ()>)
  ensures match r {
    Ok(v) => decimal_value(s@) == Some(v as int),
    Err(_) => decimal_value(s@) is None || decimal_value(s@)->Some_0 > i64::MAX,
  }
{ unimplemented!() }
/// R3: format!("-{s}")
#[verifier::external_body]
fn format_negated(s: &str) -> (r: String) ensures r@ == negated_text(s@) { unimplemented!() }
#[verifier::external_body]
fn not_a_32_bit_integer_message() -> String { unimplemented!() }

impl Location {
//@extract crates/samlang-ast/src/loc.rs :: impl Location / fn union
//@ret r
//@replace assert!(self.module_reference == other.module_reference); => runtime_assert(self.module_reference.0 == other.module_reference.0); ## R3: the assertion becomes a call whose precondition is the asserted condition (derived PartialEq on a one-field tuple struct compares that field)
//@replace* self.start < other.start => pos_lt(self.start, other.start) ## R12: derived PartialOrd on Position written as the lexicographic comparison it derives to (proved equal by Kani unit loc)
//@replace* self.end > other.end => pos_lt(other.end, self.end) ## R12: derived PartialOrd on Position written as the lexicographic comparison it derives to (proved equal by Kani unit loc)
//@contract
    requires self.module_reference == other.module_reference,
    ensures r.module_reference == self.module_reference,
//@end
}
fn runtime_assert(b: bool) requires b {}
fn pos_lt(a: Position, b: Position) -> (r: bool)
  ensures r == (a.0 < b.0 || (a.0 == b.0 && a.1 < b.1))
{ a.0 < b.0 || (a.0 == b.0 && a.1 < b.1) }

//@extract crates/samlang-parser/src/lexer.rs :: struct TokenProducer
//@end

/// the literal a token denotes, if it is an integer literal
spec fn literal_value(t: Token) -> Option<int> {
  match t.1 {
    TokenContent::IntLiteral(p) => decimal_value(text(p)),
    _ => None,
  }
}
spec fn is_int_literal(t: Token) -> bool { t.1 is IntLiteral }
spec fn in_i32(v: int) -> bool { i32::MIN <= v <= i32::MAX }

impl<'a> TokenProducer<'a> {
//@extract crates/samlang-parser/src/lexer.rs :: impl<'a> TokenProducer<'a> / fn process_raw_token
//@ret r
//@replace s.parse::<i64>() => parse_i64(s) ## R3: str::parse::<i64> on a decimal numeral
//@replace* "Not a 32-bit integer.".to_string() => not_a_32_bit_integer_message() ## R3: message text
//@replace format!("-{s}") => format_negated(s) ## R3: the numeral with a minus sign in front
//@letchain if i64 == maxi32_plus1 && let Option::Some(Token(prev_loc, TokenContent::Operator(TokenOp::Minus))) = &self.pending
//@contract
    requires
      // every token of one producer comes from the same module
      old(self).pending is Some ==> old(self).pending->Some_0.0.module_reference == token.0.module_reference,
      // the lexer only produces numerals for IntLiteral tokens
      is_int_literal(token) ==> literal_value(token) is Some && literal_value(token)->Some_0 >= 0,
    ensures
      // C06: once the token has been processed, either an error has been reported, or the literal
      // that will reach the parser (the returned token, or the merged pending token) is a 32-bit value
      is_int_literal(token) && error_count(final(error_set)) == error_count(old(error_set)) ==> (match r {
        Some(t) => literal_value(t) is Some && in_i32(literal_value(t)->Some_0),
        None => final(self).pending is Some && literal_value(final(self).pending->Some_0) == Some(i32::MIN as int),
      }),  // :out_of_range_literal_is_reported
      // the merge happens only for `-` directly followed by 2147483648
      r is None ==> is_int_literal(token) && literal_value(token) == Some(0x8000_0000int)
        && old(self).pending is Some && old(self).pending->Some_0.1 == TokenContent::Operator(TokenOp::Minus),  // :merge_only_minus_and_2_pow_31
      // any other token is passed through untouched and nothing is reported
      !is_int_literal(token) ==> r == Some(token) && error_count(final(error_set)) == error_count(old(error_set))
        && final(self).pending == old(self).pending,  // :other_tokens_pass_through
      error_count(final(error_set)) >= error_count(old(error_set)),
//@before match token {
    proof { broadcast use axiom_negated_numeral; }
//@end
}

proof fn canary_must_fail_litgate() ensures false { broadcast use axiom_negated_numeral; }

} // verus!
fn main() {}
