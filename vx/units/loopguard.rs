// Unit `loopguard` — C02 kernel: what the loop optimisations take for a loop's guard.
// A loop `cc = i op bound; if (cc xor invert) break; ...` is recognised by extract_loop_guard_structure
// (crates/samlang-optimization/src/loop_induction_analysis.rs).  Its result must say exactly when the loop
// keeps running: `i guard_operator guard_expression`, with `i` the LEFT operand of the comparison and the bound
// a loop-invariant value.  get_guard_operator, GuardOperator::invert, get_loop_invariant_expression_opt verbatim;
// the arm of extract_loop_guard_structure that builds the result as an R14 block.
use vstd::prelude::*;
use std::collections::HashSet;
verus! {

global size_of usize == 8;

//@extract crates/samlang-ast/src/hir.rs :: enum BinaryOperator
//@attr #[derive(Clone, Copy, PartialEq, Eq, Structural)]
//@end

#[verifier::external_body]
#[derive(Clone, Copy)]
struct PStr { _p: u128 }
#[verifier::external]
impl PartialEq for PStr { fn eq(&self, other: &Self) -> bool { unimplemented!() } }
#[verifier::external]
impl Eq for PStr {}
#[verifier::external]
impl std::hash::Hash for PStr { fn hash<H: std::hash::Hasher>(&self, state: &mut H) { unimplemented!() } }
#[verifier::external_body]
#[derive(Clone, Copy)]
struct Type { _p: u8 }

//@extract crates/samlang-ast/src/mir.rs :: struct VariableName
//@attr #[derive(Clone, Copy)]
//@end
//@extract crates/samlang-ast/src/mir.rs :: enum Expression
//@attr #[derive(Clone, Copy)]
//@end
//@extract crates/samlang-optimization/src/loop_induction_analysis.rs :: enum GuardOperator
//@attr #[derive(Clone, Copy)]
//@end
//@extract crates/samlang-optimization/src/loop_induction_analysis.rs :: enum PotentialLoopInvariantExpression
//@end
//@extract crates/samlang-optimization/src/loop_induction_analysis.rs :: struct LoopGuardStructure
//@end

// ---- meaning
type Env = spec_fn(PStr) -> int;
spec fn guard_holds(g: GuardOperator, a: int, b: int) -> bool {
  match g { GuardOperator::LT => a < b, GuardOperator::LE => a <= b, GuardOperator::GT => a > b, GuardOperator::GE => a >= b }
}
spec fn comparison(op: BinaryOperator, a: int, b: int) -> bool {
  match op { BinaryOperator::LT => a < b, BinaryOperator::LE => a <= b, BinaryOperator::GT => a > b, BinaryOperator::GE => a >= b, _ => arbitrary() }
}
spec fn is_ordering(op: BinaryOperator) -> bool {
  op == BinaryOperator::LT || op == BinaryOperator::LE || op == BinaryOperator::GT || op == BinaryOperator::GE
}
spec fn invariant_value(e: PotentialLoopInvariantExpression, env: Env) -> int {
  match e { PotentialLoopInvariantExpression::Int(i) => i as int, PotentialLoopInvariantExpression::Var(v) => env(v.name) }
}
uninterp spec fn other_value(e: Expression) -> int;
spec fn value(e: Expression, env: Env) -> int {
  match e { Expression::Int32Literal(i) => i as int, Expression::Variable(v) => env(v.name), _ => other_value(e) }
}

spec fn inverted(g: GuardOperator) -> GuardOperator {
  match g { GuardOperator::LT => GuardOperator::GE, GuardOperator::LE => GuardOperator::GT, GuardOperator::GT => GuardOperator::LE, GuardOperator::GE => GuardOperator::LT }
}
impl GuardOperator {
//@extract crates/samlang-optimization/src/loop_induction_analysis.rs :: impl GuardOperator / fn invert
//@ret r
//@contract
    ensures
      r == inverted(*self),
      forall|a: int, b: int| guard_holds(r, a, b) == !#[trigger] guard_holds(*self, a, b),  // :invert_is_negation
//@end
}

//@extract crates/samlang-optimization/src/loop_induction_analysis.rs :: fn get_guard_operator
//@ret r
//@contract
    ensures
      r is Some == is_ordering(operator),
      // the loop is `cc = a op b; if (invert ? !cc : cc) break;` — the guard holds exactly while it keeps running
      r matches Some(g) ==> forall|a: int, b: int| #[trigger] guard_holds(g, a, b)
        == !(if invert_condition { !comparison(operator, a, b) } else { comparison(operator, a, b) }),  // :guard_operator_is_the_continue_condition
//@before Some(if invert_condition { guard_op } else { guard_op.invert() })
  proof {
    assert forall|a: int, b: int| #[trigger] guard_holds(guard_op, a, b) == comparison(operator, a, b) by {}
    let inv = inverted(guard_op);
    assert forall|a: int, b: int| #[trigger] guard_holds(inv, a, b) == !comparison(operator, a, b) by { assert(guard_holds(inv, a, b) == !guard_holds(guard_op, a, b)); }
  }
//@end

//@extract crates/samlang-optimization/src/loop_induction_analysis.rs :: fn get_loop_invariant_expression_opt
//@ret r
//@contract
    requires vstd::std_specs::hash::obeys_key_model::<PStr>(),
    ensures
      // only literals and variables that the loop does not change count as loop invariant, and they keep their value
      r matches Some(inv) ==> (forall|env: Env| #[trigger] invariant_value(inv, env) == value(*expression, env))
        && (expression matches Expression::Variable(v) ==> !non_loop_invariant_variables@.contains(v.name)),  // :loop_invariant_expression_is_the_same_value_and_not_changed_by_the_loop
//@end

/// R3: `single_if_stmts[0].as_break().unwrap()` — the value the loop breaks with (the enclosing guard checked
/// that the only statement of the `if` is a break)
#[verifier::external_body]
struct Statement { _p: u8 }
uninterp spec fn break_value_of(s: Statement) -> Expression;
#[verifier::external_body]
fn first_break_value(single_if_stmts: &Vec<Statement>) -> (r: &Expression)
  ensures single_if_stmts@.len() > 0 ==> *r == break_value_of(single_if_stmts@[0])
{ unimplemented!() }

//@extractblock crates/samlang-optimization/src/loop_induction_analysis.rs :: fn extract_loop_guard_structure
//@from if let (Some(guard_operator), Some(guard_expression)) = ( get_guard_operator(*operator, *invert_condition), get_loop_invariant_expression_opt(e2, non_loop_invariant_variables), ) {
//@to } else { None }
//@replace single_if_stmts[0].as_break().unwrap() => first_break_value(single_if_stmts) ## R3: the break value of the only statement of the `if`
//@replace .map(|v| (v.name, v.type_, *first_break_value(single_if_stmts))) => .map(|v| -> (r: (PStr, Type, Expression)) ensures r.0 == v.name && r.2 == break_value_of(single_if_stmts@[0]) { (v.name, v.type_, *first_break_value(single_if_stmts)) }) ## R8: contract on the closure
//@wrap fn guard_structure_arm(operator: &BinaryOperator, invert_condition: &bool, e1_var: &VariableName, e2: &Expression, single_if_stmts: &Vec<Statement>, original_break_collector: &Option<VariableName>, non_loop_invariant_variables: &HashSet<PStr>) -> (r: Option<LoopGuardStructure>)
//@contract
    requires
      vstd::std_specs::hash::obeys_key_model::<PStr>(),
      single_if_stmts@.len() == 1,
    ensures
      // the structure says when the loop `cc = e1_var op e2; if (cc xor invert) break` keeps running:
      // `e1_var guard_operator guard_expression`, for every valuation of the variables
      r matches Some(s) ==> s.potential_basic_induction_variable_with_loop_guard == e1_var.name
        && is_ordering(*operator)
        && (forall|env: Env| #[trigger] guard_holds(s.guard_operator, env(e1_var.name), invariant_value(s.guard_expression, env))
              == !(if *invert_condition { !comparison(*operator, env(e1_var.name), value(*e2, env)) }
                   else { comparison(*operator, env(e1_var.name), value(*e2, env)) })),  // :structure_is_the_loops_continue_condition
      // the bound is not changed by the loop
      r is Some && e2 is Variable ==> !non_loop_invariant_variables@.contains(e2->Variable_0.name),  // :guard_bound_is_loop_invariant
//@end

// ---- the guard's comparison statement is not kept by the rewrite (extract_optimizable_while_loop rebuilds the guard under a
// fresh name): a loop is taken only if nothing after the guard reads the comparison's result.  The check in front of phase 2,
// verbatim as an R14 block; collect_use_from_expression verbatim; collect_use_from_stmts (dead_code_elimination.rs, a plain
// recursive walk) by its contract: it adds the names the statements read (listed as assumed).
//@extract crates/samlang-ast/src/mir.rs :: struct GenenalLoopVariable
//@end
//@extract crates/samlang-ast/src/mir.rs :: struct Binary
//@replace hir::BinaryOperator => BinaryOperator ## R1: module path of the extracted enum
//@end

/// the variable an operand reads, if it is a variable
spec fn used_name(e: Expression) -> Option<PStr> {
  match e { Expression::Variable(v) => Some(v.name), _ => None }
}
//@extract crates/samlang-optimization/src/dead_code_elimination.rs :: fn collect_use_from_expression
//@contract
  requires
    vstd::std_specs::hash::obeys_key_model::<PStr>(),
  ensures
    final(set)@ == (match used_name(*expression) { Some(n) => old(set)@.insert(n), None => old(set)@ }),  // :records_exactly_the_variable_read
//@end

/// the names a statement list reads (R7: Statement is opaque here)
uninterp spec fn names_read_by(stmts: Seq<Statement>) -> Set<PStr>;
/// `SingleIf { statements, .. }`: the statements under the if; None for any other statement
uninterp spec fn single_if_body(s: Statement) -> Option<Seq<Statement>>;
/// `Binary(b)`: the binary statement; None for any other statement
uninterp spec fn binary_of(s: Statement) -> Option<Binary>;

/// R3: dead_code_elimination::collect_use_from_stmts — adds the names the statements read
#[verifier::external_body]
fn collect_use_from_stmts(stmts: &[Statement], set: &mut HashSet<PStr>)
  ensures final(set)@ == old(set)@.union(names_read_by(stmts@))
{ unimplemented!() }
/// R3: Statement::as_single_if (derived by EnumAsInner)
#[verifier::external_body]
fn as_single_if(s: &Statement) -> (r: Option<(&Expression, &bool, &Vec<Statement>)>)
  ensures
    r is Some == single_if_body(*s) is Some,
    r matches Some(t) ==> t.2@ == single_if_body(*s)->Some_0,
{ unimplemented!() }
/// R3: Statement::as_binary (derived by EnumAsInner)
#[verifier::external_body]
fn as_binary(s: &Statement) -> (r: Option<&Binary>)
  ensures
    r is Some == binary_of(*s) is Some,
    r matches Some(b) ==> *b == binary_of(*s)->Some_0,
{ unimplemented!() }
/// R3: `&stmts[2..]`
#[verifier::external_body]
fn statements_after_the_guard(stmts: &Vec<Statement>) -> (r: &[Statement])
  requires stmts@.len() >= 2,
  ensures r@ == stmts@.subrange(2, stmts@.len() as int),
{ unimplemented!() }

/// the names the next-iteration values of the first n loop variables read
spec fn names_read_by_loop_values(lvs: Seq<GenenalLoopVariable>, n: int) -> Set<PStr>
  decreases n
{
  if n <= 0 { Set::empty() } else {
    let before = names_read_by_loop_values(lvs, n - 1);
    match used_name(lvs[n - 1].loop_value) { Some(x) => before.insert(x), None => before }
  }
}
/// everything that runs after the guard `stmts[0]; stmts[1]` of a loop reads: the statements under the guard's if (the break
/// value), the rest of the body, the next-iteration values
spec fn names_read_after_the_guard(lvs: Seq<GenenalLoopVariable>, stmts: Seq<Statement>) -> Set<PStr> {
  (match single_if_body(stmts[1]) { Some(b) => names_read_by(b), None => Set::empty() })
    .union(names_read_by(stmts.subrange(2, stmts.len() as int)))
    .union(names_read_by_loop_values(lvs, lvs.len() as int))
}

//@extractblock crates/samlang-optimization/src/loop_induction_analysis.rs :: fn extract_optimizable_while_loop
//@from let mut used_after_guard = HashSet::new();
//@to return Err((loop_variables, stmts, original_break_collector)); }
//@replace stmts[1].as_single_if() => as_single_if(&stmts[1]) ## R3: EnumAsInner accessor of the opaque Statement
//@replace stmts[0].as_binary().is_some_and(|guard| used_after_guard.contains(&guard.name)) => (match as_binary(&stmts[0]) { Some(guard) => used_after_guard.contains(&guard.name), None => false }) ## R18: Option::is_some_and(f) written as std defines it (`match self { None => false, Some(x) => f(x) }`); as_binary is the EnumAsInner accessor of the opaque Statement (R3)
//@replace dead_code_elimination::collect_use_from_stmts(guard_stmts, &mut used_after_guard); => collect_use_from_stmts(guard_stmts.as_slice(), &mut used_after_guard); ## R9: the deref coercion &Vec<T> -> &[T] written as Vec::as_slice
//@replace dead_code_elimination::collect_use_from_stmts(&stmts[2..], &mut used_after_guard); => let ghost under_the_if = used_after_guard@; collect_use_from_stmts(statements_after_the_guard(&stmts), &mut used_after_guard); let ghost before_the_loop_values = used_after_guard@; ## R3: the slice `&stmts[2..]`; R8: ghost snapshots
//@replace dead_code_elimination::collect_use_from_expression( => collect_use_from_expression( ## R1: module path
//@replace for v in &loop_variables { ==>> for v in it: loop_variables.iter() invariant vstd::std_specs::hash::obeys_key_model::<PStr>(), it.seq().len() == loop_variables@.len(), forall|j: int| 0 <= j < loop_variables@.len() ==> *(#[trigger] it.seq()[j]) == loop_variables@[j], used_after_guard@ == before_the_loop_values.union(names_read_by_loop_values(loop_variables@, it.index() as int)), { ## R9: IntoIterator for &Vec is Vec::iter; R8: ghost iterator name and loop invariant
//@replace return Err((loop_variables, stmts, original_break_collector)); => return true; ## R14: the block's early exit (the loop is handed back unchanged) becomes the result `true`
//@wrap fn guard_result_is_read_after_the_guard(loop_variables: Vec<GenenalLoopVariable>, stmts: Vec<Statement>) -> (given_back: bool)
//@contract
    requires
      vstd::std_specs::hash::obeys_key_model::<PStr>(),
      stmts@.len() >= 2,
    ensures
      // a loop goes on to the rewrite only if the result of the guard's comparison is read nowhere after the guard
      !given_back ==> (binary_of(stmts@[0]) matches Some(guard) ==> !names_read_after_the_guard(loop_variables@, stmts@).contains(guard.name)),  // :guard_result_is_not_read_after_the_guard
      given_back ==> binary_of(stmts@[0]) is Some,
//@atend
  false
//@end

proof fn canary_must_fail_loopguard() ensures false {}

} // verus!
fn main() {}
