// Unit `loopguard` — C02 kernel: what the loop optimisations take for a loop's guard.
// A loop `cc = i op bound; if (cc xor invert) break; ...` is recognised by extract_loop_guard_structure
// (crates/samlang-optimization/src/loop_induction_analysis.rs).  Its result must say exactly when the loop
// keeps running: `i guard_operator guard_expression`, with `i` the LEFT operand of the comparison and the bound
// a loop-invariant value.  get_guard_operator, GuardOperator::invert, get_loop_invariant_expression_opt verbatim;
// the arm of extract_loop_guard_structure that builds the result as an R14 block.
use vstd::prelude::*;
use std::collections::HashSet;
verus! {

global size_of usize == 8;

//@extract crates/samlang-ast/src/hir.rs :: enum BinaryOperator
//@attr #[derive(Clone, Copy, PartialEq, Eq, Structural)]
//@end

#[verifier::external_body]
#[derive(Clone, Copy)]
struct PStr { _p: u128 }
#[verifier::external]
impl PartialEq for PStr { fn eq(&self, other: &Self) -> bool { unimplemented!() } }
#[verifier::external]
impl Eq for PStr {}
#[verifier::external]
impl std::hash::Hash for PStr { fn hash<H: std::hash::Hasher>(&self, state: &mut H) { unimplemented!() } }
#[verifier::external_body]
#[derive(Clone, Copy)]
struct Type { _p: u8 }

//@extract crates/samlang-ast/src/mir.rs :: struct VariableName
//@attr #[derive(Clone, Copy)]
//@end
//@extract crates/samlang-ast/src/mir.rs :: enum Expression
//@attr #[derive(Clone, Copy)]
//@end
//@extract crates/samlang-optimization/src/loop_induction_analysis.rs :: enum GuardOperator
//@attr #[derive(Clone, Copy)]
//@end
//@extract crates/samlang-optimization/src/loop_induction_analysis.rs :: enum PotentialLoopInvariantExpression
//@end
//@extract crates/samlang-optimization/src/loop_induction_analysis.rs :: struct LoopGuardStructure
//@end

// ---- meaning
type Env = spec_fn(PStr) -> int;
spec fn guard_holds(g: GuardOperator, a: int, b: int) -> bool {
  match g { GuardOperator::LT => a < b, GuardOperator::LE => a <= b, GuardOperator::GT => a > b, GuardOperator::GE => a >= b }
}
spec fn comparison(op: BinaryOperator, a: int, b: int) -> bool {
  match op { BinaryOperator::LT => a < b, BinaryOperator::LE => a <= b, BinaryOperator::GT => a > b, BinaryOperator::GE => a >= b, _ => arbitrary() }
}
spec fn is_ordering(op: BinaryOperator) -> bool {
  op == BinaryOperator::LT || op == BinaryOperator::LE || op == BinaryOperator::GT || op == BinaryOperator::GE
}
spec fn invariant_value(e: PotentialLoopInvariantExpression, env: Env) -> int {
  match e { PotentialLoopInvariantExpression::Int(i) => i as int, PotentialLoopInvariantExpression::Var(v) => env(v.name) }
}
uninterp spec fn other_value(e: Expression) -> int;
spec fn value(e: Expression, env: Env) -> int {
  match e { Expression::Int32Literal(i) => i as int, Expression::Variable(v) => env(v.name), _ => other_value(e) }
}

spec fn inverted(g: GuardOperator) -> GuardOperator {
  match g { GuardOperator::LT => GuardOperator::GE, GuardOperator::LE => GuardOperator::GT, GuardOperator::GT => GuardOperator::LE, GuardOperator::GE => GuardOperator::LT }
}
impl GuardOperator {
//@extract crates/samlang-optimization/src/loop_induction_analysis.rs :: impl GuardOperator / fn invert
//@ret r
//@contract
    ensures
      r == inverted(*self),
      forall|a: int, b: int| guard_holds(r, a, b) == !#[trigger] guard_holds(*self, a, b),  // :invert_is_negation
//@end
}

//@extract crates/samlang-optimization/src/loop_induction_analysis.rs :: fn get_guard_operator
//@ret r
//@contract
    ensures
      r is Some == is_ordering(operator),
      // the loop is `cc = a op b; if (invert ? !cc : cc) break;` — the guard holds exactly while it keeps running
      r matches Some(g) ==> forall|a: int, b: int| #[trigger] guard_holds(g, a, b)
        == !(if invert_condition { !comparison(operator, a, b) } else { comparison(operator, a, b) }),  // :guard_operator_is_the_continue_condition
//@before Some(if invert_condition { guard_op } else { guard_op.invert() })
  proof {
    assert forall|a: int, b: int| #[trigger] guard_holds(guard_op, a, b) == comparison(operator, a, b) by {}
    let inv = inverted(guard_op);
    assert forall|a: int, b: int| #[trigger] guard_holds(inv, a, b) == !comparison(operator, a, b) by { assert(guard_holds(inv, a, b) == !guard_holds(guard_op, a, b)); }
  }
//@end

//@extract crates/samlang-optimization/src/loop_induction_analysis.rs :: fn get_loop_invariant_expression_opt
//@ret r
//@contract
    requires vstd::std_specs::hash::obeys_key_model::<PStr>(),
    ensures
      // only literals and variables that the loop does not change count as loop invariant, and they keep their value
      r matches Some(inv) ==> (forall|env: Env| #[trigger] invariant_value(inv, env) == value(*expression, env))
        && (expression matches Expression::Variable(v) ==> !non_loop_invariant_variables@.contains(v.name)),  // :loop_invariant_expression_is_the_same_value_and_not_changed_by_the_loop
//@end

/// R3: `single_if_stmts[0].as_break().unwrap()` — the value the loop breaks with (the enclosing guard checked
/// that the only statement of the `if` is a break)
#[verifier::external_body]
struct Statement { _p: u8 }
uninterp spec fn break_value_of(s: Statement) -> Expression;
#[verifier::external_body]
fn first_break_value(single_if_stmts: &Vec<Statement>) -> (r: &Expression)
  ensures single_if_stmts@.len() > 0 ==> *r == break_value_of(single_if_stmts@[0])
{ unimplemented!() }

//@extractblock crates/samlang-optimization/src/loop_induction_analysis.rs :: fn extract_loop_guard_structure
//@from if let (Some(guard_operator), Some(guard_expression)) = ( get_guard_operator(*operator, *invert_condition), get_loop_invariant_expression_opt(e2, non_loop_invariant_variables), ) {
//@to } else { None }
//@replace single_if_stmts[0].as_break().unwrap() => first_break_value(single_if_stmts) ## R3: the break value of the only statement of the `if`
//@replace .map(|v| (v.name, v.type_, *first_break_value(single_if_stmts))) => .map(|v| -> (r: (PStr, Type, Expression)) ensures r.0 == v.name && r.2 == break_value_of(single_if_stmts@[0]) { (v.name, v.type_, *first_break_value(single_if_stmts)) }) ## R8: contract on the closure
//@wrap fn guard_structure_arm(operator: &BinaryOperator, invert_condition: &bool, e1_var: &VariableName, e2: &Expression, single_if_stmts: &Vec<Statement>, original_break_collector: &Option<VariableName>, non_loop_invariant_variables: &HashSet<PStr>) -> (r: Option<LoopGuardStructure>)
//@contract
    requires
      vstd::std_specs::hash::obeys_key_model::<PStr>(),
      single_if_stmts@.len() == 1,
    ensures
      // the structure says when the loop `cc = e1_var op e2; if (cc xor invert) break` keeps running:
      // `e1_var guard_operator guard_expression`, for every valuation of the variables
      r matches Some(s) ==> s.potential_basic_induction_variable_with_loop_guard == e1_var.name
        && is_ordering(*operator)
        && (forall|env: Env| #[trigger] guard_holds(s.guard_operator, env(e1_var.name), invariant_value(s.guard_expression, env))
              == !(if *invert_condition { !comparison(*operator, env(e1_var.name), value(*e2, env)) }
                   else { comparison(*operator, env(e1_var.name), value(*e2, env)) })),  // :structure_is_the_loops_continue_condition
      // the bound is not changed by the loop
      r is Some && e2 is Variable ==> !non_loop_invariant_variables@.contains(e2->Variable_0.name),  // :guard_bound_is_loop_invariant
//@end

proof fn canary_must_fail_loopguard() ensures false {}

} // verus!
fn main() {}
