// Unit `loopvars` — C01 kernel: the loop variables of a `While` (what a self tail call becomes) take their
// next values AT ONCE, but both back ends assign them one after the other.
// LoweringManager::save_loop_values_read_after_reassignment (crates/samlang-compiler/src/lir_lowering.rs,
// verbatim) makes the two coincide; the lemma below says why that is enough.
use vstd::prelude::*;
verus! {

global size_of usize == 8;

//@extract crates/samlang-ast/src/hir.rs :: enum BinaryOperator
//@attr #[derive(Clone, Copy, PartialEq, Eq, Structural)]
//@end

// ---- R7: opaque names
#[verifier::external_body]
#[derive(Clone, Copy)]
struct PStr { _p: u128 }
#[verifier::external]
impl PartialEq for PStr { fn eq(&self, other: &Self) -> bool { unimplemented!() } }
pub assume_specification[ <PStr as PartialEq>::eq ](a: &PStr, b: &PStr) -> (r: bool)
  ensures r == (*a == *b);
#[verifier::external_body]
#[derive(Clone, Copy)]
struct TypeNameId { _p: u32 }
#[verifier::external_body]
#[derive(Clone, Copy)]
struct FunctionName { _p: u64 }

mod lir {
  use super::*;
//@extract crates/samlang-ast/src/lir.rs :: struct FunctionType
//@keeppub
//@end
//@extract crates/samlang-ast/src/lir.rs :: enum Type
//@keeppub
//@end
//@extract crates/samlang-ast/src/lir.rs :: enum Expression
//@keeppub
//@end
//@extract crates/samlang-ast/src/lir.rs :: struct GenenalLoopVariable
//@keeppub
//@end
//@extract crates/samlang-ast/src/lir.rs :: enum Statement
//@keeppub
//@end
  // the derived Clone impls are structural copies (assumed)
  #[verifier::external]
  impl Clone for Type { fn clone(&self) -> Self { unimplemented!() } }
  #[verifier::external]
  impl Clone for FunctionType { fn clone(&self) -> Self { unimplemented!() } }
  #[verifier::external]
  impl Clone for Expression { fn clone(&self) -> Self { unimplemented!() } }
  pub assume_specification[ <Type as Clone>::clone ](t: &Type) -> (r: Type) ensures r == *t;
  pub assume_specification[ <Expression as Clone>::clone ](e: &Expression) -> (r: Expression) ensures r == *e;
}

// ---- semantics of the loop-variable update
type Env = Map<PStr, int>;
uninterp spec fn constant_value(e: lir::Expression) -> int;
spec fn eval(e: lir::Expression, env: Env) -> int {
  match e { lir::Expression::Variable(n, _) => env[n], _ => constant_value(e) }
}
/// what the back ends do: one assignment after the other, in list order
spec fn assigned_in_sequence(lvs: Seq<lir::GenenalLoopVariable>, env: Env) -> Env
  decreases lvs.len()
{
  if lvs.len() == 0 { env }
  else { assigned_in_sequence(lvs.skip(1), env.insert(lvs[0].name, eval(lvs[0].loop_value, env))) }
}
/// what the loop means: every variable gets its loop value computed in the state at the end of the body
spec fn assigned_at_once(lvs: Seq<lir::GenenalLoopVariable>, before: Env, env: Env) -> Env
  decreases lvs.len()
{
  if lvs.len() == 0 { env }
  else { assigned_at_once(lvs.skip(1), before, env.insert(lvs[0].name, eval(lvs[0].loop_value, before))) }
}
/// no loop value reads a loop variable that was assigned earlier in the sequence
spec fn reads_no_earlier_variable(lvs: Seq<lir::GenenalLoopVariable>) -> bool {
  forall|i: int, j: int| 0 <= i < j < lvs.len() ==>
    !(#[trigger] lvs[j].loop_value is Variable && lvs[j].loop_value->Variable_0 == #[trigger] lvs[i].name)
}

proof fn lemma_sequence_from(lvs: Seq<lir::GenenalLoopVariable>, before: Env, env: Env, done: Seq<lir::GenenalLoopVariable>)
  requires
    reads_no_earlier_variable(done + lvs),
    // env is `before` except at the names assigned so far
    forall|n: PStr| (forall|k: int| 0 <= k < done.len() ==> (#[trigger] done[k]).name != n) ==> env[n] == before[n] && env.dom().contains(n) == before.dom().contains(n),
  ensures assigned_in_sequence(lvs, env) == assigned_at_once(lvs, before, env)
  decreases lvs.len()
{
  if lvs.len() > 0 {
    let all = done + lvs;
    let v = lvs[0];
    // v's loop value does not read a variable assigned so far, so it sees the old value
    assert(eval(v.loop_value, env) == eval(v.loop_value, before)) by {
      if v.loop_value is Variable {
        let n = v.loop_value->Variable_0;
        assert forall|k: int| 0 <= k < done.len() implies (#[trigger] done[k]).name != n by {
          assert(all[k] == done[k]);
          assert(all[done.len() as int] == v);
        }
      }
    }
    let env2 = env.insert(v.name, eval(v.loop_value, env));
    let done2 = done.push(v);
    assert(done2 + lvs.skip(1) =~= all);
    assert forall|n: PStr| (forall|k: int| 0 <= k < done2.len() ==> (#[trigger] done2[k]).name != n) implies env2[n] == before[n] && env2.dom().contains(n) == before.dom().contains(n) by {
      assert(done2[done.len() as int] == v);
      assert forall|k: int| 0 <= k < done.len() implies (#[trigger] done[k]).name != n by { assert(done2[k] == done[k]); }
    }
    lemma_sequence_from(lvs.skip(1), before, env2, done2);
  }
}

/// when no loop value reads an earlier-assigned loop variable, assigning in sequence IS assigning at once
proof fn lemma_sequential_update_is_simultaneous(lvs: Seq<lir::GenenalLoopVariable>, env: Env)
  requires reads_no_earlier_variable(lvs)
  ensures assigned_in_sequence(lvs, env) == assigned_at_once(lvs, env, env)  // :in_sequence_equals_at_once_when_no_earlier_variable_is_read
{
  assert(Seq::<lir::GenenalLoopVariable>::empty() + lvs =~= lvs);
  lemma_sequence_from(lvs, env, env, Seq::empty());
}

// ---- the real function
#[verifier::external_body]
struct Heap { _p: u8 }
impl Heap {
  /// the names this heap has handed out so far
  uninterp spec fn issued(&self) -> Set<PStr>;
  /// a temporary name is a name the heap has not handed out before (C17: the counter-generated text is
  /// interned in a fresh slot, and equal handles mean equal strings)
  #[verifier::external_body]
  fn alloc_temp_str(&mut self) -> (r: PStr)
    ensures !old(self).issued().contains(r), final(self).issued() == old(self).issued().insert(r)
  { unimplemented!() }
}
struct LoweringManager<'a> { heap: &'a mut Heap }

/// R3: `loop_variables[..i].iter().find(|it| it.name == n).map(|it| it.type_.clone())` — the declared type of the
/// (first) loop variable called n among those assigned before position i
#[verifier::external_body]
fn declared_type_if_assigned_before(loop_variables: &Vec<lir::GenenalLoopVariable>, i: usize, n: PStr) -> (r: Option<lir::Type>)
  requires i <= loop_variables@.len()
  ensures
    r is Some == (exists|k: int| 0 <= k < i && (#[trigger] loop_variables@[k]).name == n),
    r matches Some(t) ==> exists|k: int| 0 <= k < i && (#[trigger] loop_variables@[k]).name == n && loop_variables@[k].type_ == t,
{ unimplemented!() }

/// the saved copy appended to the loop body: a local of the reassigned variable's own declared type that is given the
/// old value by a plain assignment (no cast)
spec fn is_saved_copy(decl: lir::Statement, assign: lir::Statement, temp: PStr, of: lir::Expression, lvs: Seq<lir::GenenalLoopVariable>) -> bool {
  &&& decl matches lir::Statement::LateInitDeclaration { name, type_ }
        && name == temp && exists|k: int| 0 <= k < lvs.len() && (#[trigger] lvs[k]).name == of->Variable_0 && lvs[k].type_ == type_
  &&& assign matches lir::Statement::LateInitAssignment { name, assigned_expression } && name == temp && assigned_expression == of
}

impl<'a> LoweringManager<'a> {
//@extract crates/samlang-compiler/src/lir_lowering.rs :: impl<'a> LoweringManager<'a> / fn save_loop_values_read_after_reassignment
//@ret r
//@replace loop_variables[..i].iter().find(|it| it.name == n).map(|it| it.type_.clone()) => declared_type_if_assigned_before(&loop_variables, i, n) ## R3: iterator adapters over the already-assigned prefix
//@contract
    requires
      // every name in the loop came from this heap
      forall|j: int| 0 <= j < loop_variables@.len() ==> old(self).heap.issued().contains((#[trigger] loop_variables@[j]).name),
    ensures
      r.0@.len() == loop_variables@.len(),  // (parameters in these clauses are the values passed in)
      forall|j: int| 0 <= j < r.0@.len() ==> (#[trigger] r.0@[j]).name == loop_variables@[j].name
        && r.0@[j].type_ == loop_variables@[j].type_ && r.0@[j].initial_value == loop_variables@[j].initial_value,  // :names_types_and_initial_values_are_kept
      // the loop body keeps its statements and only gains saved copies at the end
      r.1@.len() >= statements@.len() && r.1@.subrange(0, statements@.len() as int) == statements@,  // :loop_body_is_only_extended
      // every loop value is the old one, or a temporary that was given the old value at the end of the body
      forall|j: int| 0 <= j < r.0@.len() ==> (#[trigger] r.0@[j]).loop_value == loop_variables@[j].loop_value
        || (loop_variables@[j].loop_value is Variable && r.0@[j].loop_value is Variable
            && exists|k: int| statements@.len() <= k < r.1@.len() - 1
                 && is_saved_copy(#[trigger] r.1@[k], r.1@[k + 1], r.0@[j].loop_value->Variable_0, loop_variables@[j].loop_value, loop_variables@)),  // :a_changed_loop_value_is_a_saved_copy_of_the_old_one
      // and none of them reads a loop variable assigned earlier in the sequence: assigning in sequence is assigning at once
      reads_no_earlier_variable(r.0@),  // :no_loop_value_reads_an_earlier_assigned_variable
//@before for i in 0..loop_variables.len() {
    let ghost lv0 = loop_variables@;
    let ghost st0 = statements@;
//@loop 0 iter=it
      invariant
        it.seq().len() == lv0.len(),
        forall|j: int| 0 <= j < it.seq().len() ==> #[trigger] it.seq()[j] == j,
        loop_variables@.len() == lv0.len(),
        forall|j: int| 0 <= j < lv0.len() ==> (#[trigger] loop_variables@[j]).name == lv0[j].name
          && loop_variables@[j].type_ == lv0[j].type_ && loop_variables@[j].initial_value == lv0[j].initial_value,
        statements@.len() >= st0.len() && statements@.subrange(0, st0.len() as int) == st0,
        forall|j: int| it.index() <= j < lv0.len() ==> (#[trigger] loop_variables@[j]).loop_value == lv0[j].loop_value,
        forall|j: int| 0 <= j < lv0.len() ==> (#[trigger] loop_variables@[j]).loop_value == lv0[j].loop_value
          || (lv0[j].loop_value is Variable && loop_variables@[j].loop_value is Variable
              && exists|k: int| st0.len() <= k < statements@.len() - 1
                   && is_saved_copy(#[trigger] statements@[k], statements@[k + 1], loop_variables@[j].loop_value->Variable_0, lv0[j].loop_value, lv0)),
        forall|a: int, b: int| 0 <= a < b < it.index() ==>
          !(#[trigger] loop_variables@[b].loop_value is Variable && loop_variables@[b].loop_value->Variable_0 == #[trigger] loop_variables@[a].name),
        forall|j: int| 0 <= j < lv0.len() ==> self.heap.issued().contains((#[trigger] lv0[j]).name),
//@loopstart 0
      let ghost st_in = statements@;
      let ghost lv_in = loop_variables@;
//@loopend 0
      proof {
        let i = it.index() as int;
        assert(statements@.len() >= st_in.len() && statements@.subrange(0, st_in.len() as int) == st_in);
        assert forall|j: int| 0 <= j < lv0.len() implies (#[trigger] loop_variables@[j]).loop_value == lv0[j].loop_value
          || (lv0[j].loop_value is Variable && loop_variables@[j].loop_value is Variable
              && exists|k: int| st0.len() <= k < statements@.len() - 1
                   && is_saved_copy(#[trigger] statements@[k], statements@[k + 1], loop_variables@[j].loop_value->Variable_0, lv0[j].loop_value, lv0)) by {
          if loop_variables@[j].loop_value != lv0[j].loop_value {
            if j == i {
              assert(is_saved_copy(statements@[statements@.len() - 2], statements@[statements@.len() - 1], loop_variables@[j].loop_value->Variable_0, lv0[j].loop_value, lv0));
            } else {
              assert(loop_variables@[j] == lv_in[j]);
              let k = choose|k: int| st0.len() <= k < st_in.len() - 1
                   && is_saved_copy(#[trigger] st_in[k], st_in[k + 1], lv_in[j].loop_value->Variable_0, lv0[j].loop_value, lv0);
              assert(statements@[k] == statements@.subrange(0, st_in.len() as int)[k]);
              assert(statements@[k + 1] == statements@.subrange(0, st_in.len() as int)[k + 1]);
            }
          }
        }
      }
//@end
}

// ---- the call site: the While arm of lower_stmt (MIR -> LIR), R14 block
mod mir {
  use super::*;
  #[verifier::external_body]
  pub struct Statement { _p: u8 }
  #[verifier::external_body]
  pub struct Type { _p: u8 }
  #[verifier::external_body]
  pub struct GenenalLoopVariable { _p: u8 }
  pub uninterp spec fn loop_variable_name(v: GenenalLoopVariable) -> PStr;
  pub struct VariableName { pub name: PStr, pub type_: Type }
}
impl<'a> LoweringManager<'a> {
  /// R3: `loop_variables.into_iter().map(|mir::GenenalLoopVariable { name, type_, initial_value, loop_value }|
  /// lir::GenenalLoopVariable { name, type_: self.lower_type(type_), initial_value: self.lower_expression(initial_value),
  /// loop_value: self.lower_expression(loop_value) }).collect_vec()` — one LIR loop variable per MIR loop variable, same name
  #[verifier::external_body]
  fn lower_loop_variables(&mut self, loop_variables: Vec<mir::GenenalLoopVariable>) -> (r: Vec<lir::GenenalLoopVariable>)
    ensures
      r@.len() == loop_variables@.len(),
      forall|j: int| 0 <= j < r@.len() ==> (#[trigger] r@[j]).name == mir::loop_variable_name(loop_variables@[j]),
      final(self).heap.issued() == old(self).heap.issued(),
  { unimplemented!() }
  #[verifier::external_body]
  fn lower_stmt_block(&mut self, stmts: Vec<mir::Statement>) -> (r: Vec<lir::Statement>)
    ensures old(self).heap.issued().subset_of(final(self).heap.issued())
  { unimplemented!() }
  #[verifier::external_body]
  fn lower_type(&mut self, t: mir::Type) -> (r: lir::Type)
    ensures final(self).heap.issued() == old(self).heap.issued()
  { unimplemented!() }

//@extractblock crates/samlang-compiler/src/lir_lowering.rs :: impl<'a> LoweringManager<'a> / fn lower_stmt
//@from mir::Statement::While { loop_variables, statements, break_collector } => {
//@to vec![lir::Statement::While { loop_variables, statements, break_collector }] }
//@replace mir::Statement::While { loop_variables, statements, break_collector } => { ==>> { ## R14: the arm header is part of the anchor and is reduced to its brace
//@replace loop_variables .into_iter() .map(|mir::GenenalLoopVariable { name, type_, initial_value, loop_value }| { lir::GenenalLoopVariable { name, type_: self.lower_type(type_), initial_value: self.lower_expression(initial_value), loop_value: self.lower_expression(loop_value), } }) .collect_vec() => self.lower_loop_variables(loop_variables) ## R3: iterator adapter with a closure that lowers each field (names are kept)
//@wrap fn lower_while_arm(&mut self, loop_variables: Vec<mir::GenenalLoopVariable>, statements: Vec<mir::Statement>, break_collector: Option<mir::VariableName>) -> (r: Vec<lir::Statement>)
//@contract
    requires
      // every loop variable name came from this heap
      forall|j: int| 0 <= j < loop_variables@.len() ==> old(self).heap.issued().contains(mir::loop_variable_name(#[trigger] loop_variables@[j])),
    ensures
      r@.len() == 1 && r@[0] is While,
      // the loop handed to the back ends can be updated one variable after the other
      reads_no_earlier_variable(r@[0]->While_loop_variables@),  // :lowered_loop_can_be_updated_in_sequence
//@end
}

proof fn canary_must_fail_loopvars() ensures false {}

} // verus!
fn main() {}
