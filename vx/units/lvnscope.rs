// Unit `lvnscope` — C02 kernel: what local value numbering remembers after a conditional block.
// optimize_stmt (crates/samlang-optimization/src/local_value_numbering.rs), the SingleIf and While arms (R14 blocks):
// a fact learnt inside a block that is executed only on some paths ("this expression is already available in that
// name", "this name is a copy of that one") is forgotten when the block ends — both tables are exactly what they
// were before the block — so no later statement is rewritten to read a name that was assigned on another path.
use vstd::prelude::*;
verus! {

global size_of usize == 8;

/// R7: operands and statements are opaque here
#[verifier::external_body]
struct Expression { _p: u64 }
#[verifier::external_body]
struct Statement { _p: u64 }
#[verifier::external_body]
struct GenenalLoopVariable { _p: u64 }
#[verifier::external_body]
struct Scope { _p: u8 }
uninterp spec fn empty_scope() -> Scope;

/// samlang_collections::local_stacked_context::LocalStackedContext: a stack of scopes; insert writes the innermost one
#[verifier::external_body]
struct LocalStackedContext { _p: u8 }
impl LocalStackedContext {
  uninterp spec fn stack(&self) -> Seq<Scope>;
  /// ghost log: under which scope stack each statement list was analysed
  uninterp spec fn visits(&self) -> Seq<Seq<Scope>>;
  /// contract of the real push_scope / pop_scope (a Vec push / pop)
  #[verifier::external_body]
  fn push_scope(&mut self) ensures final(self).stack() == old(self).stack().push(empty_scope()), final(self).visits() == old(self).visits() { unimplemented!() }
  #[verifier::external_body]
  fn pop_scope(&mut self)
    requires old(self).stack().len() > 0
    ensures final(self).stack() == old(self).stack().drop_last(), final(self).visits() == old(self).visits()
  { unimplemented!() }
}
type LocalContext = LocalStackedContext;
type LocalBindedValueContext = LocalStackedContext;

/// renaming the variables of an operand reads the table
#[verifier::external_body]
fn optimize_expr(expression: &mut Expression, variable_cx: &mut LocalContext)
  ensures final(variable_cx).stack() == old(variable_cx).stack(), final(variable_cx).visits() == old(variable_cx).visits()
{ unimplemented!() }
/// the statement list of a block: whatever it learns goes into the innermost scope (nested blocks open their own)
#[verifier::external_body]
fn optimize_stmts(stmts: &mut Vec<Statement>, variable_cx: &mut LocalContext, binded_value_cx: &mut LocalBindedValueContext)
  requires old(variable_cx).stack().len() > 0, old(binded_value_cx).stack().len() > 0
  ensures
    final(variable_cx).stack().len() == old(variable_cx).stack().len(),
    final(variable_cx).stack().drop_last() == old(variable_cx).stack().drop_last(),
    final(binded_value_cx).stack().len() == old(binded_value_cx).stack().len(),
    final(binded_value_cx).stack().drop_last() == old(binded_value_cx).stack().drop_last(),
    final(variable_cx).visits() == old(variable_cx).visits().push(old(variable_cx).stack()),
    final(binded_value_cx).visits() == old(binded_value_cx).visits().push(old(binded_value_cx).stack()),
{ unimplemented!() }
/// R3: `loop_variables.iter_mut().for_each(|v| optimize_expr(&mut v.initial_value / loop_value, variable_cx))`
#[verifier::external_body]
fn optimize_loop_variable_operands(loop_variables: &mut Vec<GenenalLoopVariable>, variable_cx: &mut LocalContext)
  ensures final(variable_cx).stack() == old(variable_cx).stack(), final(variable_cx).visits() == old(variable_cx).visits()
{ unimplemented!() }

//@extractblock crates/samlang-optimization/src/local_value_numbering.rs :: fn optimize_stmt
//@from Statement::SingleIf { condition, invert_condition: _, statements } => { optimize_expr(condition, variable_cx);
//@to true }
//@replace Statement::SingleIf { condition, invert_condition: _, statements } => { ==>> { ## R14: the arm header is part of the anchor; its bindings are the parameters of the synthetic function
//@wrap fn single_if_arm(condition: &mut Expression, statements: &mut Vec<Statement>, variable_cx: &mut LocalContext, binded_value_cx: &mut LocalBindedValueContext) -> (r: bool)
//@contract
    requires
      old(variable_cx).stack().len() > 0, old(binded_value_cx).stack().len() > 0,
    ensures
      final(variable_cx).stack() == old(variable_cx).stack(),  // :copies_learnt_inside_a_conditional_block_are_forgotten_after_it
      final(binded_value_cx).stack() == old(binded_value_cx).stack(),  // :values_learnt_inside_a_conditional_block_are_forgotten_after_it
//@end

//@extractblock crates/samlang-optimization/src/local_value_numbering.rs :: fn optimize_stmt
//@from Statement::While { loop_variables, statements, break_collector: _ } => { loop_variables.iter_mut()
//@to true }
//@replace Statement::While { loop_variables, statements, break_collector: _ } => { ==>> { ## R14: the arm header is part of the anchor; its bindings are the parameters of the synthetic function
//@replace loop_variables.iter_mut().for_each(|v| optimize_expr(&mut v.initial_value, variable_cx)); => optimize_loop_variable_operands(loop_variables, variable_cx); ## R3: renaming the operands of the loop variables reads the table
//@replace loop_variables.iter_mut().for_each(|v| optimize_expr(&mut v.loop_value, variable_cx)); => optimize_loop_variable_operands(loop_variables, variable_cx); ## R3: renaming the operands of the loop variables reads the table
//@wrap fn while_arm(loop_variables: &mut Vec<GenenalLoopVariable>, statements: &mut Vec<Statement>, variable_cx: &mut LocalContext, binded_value_cx: &mut LocalBindedValueContext) -> (r: bool)
//@contract
    requires
      old(variable_cx).stack().len() > 0, old(binded_value_cx).stack().len() > 0,
    ensures
      final(variable_cx).stack() == old(variable_cx).stack(),  // :copies_learnt_inside_a_loop_body_are_forgotten_after_it
      final(binded_value_cx).stack() == old(binded_value_cx).stack(),  // :values_learnt_inside_a_loop_body_are_forgotten_after_it
//@end

#[verifier::external_body]
struct IfElseFinalAssignment { _p: u64 }
/// R3: `final_assignments.iter_mut().for_each(|fa| optimize_expr(&mut fa.e1 / fa.e2, variable_cx))`
#[verifier::external_body]
fn optimize_final_assignment_operands(final_assignments: &mut Vec<IfElseFinalAssignment>, variable_cx: &mut LocalContext)
  ensures final(variable_cx).stack() == old(variable_cx).stack(), final(variable_cx).visits() == old(variable_cx).visits()
{ unimplemented!() }

//@extractblock crates/samlang-optimization/src/local_value_numbering.rs :: fn optimize_stmt
//@from Statement::IfElse { condition, s1, s2, final_assignments } => { optimize_expr(condition, variable_cx);
//@to true }
//@replace Statement::IfElse { condition, s1, s2, final_assignments } => { ==>> { ## R14: the arm header is part of the anchor; its bindings are the parameters of the synthetic function
//@replace final_assignments.iter_mut().for_each(|fa| optimize_expr(&mut fa.e1, variable_cx)); => optimize_final_assignment_operands(final_assignments, variable_cx); ## R3: renaming the operands of the final assignments reads the table
//@replace final_assignments.iter_mut().for_each(|fa| optimize_expr(&mut fa.e2, variable_cx)); => optimize_final_assignment_operands(final_assignments, variable_cx); ## R3: renaming the operands of the final assignments reads the table
//@after#1 variable_cx.pop_scope();
      proof {
        assert(variable_cx.stack() =~= old(variable_cx).stack());
        assert(binded_value_cx.stack() =~= old(binded_value_cx).stack());
      }
//@wrap fn if_else_arm(condition: &mut Expression, s1: &mut Vec<Statement>, s2: &mut Vec<Statement>, final_assignments: &mut Vec<IfElseFinalAssignment>, variable_cx: &mut LocalContext, binded_value_cx: &mut LocalBindedValueContext) -> (r: bool)
//@contract
    requires
      old(variable_cx).stack().len() > 0, old(binded_value_cx).stack().len() > 0,
    ensures
      final(variable_cx).stack() == old(variable_cx).stack(),  // :copies_learnt_inside_a_branch_are_forgotten_after_the_if_else
      final(binded_value_cx).stack() == old(binded_value_cx).stack(),  // :values_learnt_inside_a_branch_are_forgotten_after_the_if_else
      // each branch starts from what was known before the if-else, in a scope of its own: the else branch does not see what the then branch learnt
      final(variable_cx).visits() =~= old(variable_cx).visits().push(old(variable_cx).stack().push(empty_scope())).push(old(variable_cx).stack().push(empty_scope())),  // :each_branch_is_analysed_with_the_copies_known_before_the_if_else
      final(binded_value_cx).visits() =~= old(binded_value_cx).visits().push(old(binded_value_cx).stack().push(empty_scope())).push(old(binded_value_cx).stack().push(empty_scope())),  // :each_branch_is_analysed_with_the_values_known_before_the_if_else
//@end

proof fn canary_must_fail_lvnscope() ensures false {}

} // verus!
fn main() {}
