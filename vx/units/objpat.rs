// Unit `objpat` — C01 kernel: which field an object pattern element reads.
// The element loop body of the `MatchingPattern::Object` arm of lower_matching_pattern
// (crates/samlang-compiler/src/hir_lowering.rs), as an R14 block: `let { c, a } = p` must read field `c` into c and
// field `a` into a — the fields the elements NAME (their field_order, assigned by the checker), not the first and
// second field of the class.
use vstd::prelude::*;
verus! {

global size_of usize == 8;

#[verifier::external_body]
#[derive(Clone, Copy)]
struct PStr { _p: u128 }
#[verifier::external_body]
struct MatchingPattern { _p: u8 }
#[verifier::external_body]
struct BindingNames { _p: u8 }

/// R6: the pattern element reduced to the fields read here
struct ObjectPatternElement {
  field_order: usize,
  pattern: Box<MatchingPattern>,
}

mod hir {
  use super::*;
  #[verifier::external_body]
  pub struct Type { _p: u8 }
  impl Type {
    /// Dupe::dupe is a cheap clone
    #[verifier::external_body]
    pub fn dupe(&self) -> (r: Type) ensures r == *self { unimplemented!() }
  }
  #[verifier::external_body]
  pub struct Expression { _p: u8 }
  pub uninterp spec fn variable(name: PStr, t: Type) -> Expression;
  impl Expression {
    #[verifier::external_body]
    pub fn dupe(&self) -> (r: Expression) ensures r == *self { unimplemented!() }
    #[verifier::external_body]
    pub fn var_name(name: PStr, t: Type) -> (r: Expression) ensures r == variable(name, t) { unimplemented!() }
  }
  /// R6: the statement type reduced to the variant constructed here and an opaque rest
  pub enum Statement {
    IndexedAccess { name: PStr, type_: Type, pointer_expression: Expression, index: usize },
    Other(u8),
  }
}
struct LoweringResult { statements: Vec<hir::Statement>, expression: hir::Expression }

#[verifier::external_body]
struct ExpressionLoweringManager { _p: u8 }
impl ExpressionLoweringManager {
  #[verifier::external_body]
  fn allocate_temp_variable(&mut self) -> (r: PStr) { unimplemented!() }
  /// the recursive call (opaque): statements that bind the nested pattern against the given value
  #[verifier::external_body]
  fn lower_matching_pattern(&mut self, pattern: &MatchingPattern, binding_names: &mut BindingNames, lowered_expression: hir::Expression) -> (r: LoweringResult)
    ensures nested_lowering_of(*pattern, lowered_expression, r)
  { unimplemented!() }

//@extractblock crates/samlang-compiler/src/hir_lowering.rs :: impl<'a> ExpressionLoweringManager<'a> / fn lower_matching_pattern
//@from let index = nested.field_order; let field_type = &resolved_struct_mappings[index];
//@to pointer_expression: lowered_expression.dupe(), index, }, );
//@wrap fn object_element_access(&mut self, nested: &ObjectPatternElement, resolved_struct_mappings: &Vec<hir::Type>, lowered_expression: &hir::Expression, binding_names: &mut BindingNames) -> (r: (Vec<hir::Statement>, hir::Expression, PStr))
//@contract
    requires
      // the checker numbers the fields of the class; an element's field_order is the number of the field it names
      nested.field_order < resolved_struct_mappings@.len(),
    ensures
      // the first statement reads the field the element NAMES, with that field's type, from the matched value, into the
      // temporary the nested pattern is then matched against
      r.0@.len() > 0 && r.0@[0] == (hir::Statement::IndexedAccess {
        name: r.2, type_: resolved_struct_mappings@[nested.field_order as int],
        pointer_expression: *lowered_expression, index: nested.field_order }),  // :element_reads_the_field_it_names
      exists|rest: LoweringResult| nested_lowering_of(*nested.pattern, hir::variable(r.2, resolved_struct_mappings@[nested.field_order as int]), rest)
        && r.0@.subrange(1, r.0@.len() as int) == rest.statements@ && r.1 == rest.expression,  // :nested_pattern_is_matched_against_that_field
//@atend
  (nested_pattern_lowering_stmts, nested_pattern_condition, name)
//@end
}
uninterp spec fn nested_lowering_of(p: MatchingPattern, v: hir::Expression, r: LoweringResult) -> bool;

proof fn canary_must_fail_objpat() ensures false {}

} // verus!
fn main() {}
