// Unit `oparms` — C04 / C01 kernel: the text the two back ends emit for one binary operation.
// The Binary arm of lir::Statement::pretty_print_internal (TypeScript) and the Binary arm of
// wasm::InlineInstruction::pretty_print (WebAssembly), each extracted verbatim as a block (R14), plus
// hir::BinaryOperator::as_str.  What the templates MEAN is unit `opsem`.
use vstd::prelude::*;
use std::collections::HashMap;
verus! {

global size_of usize == 8;

//@extract crates/samlang-ast/src/hir.rs :: enum BinaryOperator
//@attr #[derive(Clone, Copy, PartialEq, Eq, Structural)]
//@end

/// the JavaScript operator token for each source operator (truncating `/` is spelled with Math.floor
/// by the template, see below)
spec fn js_token(op: BinaryOperator) -> Seq<char> {
  match op {
    BinaryOperator::MUL => "*"@,
    BinaryOperator::DIV => "/"@,
    BinaryOperator::MOD => "%"@,
    BinaryOperator::PLUS => "+"@,
    BinaryOperator::MINUS => "-"@,
    BinaryOperator::LAND => "&"@,
    BinaryOperator::LOR => "|"@,
    BinaryOperator::SHL => "<<"@,
    BinaryOperator::SHR => ">>>"@,
    BinaryOperator::XOR => "^"@,
    BinaryOperator::LT => "<"@,
    BinaryOperator::LE => "<="@,
    BinaryOperator::GT => ">"@,
    BinaryOperator::GE => ">="@,
    BinaryOperator::EQ => "=="@,
    BinaryOperator::NE => "!="@,
  }
}

/// the WebAssembly instruction whose specified meaning is the operator's on i32 (signed division,
/// remainder and comparisons; logical right shift)
spec fn wasm_mnemonic(op: BinaryOperator) -> Seq<char> {
  match op {
    BinaryOperator::MUL => "mul"@,
    BinaryOperator::DIV => "div_s"@,
    BinaryOperator::MOD => "rem_s"@,
    BinaryOperator::PLUS => "add"@,
    BinaryOperator::MINUS => "sub"@,
    BinaryOperator::LAND => "and"@,
    BinaryOperator::LOR => "or"@,
    BinaryOperator::SHL => "shl"@,
    BinaryOperator::SHR => "shr_u"@,
    BinaryOperator::XOR => "xor"@,
    BinaryOperator::LT => "lt_s"@,
    BinaryOperator::LE => "le_s"@,
    BinaryOperator::GT => "gt_s"@,
    BinaryOperator::GE => "ge_s"@,
    BinaryOperator::EQ => "eq"@,
    BinaryOperator::NE => "ne"@,
  }
}

impl BinaryOperator {
//@extract crates/samlang-ast/src/hir.rs :: impl BinaryOperator / fn as_str
//@ret r
//@contract
    ensures r@ == js_token(*self),  // :operator_text_is_the_javascript_token
//@end
}

// ---- R7: opaque collaborators; an operand is abstracted to the text it prints as
#[verifier::external_body]
struct Heap { _p: u8 }
#[verifier::external_body]
struct SymbolTable { _p: u8 }
#[verifier::external_body]
#[derive(Clone, Copy, PartialEq, Eq, Hash)]
struct PStr { _p: u128 }

#[verifier::external_body]
struct Expression { _p: u8 }
uninterp spec fn expr_text(e: Expression) -> Seq<char>;
uninterp spec fn expr_is_str(e: Expression) -> bool;
impl Expression {
  #[verifier::external_body]
  fn pretty_print(&self, collector: &mut String, heap: &Heap, symbol_table: &SymbolTable, str_table: &HashMap<PStr, usize>)
    ensures final(collector)@ == old(collector)@ + expr_text(*self)
  { unimplemented!() }
  #[verifier::external_body]
  fn type_is_str(&self) -> (r: bool) ensures r == expr_is_str(*self) { unimplemented!() }
}

#[verifier::external_body]
struct InlineInstruction { _p: u8 }
uninterp spec fn instr_text(i: InlineInstruction) -> Seq<char>;
impl InlineInstruction {
  #[verifier::external_body]
  fn pretty_print(&self, collector: &mut String, heap: &Heap, table: &SymbolTable)
    ensures final(collector)@ == old(collector)@ + instr_text(*self)
  { unimplemented!() }
}

spec fn is_comparison(op: BinaryOperator) -> bool {
  op == BinaryOperator::LT || op == BinaryOperator::LE || op == BinaryOperator::GT || op == BinaryOperator::GE
    || op == BinaryOperator::EQ || op == BinaryOperator::NE
}

/// The TypeScript expression for `a op b` (a, b = printed operands):
///   integer division            Math.floor(a / b)        (see unit opsem for what this means)
///   comparisons                 Number(a op b)
///   (in)equality of strings     Number(a[1] ==/!== b[1])   — compares the string payloads
///   everything else             a op b
spec fn ts_template(op: BinaryOperator, e1: Expression, e2: Expression) -> Seq<char> {
  let (a, b) = (expr_text(e1), expr_text(e2));
  if op == BinaryOperator::DIV {
    "Math.floor("@ + a + " "@ + js_token(op) + " "@ + b + ")"@
  } else if is_comparison(op) {
    if (op == BinaryOperator::EQ || op == BinaryOperator::NE) && (expr_is_str(e1) || expr_is_str(e2)) {
      "Number("@ + a + "[1] "@ + js_token(op) + "= "@ + b + "[1]"@ + ")"@
    } else {
      "Number("@ + a + " "@ + js_token(op) + " "@ + b + ")"@
    }
  } else {
    a + " "@ + js_token(op) + " "@ + b
  }
}

//@extractblock crates/samlang-ast/src/lir.rs :: impl Statement / fn pretty_print_internal
//@from match *operator {
//@to } };
//@wrap fn ts_binary_arm(operator: &BinaryOperator, e1: &Expression, e2: &Expression, collector: &mut String, heap: &Heap, symbol_table: &SymbolTable, str_table: &HashMap<PStr, usize>)
//@contract
    ensures
      final(collector)@ =~= old(collector)@ + ts_template(*operator, *e1, *e2),  // :typescript_expression_is_the_operators_template
//@before match *operator {
proof { reveal_strlit(" "); reveal_strlit(")"); }
//@end

/// The WebAssembly text for `v1 op v2`: `(i32.<mnemonic> v1 v2)`, operands in source order; equality of
/// references is `(ref.eq v1 v2)`, inequality `(i32.xor (ref.eq v1 v2) (i32.const 1))`.
spec fn wasm_template(op: BinaryOperator, is_ref: bool, v1: InlineInstruction, v2: InlineInstruction) -> Seq<char> {
  let (a, b) = (instr_text(v1), instr_text(v2));
  if is_ref && op == BinaryOperator::NE {
    "(i32.xor (ref.eq "@ + a + " "@ + b + ") (i32.const 1))"@
  } else if is_ref && op == BinaryOperator::EQ {
    "(ref.eq "@ + a + " "@ + b + ")"@
  } else {
    "(i32."@ + wasm_mnemonic(op) + " "@ + a + " "@ + b + ")"@
  }
}

//@extractblock crates/samlang-ast/src/wasm.rs :: impl InlineInstruction / fn pretty_print
//@from if *is_ref_comparison && matches!(op, hir::BinaryOperator::EQ | hir::BinaryOperator::NE) {
//@to #5 collector.push(')'); }
//@wrap fn wasm_binary_arm(v1: &Box<InlineInstruction>, op: &BinaryOperator, v2: &Box<InlineInstruction>, is_ref_comparison: &bool, collector: &mut String, heap: &Heap, table: &SymbolTable)
//@replace* hir::BinaryOperator:: => BinaryOperator:: ## R1: module path of the extracted enum
//@contract
    ensures
      final(collector)@ =~= old(collector)@ + wasm_template(*op, *is_ref_comparison, **v1, **v2),  // :webassembly_instruction_is_the_operators
//@before if *is_ref_comparison && matches!(op, hir::BinaryOperator::EQ | hir::BinaryOperator::NE) {
proof { reveal_strlit(" "); reveal_strlit(")"); }
//@end

proof fn canary_must_fail_oparms() ensures false {}

} // verus!
fn main() {}
