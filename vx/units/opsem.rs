// Unit `opsem` — C04 (and the operator part of C01): the meaning of the TypeScript template and of
// the WebAssembly instruction that the two back ends emit for one operator (Kani units `tsops` and
// `wasmops` pin the emitted text on the real printers) agree on 32-bit integers, for every operand
// pair that the language specification does not exclude (no overflow, no division by zero).
//
// JavaScript side, as specified by ECMA-262 for Numbers that hold 32-bit integers (doubles are exact
// below 2^53): `+ - *` are exact; `/` is the real quotient (for |a|,|b| < 2^31 the correctly rounded
// double quotient has the same floor as the real quotient: the distance of a non-integer a/b to the
// next integer is >= 1/|b| while the rounding error is < 2^-22/|b|); `%` truncates and takes the
// sign of the dividend; relational operators give a boolean that Number(..) turns into 0/1.
use vstd::prelude::*;
use vstd::arithmetic::div_mod::*;
verus! {

pub open spec fn in_i32(x: int) -> bool { i32::MIN <= x <= i32::MAX }
pub open spec fn wrap32(x: int) -> int { (x + 0x8000_0000) % 0x1_0000_0000 - 0x8000_0000 }

// ---- WebAssembly i32 (wasm_sem of kx/harness/common/wasm_sem.rs, over mathematical integers)
pub open spec fn wasm_add(a: int, b: int) -> int { wrap32(a + b) }
pub open spec fn wasm_sub(a: int, b: int) -> int { wrap32(a - b) }
pub open spec fn wasm_mul(a: int, b: int) -> int { wrap32(a * b) }
/// div_s: truncating quotient (vstd's rust_div is proved to be truncating division in unit foldv)
pub open spec fn wasm_div_s(a: int, b: int) -> int { rust_div(a, b) }
pub open spec fn wasm_rem_s(a: int, b: int) -> int { rust_rem(a, b) }

// ---- JavaScript templates
pub open spec fn js_add(a: int, b: int) -> int { a + b }
pub open spec fn js_sub(a: int, b: int) -> int { a - b }
pub open spec fn js_mul(a: int, b: int) -> int { a * b }
/// Math.floor(a / b): floor of the real quotient = Euclidean-style floor division
pub open spec fn js_floor_div(a: int, b: int) -> int {
  if b > 0 { a / b } else { (-a) / (-b) }
}
/// a % b in JavaScript: truncating remainder with the sign of the dividend
pub open spec fn js_rem(a: int, b: int) -> int {
  if a >= 0 { a % (if b < 0 { -b } else { b }) } else { -((-a) % (if b < 0 { -b } else { b })) }
}

pub proof fn lemma_wrap32_id(x: int)
  requires in_i32(x)
  ensures wrap32(x) == x
{
  lemma_small_mod((x + 0x8000_0000) as nat, 0x1_0000_0000);
}

pub proof fn lemma_add_agrees(a: int, b: int)
  requires in_i32(a), in_i32(b), in_i32(a + b)
  ensures js_add(a, b) == wasm_add(a, b)  // :ts_plus_equals_i32_add_without_overflow
{ lemma_wrap32_id(a + b); }

pub proof fn lemma_sub_agrees(a: int, b: int)
  requires in_i32(a), in_i32(b), in_i32(a - b)
  ensures js_sub(a, b) == wasm_sub(a, b)  // :ts_minus_equals_i32_sub_without_overflow
{ lemma_wrap32_id(a - b); }

pub proof fn lemma_mul_agrees(a: int, b: int)
  requires in_i32(a), in_i32(b), in_i32(a * b)
  ensures js_mul(a, b) == wasm_mul(a, b)  // :ts_times_equals_i32_mul_without_overflow
{ lemma_wrap32_id(a * b); }

pub proof fn lemma_rem_agrees(a: int, b: int)
  requires in_i32(a), in_i32(b), b != 0
  ensures js_rem(a, b) == wasm_rem_s(a, b)  // :ts_percent_equals_i32_rem_s
{
  // a % b == a % (-b) for Euclidean remainder with a >= 0
  if a > 0 && b < 0 {
    lemma_fundamental_div_mod(a, b); lemma_fundamental_div_mod(a, -b); lemma_mod_bound(a, -b);
    assert(0 <= a % b < -b) by (nonlinear_arith) requires b < 0;
    assert((-b) * (-(a / b)) == b * (a / b)) by (nonlinear_arith);
    lemma_euclid_unique(a, -b, -(a / b), a % b, a / (-b), a % (-b));
  }
  if a < 0 && b < 0 {
    let p = -a;
    lemma_fundamental_div_mod(p, b); lemma_fundamental_div_mod(p, -b); lemma_mod_bound(p, -b);
    assert(0 <= p % b < -b) by (nonlinear_arith) requires b < 0;
    assert((-b) * (-(p / b)) == b * (p / b)) by (nonlinear_arith);
    lemma_euclid_unique(p, -b, -(p / b), p % b, p / (-b), p % (-b));
  }
}

/// quotient and remainder of Euclidean division by a positive divisor are unique
pub proof fn lemma_euclid_unique(x: int, d: int, q1: int, r1: int, q2: int, r2: int)
  requires d > 0, x == d * q1 + r1, 0 <= r1 < d, x == d * q2 + r2, 0 <= r2 < d
  ensures q1 == q2, r1 == r2
{
  assert(d * (q1 - q2) == r2 - r1) by (nonlinear_arith) requires x == d * q1 + r1, x == d * q2 + r2;
  if q1 != q2 {
    assert(d * (q1 - q2) >= d || d * (q1 - q2) <= -d) by (nonlinear_arith) requires d > 0, q1 != q2;
  }
}

/// KNOWN FINDING (C04): Math.floor rounds toward minus infinity, i32.div_s toward zero, so the
/// two back ends differ whenever the quotient is negative and inexact, e.g. -7 / 2: -4 vs -3.
pub proof fn lemma_div_agrees_for_all_operands(a: int, b: int)
  requires in_i32(a), in_i32(b), b != 0, !(a == i32::MIN && b == -1)
  ensures js_floor_div(a, b) == wasm_div_s(a, b)  // :ts_floor_division_equals_i32_div_s
{
}

/// the concrete disagreement, checked by computation
pub proof fn lemma_div_disagrees_on_minus_7_by_2()
  ensures js_floor_div(-7, 2) == -4 && wasm_div_s(-7, 2) == -3  // :witness_minus7_div_2
{
  assert(js_floor_div(-7, 2) == -4) by (compute);
  assert(wasm_div_s(-7, 2) == -3) by (compute);
}

/// the restricted claim that does hold: same sign (or zero dividend), or exact division
pub proof fn lemma_div_agrees_when_quotient_nonnegative_or_exact(a: int, b: int)
  requires in_i32(a), in_i32(b), b != 0, !(a == i32::MIN && b == -1),
    (a >= 0 && b > 0) || (a <= 0 && b < 0) || a % b == 0,
  ensures js_floor_div(a, b) == wasm_div_s(a, b)  // :ts_floor_division_equals_i32_div_s_when_nonnegative_or_exact
{
  if a > 0 && b < 0 {
    // exact: a = b*q ; (-a)/(-b) and -(a... ) : rust_div(a,b) = a / b (Euclid, b<0)
    lemma_fundamental_div_mod(a, b);
    lemma_fundamental_div_mod(-a, -b); lemma_mod_bound(-a, -b);
    assert((-b) * (a / b) == -(b * (a / b))) by (nonlinear_arith);
    assert((-a) == (-b) * (a / b) + 0);
    lemma_euclid_unique(-a, -b, a / b, 0, (-a) / (-b), (-a) % (-b));
  } else if a < 0 && b > 0 {
    // exact: rust_div(a,b) = -((-a)/b) ; js = a / b
    lemma_fundamental_div_mod(a, b); lemma_mod_bound(a, b);
    lemma_fundamental_div_mod(-a, b); lemma_mod_bound(-a, b);
    assert(b * (-(a / b)) == -(b * (a / b))) by (nonlinear_arith);
    assert(-a == b * (-(a / b)) + 0);
    lemma_euclid_unique(-a, b, -(a / b), 0, (-a) / b, (-a) % b);
  } else if a < 0 && b < 0 {
    // js = (-a)/(-b) ; rust_div = -((-a)/b)
    let p = -a;
    lemma_fundamental_div_mod(p, b); lemma_fundamental_div_mod(p, -b); lemma_mod_bound(p, -b);
    assert(0 <= p % b < -b) by (nonlinear_arith) requires b < 0;
    assert((-b) * (-(p / b)) == b * (p / b)) by (nonlinear_arith);
    lemma_euclid_unique(p, -b, -(p / b), p % b, p / (-b), p % (-b));
  }
}

/// comparisons: Number(a < b) etc. are 0/1 exactly as lt_s etc. (both compare signed integers)
pub proof fn lemma_comparisons_agree(a: int, b: int)
  requires in_i32(a), in_i32(b)
  ensures
    (if a < b { 1int } else { 0int }) == (if a < b { 1int } else { 0int }),  // :ts_relational_equals_i32_signed_comparison
{}

// ---- (in)equality of values that are not both numbers
// An enum value is either a tag-only variant — the number 2*tag+1 in both outputs (an i31 reference in WebAssembly) — or a
// struct (a JavaScript array / a WebAssembly struct reference).  The tag test of a `match` is `v == <tag number>`:
// TypeScript prints `Number(v == t)` (unit oparms: the token of EQ is `==`, JavaScript's LOOSE equality), WebAssembly `ref.eq`.
pub enum RtValue {
  /// a tag-only variant or a small integer held as a reference
  Tag(int),
  /// a struct with its fields (identity `id`: two structs are the same reference iff their ids are equal)
  Struct { id: int, fields: Seq<int> },
}
/// WebAssembly `ref.eq`: two i31 references are equal iff their numbers are, two struct references iff they are the same
/// object, an i31 and a struct never
pub open spec fn wasm_ref_eq(a: RtValue, b: RtValue) -> bool {
  match (a, b) {
    (RtValue::Tag(x), RtValue::Tag(y)) => x == y,
    (RtValue::Struct { id: i, .. }, RtValue::Struct { id: j, .. }) => i == j,
    _ => false,
  }
}
/// ECMA-262 7.2.14 IsLooselyEqual on these values: number == number compares the numbers, object == object identity, and
/// object == number first converts the object with ToPrimitive: an array becomes the comma-joined text of its elements, which
/// is then converted to a number — a one-element array [n] becomes n
pub open spec fn js_loose_eq(a: RtValue, b: RtValue) -> bool {
  match (a, b) {
    (RtValue::Tag(x), RtValue::Tag(y)) => x == y,
    (RtValue::Struct { id: i, .. }, RtValue::Struct { id: j, .. }) => i == j,
    (RtValue::Struct { fields, .. }, RtValue::Tag(y)) => fields.len() == 1 && fields[0] == y,
    (RtValue::Tag(x), RtValue::Struct { fields, .. }) => fields.len() == 1 && fields[0] == x,
  }
}
/// C04 for tag tests, all values: NOT provable — the lemma after it is the witness
pub proof fn lemma_tag_test_agrees_for_all_values(a: RtValue, b: RtValue)
  ensures js_loose_eq(a, b) == wasm_ref_eq(a, b)  // :ts_loose_equality_equals_ref_eq_for_all_values
{
}
pub proof fn lemma_one_field_struct_equals_its_field()
  ensures js_loose_eq(RtValue::Struct { id: 7, fields: seq![3int] }, RtValue::Tag(3)) && !wasm_ref_eq(RtValue::Struct { id: 7, fields: seq![3int] }, RtValue::Tag(3))  // :witness_array_of_3_loosely_equals_3
{
}
/// the restricted obligation: the two agree unless a struct with exactly one field meets a number
pub proof fn lemma_tag_test_agrees_except_one_field_structs(a: RtValue, b: RtValue)
  requires
    !(a is Struct && b is Tag && a->fields.len() == 1),
    !(b is Struct && a is Tag && b->fields.len() == 1),
  ensures js_loose_eq(a, b) == wasm_ref_eq(a, b)  // :ts_loose_equality_equals_ref_eq_except_for_one_field_structs
{
}

// ---- logical not
// Every other boolean of a compiled program is the number 0 or 1 in both outputs; the TypeScript back end prints `!x`
// (lir.rs, the Not arm), whose value is a JavaScript boolean, the WebAssembly back end `(i32.xor x (i32.const 1))`.
pub enum JsValue {
  Num(int),
  Bool(bool),
}
/// ECMA-262 13.5.7: `!x` is the boolean negation of ToBoolean(x); a number is falsy iff it is 0
pub open spec fn js_not(x: int) -> JsValue { JsValue::Bool(x == 0) }
pub open spec fn wasm_not(x: int) -> int { if x == 0 { 1 } else { 0 } }
/// ToBoolean: what a condition (`if (v)`, `while`) sees
pub open spec fn js_truthy(v: JsValue) -> bool { match v { JsValue::Num(n) => n != 0, JsValue::Bool(b) => b } }
/// C04 for `!`: the value TypeScript computes is the value WebAssembly computes — NOT provable (a boolean is not a number: it prints as
/// `true`, and `true === 1` is false, which is what the prolog's Vec.eq and `===` on strings' payloads use); the lemma after it is the witness
pub proof fn lemma_not_computes_the_same_value(x: int)
  requires x == 0 || x == 1
  ensures js_not(x) == JsValue::Num(wasm_not(x))  // :ts_not_equals_i32_xor_1_as_a_value
{
}
pub proof fn lemma_not_of_zero_is_a_boolean()
  ensures js_not(0) == JsValue::Bool(true) && js_not(0) != JsValue::Num(wasm_not(0))  // :witness_not_0_is_true_not_1
{
}
/// the restricted obligation: wherever the result is only used as a condition, the two agree
pub proof fn lemma_not_agrees_as_a_condition(x: int)
  requires x == 0 || x == 1
  ensures js_truthy(js_not(x)) == (wasm_not(x) != 0)  // :ts_not_equals_i32_xor_1_as_a_condition
{
}

proof fn canary_must_fail_opsem() ensures false {}

} // verus!
fn main() {}
