// Unit `paren` — C08 kernel: where the formatter puts parentheses around the operands of a binary
// expression.  The Binary arm of create_doc_without_preceding_comment and
// create_doc_for_subexpression_considering_precedence_level (crates/samlang-printer/src/source_printer.rs),
// extracted verbatim (R14 for the arm).
use vstd::prelude::*;
use std::rc::Rc;
verus! {

global size_of usize == 8;

// ---- R7: opaque collaborators.  A document is abstracted to "how it was built".
#[verifier::external_body]
struct Heap { _p: u8 }
#[verifier::external_body]
struct CommentStore { _p: u8 }
#[verifier::external_body]
#[derive(Clone, Copy)]
struct CommentReference { _p: usize }

//@extract crates/samlang-ast/src/source.rs :: mod expr / enum BinaryOperator
//@attr #[derive(Clone, Copy, PartialEq, Eq, Structural)]
//@end

/// the syntax tree, reduced to what the parenthesis decision looks at
#[verifier::external_body]
struct E { _p: u8 }
struct Binary {
  operator_preceding_comments: CommentReference,
  operator: BinaryOperator,
  e1: Box<E>,
  e2: Box<E>,
}

/// number the formatter assigns to an expression kind (E::precedence; its table is Kani unit `prec`)
uninterp spec fn prec(e: E) -> int;
/// Some(op) iff e is a binary expression with operator op
uninterp spec fn binary_operator_of(e: E) -> Option<BinaryOperator>;

impl E {
  #[verifier::external_body]
  fn precedence(&self) -> (r: i32) ensures r == prec(*self) { unimplemented!() }
  /// R3: `matches!(e.e2.as_ref(), expr::E::Binary(e2) if e2.operator == e.operator)`
  #[verifier::external_body]
  fn is_binary_with_operator(&self, op: BinaryOperator) -> (r: bool) ensures r == (binary_operator_of(*self) == Some(op)) { unimplemented!() }
}

/// whether the printed expression ends with `.name` (what the real ends_with_member_name computes; opaque here)
uninterp spec fn ends_with_member(e: E) -> bool;
#[verifier::external_body]
fn ends_with_member_name(expression: &E) -> (r: bool) ensures r == ends_with_member(*expression) { unimplemented!() }

/// abstract documents
#[verifier::external_body]
struct Document { _p: u8 }
uninterp spec fn doc_of(e: E) -> Document;            // create_doc(heap, comment_store, e)
uninterp spec fn doc_paren(d: Document) -> Document;  // parenthesis_surrounded_doc(d)
uninterp spec fn doc_concat(ds: Seq<Document>) -> Document;
uninterp spec fn doc_comments(c: CommentReference) -> Document;
uninterp spec fn doc_operator(op: BinaryOperator) -> Document;
/// injectivity that the contracts rely on: a parenthesised document is never the bare one
broadcast axiom fn axiom_paren_differs(d: Document)
  ensures #[trigger] doc_paren(d) != d;

#[verifier::external_body]
fn create_doc(heap: &Heap, comment_store: &CommentStore, expression: &E) -> (r: Document)
  ensures r == doc_of(*expression)
{ unimplemented!() }
#[verifier::external_body]
fn parenthesis_surrounded_doc(doc: Document) -> (r: Document)
  ensures r == doc_paren(doc)
{ unimplemented!() }
/// R3: the comment docs in front of the operator (`if let Some(doc) = associated_comments_doc(..) {..} else { Nil }`)
#[verifier::external_body]
fn operator_comments_doc(heap: &Heap, comment_store: &CommentStore, c: CommentReference) -> (r: Document)
  ensures r == doc_comments(c)
{ unimplemented!() }
/// R3: `Document::concat(vec![" ", op, " "])`
#[verifier::external_body]
fn operator_doc_of(op: BinaryOperator) -> (r: Document)
  ensures r == doc_operator(op)
{ unimplemented!() }
#[verifier::external_body]
fn document_concat4(a: Document, b: Document, c: Document, d: Document) -> (r: Document)
  ensures r == doc_concat(seq![a, b, c, d])
{ unimplemented!() }

//@extract crates/samlang-printer/src/source_printer.rs :: fn create_doc_for_subexpression_considering_precedence_level
//@ret r
//@replace* expr::E<()> => E ## R7: the syntax tree type is opaque here
//@contract
    ensures
      r == (if (if equal_level_parenthesis { prec(*sub_expression) >= prec(*expression) } else { prec(*sub_expression) > prec(*expression) })
            { doc_paren(doc_of(*sub_expression)) } else { doc_of(*sub_expression) }),  // :parenthesised_iff_not_tighter
//@end

/// What re-parsing needs for the same tree with left-associative operators: the left operand is
/// parenthesised iff it binds looser than the operator, the right operand iff it binds looser OR equally.
spec fn left_doc_wanted(expression: E, e1: E) -> Document {
  if prec(e1) > prec(expression) { doc_paren(doc_of(e1)) } else { doc_of(e1) }
}
spec fn right_doc_wanted(expression: E, e2: E) -> Document {
  if prec(e2) >= prec(expression) { doc_paren(doc_of(e2)) } else { doc_of(e2) }
}
/// `x.name <` would be read as the start of type arguments: a left operand of `<` that ends with a member name is
/// always parenthesised; otherwise the left operand is parenthesised iff it binds looser
spec fn binary_doc_wanted(expression: E, e: Binary) -> Document {
  let left = if e.operator == BinaryOperator::LT && ends_with_member(*e.e1) { doc_paren(doc_of(*e.e1)) } else { left_doc_wanted(expression, *e.e1) };
  doc_concat(seq![left, doc_comments(e.operator_preceding_comments), doc_operator(e.operator), right_doc_wanted(expression, *e.e2)])
}
spec fn is_associative(op: BinaryOperator) -> bool {
  op == BinaryOperator::PLUS || op == BinaryOperator::MUL || op == BinaryOperator::AND || op == BinaryOperator::OR || op == BinaryOperator::CONCAT
}
//@extractblock crates/samlang-printer/src/source_printer.rs :: fn create_doc_without_preceding_comment
//@from let operator_preceding_comments_docs = if let Some(doc) = associated_comments_doc(
//@to #3 &e.e2, true, ), ])
//@wrap fn binary_arm(heap: &Heap, comment_store: &CommentStore, expression: &E, e: &Binary) -> (r: Document)
//@replace if let Some(doc) = associated_comments_doc( heap, comment_store, vec![e.operator_preceding_comments], DocumentGrouping::Grouped, false, ) { Document::group(Document::Concat(Rc::new(Document::Line), Rc::new(doc))) } else { Document::Nil } => operator_comments_doc(heap, comment_store, e.operator_preceding_comments) ## R3: the comment docs in front of the operator
//@replace Document::concat(vec![ Document::Text(" "), Document::Text(e.operator.kind_str()), Document::Text(" "), ]) => operator_doc_of(e.operator) ## R3: the operator text between blanks
//@replace matches!(e.e2.as_ref(), expr::E::Binary(e2) if e2.operator == e.operator) => e.e2.is_binary_with_operator(e.operator) ## R3: matches! on the opaque syntax tree
//@replace* expr::BinaryOperator:: => BinaryOperator:: ## R1: module path of the extracted enum
//@replace* Document::concat(vec![ => document_concat4( ## R3: Document::concat of a four-element vec
//@replace* , ]) => ) ## R3: closing of Document::concat(vec![..]) (see previous rule)
//@contract
    ensures
      r == binary_doc_wanted(*expression, *e)
      || (prec(*e.e2) == prec(*expression) && is_associative(e.operator) && binary_operator_of(*e.e2) == Some(e.operator)
          && r == doc_concat(seq![left_doc_wanted(*expression, *e.e1), doc_comments(e.operator_preceding_comments),
                                  doc_operator(e.operator), doc_of(*e.e2)])),  // :operands_parenthesised_as_reparsing_needs_up_to_same_associative_operator
      r == binary_doc_wanted(*expression, *e),  // :operands_parenthesised_exactly_as_reparsing_needs
//@end

// ---- the Unary arm.  The grammar's unary operand is a postfix-level expression (`-` / `!` followed by
// parse_function_call_or_field_access), so re-parsing needs the operand parenthesised unless it binds
// tighter than the unary expression itself — in particular a nested unary: `-(-a)`.
struct Unary {
  argument: Box<E>,
}
uninterp spec fn doc_unary(operand: Document) -> Document;
/// R3: `Document::Concat(Rc::new(Document::Text(e.operator.kind_str())), Rc::new(operand))`
#[verifier::external_body]
fn document_unary(operand: Document) -> (r: Document)
  ensures r == doc_unary(operand)
{ unimplemented!() }

//@extractblock crates/samlang-printer/src/source_printer.rs :: fn create_doc_without_preceding_comment
//@from Document::Concat( Rc::new(Document::Text(e.operator.kind_str())),
//@to )), )
//@wrap fn unary_arm(heap: &Heap, comment_store: &CommentStore, expression: &E, e: &Unary) -> (r: Document)
//@replace Document::Concat( Rc::new(Document::Text(e.operator.kind_str())), => document_unary( ## R3: the operator text in front of the operand document
//@replace Rc::new(create_doc_for_subexpression_considering_precedence_level( => create_doc_for_subexpression_considering_precedence_level( ## R3: (see previous rule) the operand document is passed directly
//@replace )), ) => )) ## R3: closing of the replaced Document::Concat(Rc::new(..), Rc::new(..))
//@contract
    ensures
      r == doc_unary(if prec(*e.argument) >= prec(*expression) { doc_paren(doc_of(*e.argument)) } else { doc_of(*e.argument) }),  // :unary_operand_parenthesised_unless_it_binds_tighter
//@end

// ---- expression statements keep their `;` (the parser requires one after every expression statement of a block)
#[verifier::external_body]
struct DeclarationStatement { _p: u8 }
/// the statement type, reduced to its two forms (R6/R7: type parameter and payloads opaque)
enum Statement {
  Declaration(Box<DeclarationStatement>),
  Expression(Box<E>),
}
uninterp spec fn doc_declaration(d: DeclarationStatement) -> Document;
uninterp spec fn doc_text(t: Seq<char>) -> Document;
#[verifier::external_body]
fn declaration_statement_to_document(heap: &Heap, comment_store: &CommentStore, stmt: &DeclarationStatement) -> (r: Document)
  ensures r == doc_declaration(*stmt)
{ unimplemented!() }
#[verifier::external_body]
fn document_text(t: &'static str) -> (r: Document) ensures r == doc_text(t@) { unimplemented!() }
#[verifier::external_body]
fn document_concat2(a: Document, b: Document) -> (r: Document) ensures r == doc_concat(seq![a, b]) { unimplemented!() }

//@extract crates/samlang-printer/src/source_printer.rs :: fn statement_to_document
//@ret r
//@replace* expr::Statement<()> => Statement ## R7: the statement type is reduced to its two forms
//@replace* expr::Statement:: => Statement:: ## R1: module path
//@replace Document::concat(vec![create_doc(heap, comment_store, expr), Document::Text(";")]) => document_concat2(create_doc(heap, comment_store, expr), document_text(";")) ## R3: Document::concat of a two-element vec; enum constructor as a function
//@contract
    ensures
      stmt matches Statement::Expression(e) ==> r == doc_concat(seq![doc_of(**e), doc_text(";"@)]),  // :expression_statement_ends_with_a_semicolon
      stmt matches Statement::Declaration(d) ==> r == doc_declaration(**d),
//@end

proof fn canary_must_fail_paren() ensures false { broadcast use axiom_paren_differs; }

} // verus!
fn main() {}
