// Unit `parsetok` — C14 kernel: the parser's notion of "where the last token ended".
// SourceParser::{peek, consume} (crates/samlang-parser/src/source_parser.rs), verbatim.  Productions end their ranges
// at `last_location`; it must be the location of the last CONSUMED token — looking ahead (which skips comments) may not
// move it, otherwise a range swallows the comment that follows the construct.
use vstd::prelude::*;
verus! {

global size_of usize == 8;

#[verifier::external_body]
#[derive(Clone, Copy)]
struct PStr { _p: u128 }
#[verifier::external_body]
#[derive(Clone, Copy)]
struct Location { _p: u8 }
#[verifier::external_body]
struct Heap { _p: u8 }
#[verifier::external_body]
struct ErrorSet { _p: u8 }

//@extract crates/samlang-ast/src/source.rs :: enum CommentKind
//@attr #[derive(Clone, Copy)]
//@end
//@extract crates/samlang-ast/src/source.rs :: struct Comment
//@attr #[derive(Clone, Copy)]
//@end

/// R6: the token content reduced to the variants peek distinguishes, and an opaque rest
#[derive(Clone, Copy)]
enum TokenContent {
  LineComment(PStr),
  BlockComment(PStr),
  DocComment(PStr),
  EndOfFile,
  Other(u8),
}
//@extract crates/samlang-parser/src/lexer.rs :: struct Token
//@attr #[derive(Clone, Copy)]
//@end

spec fn is_comment(t: Token) -> bool { t.1 is LineComment || t.1 is BlockComment || t.1 is DocComment }

/// the lexer's token stream: what is still to come
#[verifier::external_body]
struct TokenProducer { _p: u8 }
impl TokenProducer {
  uninterp spec fn rest(&self) -> Seq<Token>;
  #[verifier::external_body]
  fn next_token(&mut self, heap: &mut Heap, error_set: &mut ErrorSet) -> (r: Option<Token>)
    ensures
      old(self).rest().len() == 0 ==> r is None && final(self).rest() == old(self).rest(),
      old(self).rest().len() > 0 ==> r == Some(old(self).rest()[0]) && final(self).rest() == old(self).rest().skip(1),
  { unimplemented!() }
}

/// R6: the parser reduced to the fields peek and consume touch
struct SourceParser<'a> {
  token_producer: TokenProducer,
  peeked: Option<Token>,
  pending_comments: Vec<Comment>,
  last_location: Location,
  heap: &'a mut Heap,
  error_set: &'a mut ErrorSet,
}

/// the first token of the stream that is not a comment (None = only comments are left)
spec fn first_real_token(ts: Seq<Token>) -> Option<Token>
  decreases ts.len()
{
  if ts.len() == 0 { None } else if is_comment(ts[0]) { first_real_token(ts.skip(1)) } else { Some(ts[0]) }
}

impl<'a> SourceParser<'a> {
//@extract crates/samlang-parser/src/source_parser.rs :: impl<'a> SourceParser<'a> / fn peek
//@ret r
//@contract
    ensures
      final(self).last_location == old(self).last_location,  // :looking_ahead_does_not_move_the_end_of_the_last_token
      final(self).peeked == Some(r),
      old(self).peeked matches Some(t) ==> r == t && final(self).token_producer.rest() == old(self).token_producer.rest(),  // :peeking_twice_gives_the_same_token
      old(self).peeked is None ==> (match first_real_token(old(self).token_producer.rest()) {
        Some(t) => r == t,
        None => r.1 is EndOfFile && r.0 == old(self).last_location,
      }),  // :peek_returns_the_next_token_that_is_not_a_comment
//@loop 0
      invariant
        self.peeked is None, old(self).peeked is None,
        self.last_location == old(self).last_location,  // :skipping_a_comment_keeps_the_end_of_the_last_token
        first_real_token(self.token_producer.rest()) == first_real_token(old(self).token_producer.rest()),
      // termination: every comment skipped is one token fewer still to come (the stream handed over by the lexer is finite)
      decreases self.token_producer.rest().len(),
//@end

//@extract crates/samlang-parser/src/source_parser.rs :: impl<'a> SourceParser<'a> / fn consume
//@ret r
//@replace let comments = std::mem::take(&mut self.pending_comments); => let comments = take_comments(&mut self.pending_comments); ## R3: std::mem::take on a Vec (returns it, leaves an empty one)
//@contract
    ensures
      final(self).peeked is None,
      // the end of the last token is the location of the token just consumed
      old(self).peeked matches Some(t) ==> final(self).last_location == t.0,  // :consuming_moves_the_end_to_the_consumed_token
      old(self).peeked is None ==> (match first_real_token(old(self).token_producer.rest()) {
        Some(t) => final(self).last_location == t.0,
        None => final(self).last_location == old(self).last_location,
      }),  // :consuming_moves_the_end_to_the_next_real_token
//@end
}

#[verifier::external_body]
fn take_comments(v: &mut Vec<Comment>) -> (r: Vec<Comment>)
  ensures r@ == old(v)@, final(v)@.len() == 0
{ unimplemented!() }

proof fn canary_must_fail_parsetok() ensures false {}

} // verus!
fn main() {}
