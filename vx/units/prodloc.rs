// Unit `prodloc` — C14 kernel: the range of a production encloses the ranges of its parts.
// type_parser::{parse_type_parameter, parse_identifier_annot} (crates/samlang-parser/src/source_parser.rs), verbatim;
// `Location::union` carries the contract proved by Kani unit `loc` (encloses both operands, least such range).
use vstd::prelude::*;
verus! {

global size_of usize == 8;

#[verifier::external_body]
#[derive(Clone, Copy)]
struct PStr { _p: u128 }
#[verifier::external_body]
#[derive(Clone, Copy)]
struct ModuleReference { _p: u32 }
#[verifier::external_body]
#[derive(Clone, Copy)]
struct CommentReference { _p: usize }
#[verifier::external_body]
struct Comment { _p: u8 }

/// ranges, abstractly: `encloses` is the nesting order of unit loc (reflexive, transitive)
#[verifier::external_body]
#[derive(Clone, Copy)]
struct Location { _p: u8 }
uninterp spec fn encloses(outer: Location, inner: Location) -> bool;
uninterp spec fn joined(a: Location, b: Location) -> Location;
broadcast axiom fn axiom_encloses_reflexive(a: Location)
  ensures #[trigger] encloses(a, a);
impl Location {
  /// contract proved by Kani unit loc for ranges of one module (tokens of one parser share their module)
  #[verifier::external_body]
  fn union(&self, other: &Location) -> (r: Location)
    ensures r == joined(*self, *other), encloses(r, *self), encloses(r, *other)
  { unimplemented!() }
}

//@extract crates/samlang-ast/src/source.rs :: struct Id
//@attr #[derive(Clone, Copy)]
//@end

mod annotation {
  use super::*;
//@extract crates/samlang-ast/src/source.rs :: mod annotation / struct TypeArguments
//@keeppub
//@end
//@extract crates/samlang-ast/src/source.rs :: mod annotation / struct Id
//@keeppub
//@replace super::Id => super::Id ## R1: (unchanged) the identifier type of the enclosing module
//@end
//@extract crates/samlang-ast/src/source.rs :: mod annotation / struct TypeParameter
//@keeppub
//@end
//@extract crates/samlang-ast/src/source.rs :: mod annotation / struct TypeParameters
//@keeppub
//@end
//@extract crates/samlang-ast/src/source.rs :: mod annotation / enum PrimitiveTypeKind
//@keeppub
//@end
//@extract crates/samlang-ast/src/source.rs :: mod annotation / struct ParenthesizedAnnotationList
//@keeppub
//@end
//@extract crates/samlang-ast/src/source.rs :: mod annotation / struct Function
//@keeppub
//@end
//@extract crates/samlang-ast/src/source.rs :: mod annotation / enum T
//@keeppub
//@end
  impl T {
    /// the range a type annotation carries, per variant
    pub open spec fn range(self) -> Location {
      match self {
        T::Primitive(l, _, _) => l,
        T::Id(annot) => annot.location,
        T::Generic(l, _) => l,
        T::Fn(annot) => annot.location,
      }
    }
//@extract crates/samlang-ast/src/source.rs :: mod annotation / impl T / fn location
//@keeppub
//@ret r
//@contract
      ensures r == self.range(),  // :annotation_location_is_the_range_stored_in_its_variant
//@end
  }
}

// ---- the parser, reduced to what the two productions use
#[derive(Clone, Copy)]
enum TokenOp { Colon, Arrow, Comma, RightBrace, Semicolon, RightParenthesis, GreaterThan, Assign, Other(u8) }
#[derive(Clone, Copy)]
enum Keyword { If, Other(u8) }
#[derive(Clone, Copy)]
enum TokenContent { Operator(TokenOp), Keyword(Keyword), Other(u8) }
#[derive(Clone, Copy)]
struct Token(Location, TokenContent);
#[verifier::external_body]
struct CommentStore { _p: u8 }
impl CommentStore {
  #[verifier::external_body]
  fn create_comment_reference(&mut self, comments: Vec<Comment>) -> (r: CommentReference) { unimplemented!() }
}
#[verifier::external_body]
struct ParserRest { _p: u8 }
/// R6: the parser reduced to the comment store (written by the node constructors) and an opaque rest
struct SourceParser { comments_store: CommentStore, _rest: ParserRest }
impl SourceParser {
  #[verifier::external_body]
  fn peek(&mut self) -> (r: Token) { unimplemented!() }
  #[verifier::external_body]
  fn consume(&mut self) -> (r: Vec<Comment>) { unimplemented!() }
  #[verifier::external_body]
  fn assert_and_consume_operator(&mut self, expected_kind: TokenOp) -> (r: (Location, Vec<Comment>)) { unimplemented!() }
  #[verifier::external_body]
  fn parse_upper_id_with_comments(&mut self, associated_comments: Vec<Comment>) -> (r: Id) { unimplemented!() }
}
mod utils {
  use super::*;
  #[verifier::external_body]
  pub fn resolve_class(parser: &SourceParser, class_name: PStr) -> (r: ModuleReference) { unimplemented!() }
}
#[verifier::external_body]
fn parse_optional_type_arguments(parser: &mut SourceParser) -> (r: Option<annotation::TypeArguments>) { unimplemented!() }

//@extract crates/samlang-parser/src/source_parser.rs :: mod type_parser / fn parse_identifier_annot
//@ret r
//@replace* super::SourceParser => SourceParser ## R1: module path
//@replace super::utils::resolve_class => utils::resolve_class ## R1: module path
//@contract
    ensures
      r.id == identifier,
      // the annotation's range encloses the identifier and its type arguments
      encloses(r.location, identifier.loc),
      r.type_arguments matches Some(t) ==> encloses(r.location, t.location),  // :annotation_range_encloses_its_identifier_and_type_arguments
      r.type_arguments is None ==> r.location == identifier.loc,              // :annotation_without_type_arguments_is_exactly_its_identifier
//@before let location = if let Some(node) = &type_arguments {
  proof { broadcast use axiom_encloses_reflexive; }
//@end

//@extract crates/samlang-parser/src/source_parser.rs :: mod type_parser / fn parse_type_parameter
//@ret r
//@replace* super::SourceParser => SourceParser ## R1: module path
//@replace super::type_parser::parse_identifier_annot => parse_identifier_annot ## R1: module path
//@contract
    ensures
      // the type parameter's range encloses its name and its WHOLE bound (type arguments included)
      encloses(r.loc, r.name.loc),
      r.bound matches Some(b) ==> encloses(r.loc, b.location),  // :type_parameter_range_encloses_its_name_and_bound
      r.bound is None ==> r.loc == r.name.loc,
//@before let (bound, loc) = if let Token(_, TokenContent::Operator(TokenOp::Colon)) = parser.peek() {
  proof { broadcast use axiom_encloses_reflexive; }
//@end

// =====================================================================================
// postfix expressions: the range of `object.member<TypeArgs>` and of `callee(arguments)`
// =====================================================================================
mod pattern {
  use super::*;
  /// patterns are opaque here: only their range is read
  #[verifier::external_body]
  #[verifier::accept_recursive_types(T)]
  pub struct MatchingPattern<T: Clone> { _p: core::marker::PhantomData<T> }
  impl<T: Clone> MatchingPattern<T> {
    pub uninterp spec fn range(self) -> Location;
    #[verifier::external_body]
    pub fn loc(&self) -> (r: &Location) ensures *r == self.range() { unimplemented!() }
  }
}
mod expr {
  use super::*;
//@extract crates/samlang-ast/src/source.rs :: mod expr / struct VariantPatternToExpression
//@keeppub
//@replace pattern::MatchingPattern<T> => super::pattern::MatchingPattern<T> ## R1: module path
//@end
//@extract crates/samlang-ast/src/source.rs :: mod expr / struct ExpressionCommon
//@keeppub
//@end
//@extract crates/samlang-ast/src/source.rs :: mod expr / struct FieldAccess
//@keeppub
//@end
//@extract crates/samlang-ast/src/source.rs :: mod expr / struct Call
//@keeppub
//@end
//@extract crates/samlang-ast/src/source.rs :: mod expr / struct ParenthesizedExpressionList
//@keeppub
//@end
//@extract crates/samlang-ast/src/source.rs :: mod expr / enum BinaryOperator
//@keeppub
//@attr #[derive(Clone, Copy)]
//@end
//@extract crates/samlang-ast/src/source.rs :: mod expr / struct Binary
//@keeppub
//@end
//@extract crates/samlang-ast/src/source.rs :: mod expr / enum UnaryOperator
//@keeppub
//@attr #[derive(Clone, Copy)]
//@end
//@extract crates/samlang-ast/src/source.rs :: mod expr / struct Unary
//@keeppub
//@end
//@extract crates/samlang-ast/src/source.rs :: mod expr / struct Match
//@keeppub
//@end
  /// the condition of an if-else is only carried into the node
  #[verifier::external_body]
  #[verifier::accept_recursive_types(T)]
  pub struct IfElseCondition<T: Clone> { _p: core::marker::PhantomData<T> }
//@extract crates/samlang-ast/src/source.rs :: mod expr / struct Block
//@keeppub
//@fields common
//@end
//@extract crates/samlang-ast/src/source.rs :: mod expr / enum IfElseOrBlock
//@keeppub
//@end
//@extract crates/samlang-ast/src/source.rs :: mod expr / struct IfElse
//@keeppub
//@end
  /// R6: the expression type reduced to the two variants built here and a rest that only has its common part
  pub enum E<T: Clone> {
    FieldAccess(FieldAccess<T>),
    Call(Call<T>),
    Binary(Binary<T>),
    Unary(Unary<T>),
    Match(Match<T>),
    Other(ExpressionCommon<T>),
  }
  impl<T: Clone> E<T> {
    /// `E::common().loc` of the real type: the range stored in the node's common part
    pub open spec fn range(self) -> Location {
      match self {
        E::FieldAccess(n) => n.common.loc,
        E::Call(n) => n.common.loc,
        E::Binary(n) => n.common.loc,
        E::Unary(n) => n.common.loc,
        E::Match(n) => n.common.loc,
        E::Other(c) => c.loc,
      }
    }
    #[verifier::external_body]
    pub fn loc(&self) -> (r: Location) ensures r == self.range() { unimplemented!() }
  }
}
#[verifier::external_body]
fn parse_parenthesized_expression_list(parser: &mut SourceParser, max_size: usize) -> (r: expr::ParenthesizedExpressionList<()>) { unimplemented!() }

//@extractblock crates/samlang-parser/src/source_parser.rs :: mod expression_parser / fn parse_function_call_or_field_access_with_start
//@from let explicit_type_arguments = super::type_parser::parse_optional_type_arguments(parser);
//@to field_order: -1, });
//@wrap fn field_access_node(parser: &mut SourceParser, mut function_expression: expr::E<()>, field_loc: Location, field_name: PStr, field_preceding_comments: Vec<Comment>) -> (r: expr::E<()>)
//@replace super::type_parser::parse_optional_type_arguments => parse_optional_type_arguments ## R1: module path
//@contract
    ensures
      r matches expr::E::FieldAccess(n) && *n.object == function_expression && n.field_name.loc == field_loc
        // the member access encloses its object, and its explicit type arguments when they are written ..
        && encloses(n.common.loc, function_expression.range())
        && (n.explicit_type_arguments matches Some(t) ==> encloses(n.common.loc, t.location))
        // .. and the member name when they are not (with type arguments the name lies between object and type
        // arguments in the token stream: that needs the order of token positions, not stated here)
        && (n.explicit_type_arguments is None ==> encloses(n.common.loc, field_loc)),  // :member_access_range_encloses_object_and_type_arguments
//@atend
  function_expression
//@end

//@extractblock crates/samlang-parser/src/source_parser.rs :: mod expression_parser / fn parse_function_call_or_field_access_with_start
//@from let function_arguments = parse_parenthesized_expression_list(parser, usize::MAX);
//@to arguments: function_arguments, })
//@close ;
//@wrap fn call_node(parser: &mut SourceParser, mut function_expression: expr::E<()>) -> (r: expr::E<()>)
//@contract
    ensures
      r matches expr::E::Call(n) && *n.callee == function_expression
        && encloses(n.common.loc, function_expression.range()) && encloses(n.common.loc, n.arguments.loc),  // :call_range_encloses_callee_and_argument_list
//@atend
  function_expression
//@end

// ---- the six binary-operator productions (|| && comparison + - * / % ::): the node built in each loop iteration

//@extractblock crates/samlang-parser/src/source_parser.rs :: mod expression_parser / fn parse_disjunction_with_start
//@from let loc =
//@to e2: Box::new(e2), })
//@close ;
//@wrap fn disjunction_node(parser: &mut SourceParser, mut e: expr::E<()>, e2: expr::E<()>, operator: expr::BinaryOperator, operator_preceding_comments: CommentReference) -> (r: expr::E<()>)
//@contract
    ensures
      // the node built for `e <op> e2` has e and e2 as its operands, the operator just read, and a range that encloses both operands
      r matches expr::E::Binary(n) && *n.e1 == e && *n.e2 == e2 && n.operator is OR
        && encloses(n.common.loc, e.range()) && encloses(n.common.loc, e2.range()),  // :binary_expression_range_encloses_both_operands
//@atend
  e
//@end

//@extractblock crates/samlang-parser/src/source_parser.rs :: mod expression_parser / fn parse_conjunction_with_start
//@from let loc =
//@to e2: Box::new(e2), })
//@close ;
//@wrap fn conjunction_node(parser: &mut SourceParser, mut e: expr::E<()>, e2: expr::E<()>, operator: expr::BinaryOperator, operator_preceding_comments: CommentReference) -> (r: expr::E<()>)
//@contract
    ensures
      // the node built for `e <op> e2` has e and e2 as its operands, the operator just read, and a range that encloses both operands
      r matches expr::E::Binary(n) && *n.e1 == e && *n.e2 == e2 && n.operator is AND
        && encloses(n.common.loc, e.range()) && encloses(n.common.loc, e2.range()),  // :binary_expression_range_encloses_both_operands
//@atend
  e
//@end

//@extractblock crates/samlang-parser/src/source_parser.rs :: mod expression_parser / fn parse_comparison_with_start
//@from let loc =
//@to e2: Box::new(e2), })
//@close ;
//@wrap fn comparison_node(parser: &mut SourceParser, mut e: expr::E<()>, e2: expr::E<()>, operator: expr::BinaryOperator, operator_preceding_comments: CommentReference) -> (r: expr::E<()>)
//@contract
    ensures
      // the node built for `e <op> e2` has e and e2 as its operands, the operator just read, and a range that encloses both operands
      r matches expr::E::Binary(n) && *n.e1 == e && *n.e2 == e2 && n.operator == operator
        && encloses(n.common.loc, e.range()) && encloses(n.common.loc, e2.range()),  // :binary_expression_range_encloses_both_operands
//@atend
  e
//@end

//@extractblock crates/samlang-parser/src/source_parser.rs :: mod expression_parser / fn parse_term_with_start
//@from let loc =
//@to e2: Box::new(e2), })
//@close ;
//@wrap fn term_node(parser: &mut SourceParser, mut e: expr::E<()>, e2: expr::E<()>, operator: expr::BinaryOperator, operator_preceding_comments: CommentReference) -> (r: expr::E<()>)
//@contract
    ensures
      // the node built for `e <op> e2` has e and e2 as its operands, the operator just read, and a range that encloses both operands
      r matches expr::E::Binary(n) && *n.e1 == e && *n.e2 == e2 && n.operator == operator
        && encloses(n.common.loc, e.range()) && encloses(n.common.loc, e2.range()),  // :binary_expression_range_encloses_both_operands
//@atend
  e
//@end

//@extractblock crates/samlang-parser/src/source_parser.rs :: mod expression_parser / fn parse_factor_with_start
//@from let loc =
//@to e2: Box::new(e2), })
//@close ;
//@wrap fn factor_node(parser: &mut SourceParser, mut e: expr::E<()>, e2: expr::E<()>, operator: expr::BinaryOperator, operator_preceding_comments: CommentReference) -> (r: expr::E<()>)
//@contract
    ensures
      // the node built for `e <op> e2` has e and e2 as its operands, the operator just read, and a range that encloses both operands
      r matches expr::E::Binary(n) && *n.e1 == e && *n.e2 == e2 && n.operator == operator
        && encloses(n.common.loc, e.range()) && encloses(n.common.loc, e2.range()),  // :binary_expression_range_encloses_both_operands
//@atend
  e
//@end

//@extractblock crates/samlang-parser/src/source_parser.rs :: mod expression_parser / fn parse_concat_with_start
//@from let loc =
//@to e2: Box::new(e2), })
//@close ;
//@wrap fn concat_node(parser: &mut SourceParser, mut e: expr::E<()>, e2: expr::E<()>, operator: expr::BinaryOperator, operator_preceding_comments: CommentReference) -> (r: expr::E<()>)
//@contract
    ensures
      // the node built for `e <op> e2` has e and e2 as its operands, the operator just read, and a range that encloses both operands
      r matches expr::E::Binary(n) && *n.e1 == e && *n.e2 == e2 && n.operator is CONCAT
        && encloses(n.common.loc, e.range()) && encloses(n.common.loc, e2.range()),  // :binary_expression_range_encloses_both_operands
//@atend
  e
//@end

// ---- the two prefix-operator arms of parse_unary_expression (`!e`, `-e`)

//@extractblock crates/samlang-parser/src/source_parser.rs :: mod expression_parser / fn parse_unary_expression
//@from #1 let loc =
//@to operator: expr::UnaryOperator::NOT, argument: Box::new(argument), })
//@wrap fn not_node(parser: &mut SourceParser, peeked_loc: Location, argument: expr::E<()>, associated_comments: Vec<Comment>) -> (r: expr::E<()>)
//@contract
    ensures
      // the node built for a prefix operator runs from the operator token to the end of its argument
      r matches expr::E::Unary(n) && *n.argument == argument && n.operator is NOT
        && encloses(n.common.loc, peeked_loc) && encloses(n.common.loc, argument.range()),  // :prefix_expression_range_encloses_operator_and_argument
//@end

//@extractblock crates/samlang-parser/src/source_parser.rs :: mod expression_parser / fn parse_unary_expression
//@from #2 let loc =
//@to operator: expr::UnaryOperator::NEG, argument: Box::new(argument), })
//@wrap fn neg_node(parser: &mut SourceParser, peeked_loc: Location, argument: expr::E<()>, associated_comments: Vec<Comment>) -> (r: expr::E<()>)
//@contract
    ensures
      // the node built for a prefix operator runs from the operator token to the end of its argument
      r matches expr::E::Unary(n) && *n.argument == argument && n.operator is NEG
        && encloses(n.common.loc, peeked_loc) && encloses(n.common.loc, argument.range()),  // :prefix_expression_range_encloses_operator_and_argument
//@end

// ---- if-else: the node runs from the `if` keyword to the end of its else branch (a block or a nested if-else)
#[verifier::external_body]
fn parse_if_else(parser: &mut SourceParser, associated_comments: Vec<Comment>) -> (r: expr::IfElse<()>) { unimplemented!() }
#[verifier::external_body]
fn parse_block(parser: &mut SourceParser, associated_comments: Vec<Comment>) -> (r: expr::Block<()>) { unimplemented!() }

//@extractblock crates/samlang-parser/src/source_parser.rs :: mod expression_parser / fn parse_if_else
//@from let (e2_loc, e2) =
//@to e2: Box::new(e2), }
//@wrap fn if_else_node(parser: &mut SourceParser, peeked_loc: Location, e2_preceding_comments: Vec<Comment>, associated_comments: Vec<Comment>, condition: expr::IfElseCondition<()>, e1: expr::Block<()>) -> (r: expr::IfElse<()>)
//@contract
    ensures
      *r.e1 == e1,
      encloses(r.common.loc, peeked_loc),
      // the range recorded for the else branch is the range of the branch that was parsed, and the node encloses it
      match *r.e2 {
        expr::IfElseOrBlock::IfElse(e) => encloses(r.common.loc, e.common.loc),
        expr::IfElseOrBlock::Block(b) => encloses(r.common.loc, b.common.loc),
      },  // :if_else_range_runs_from_the_keyword_over_the_else_branch
//@end

// ---- one case of a match: `pattern -> body` up to its comma, or up to the end of the body in front of `}`
mod pattern_parser {
  use super::*;
  #[verifier::external_body]
  pub fn parse_matching_pattern(parser: &mut SourceParser, associated_comments: Vec<Comment>) -> (r: pattern::MatchingPattern<()>) { unimplemented!() }
}
#[verifier::external_body]
fn parse_expression_with_additional_preceding_comments(parser: &mut SourceParser, additional_preceding_comments: Vec<Comment>) -> (r: expr::E<()>) { unimplemented!() }
/// R3: the constant NO_COMMENT_REFERENCE
#[verifier::external_body]
fn no_comment_reference() -> (r: CommentReference) { unimplemented!() }

//@extract crates/samlang-parser/src/source_parser.rs :: mod expression_parser / fn parse_pattern_to_expression
//@ret r
//@replace* super::SourceParser => SourceParser ## R1: module path
//@replace super::pattern_parser::parse_matching_pattern => pattern_parser::parse_matching_pattern ## R1: module path
//@replace NO_COMMENT_REFERENCE => no_comment_reference() ## R3: a constant of an opaque type
//@contract
    ensures
      // a match case encloses its pattern, and its body when the body is what ends it (the last case, no comma)
      encloses(r.loc, r.pattern.range()),  // :match_case_range_encloses_its_pattern
      encloses(r.loc, r.body.range()) || exists|comma: Location| r.loc == #[trigger] joined(r.pattern.range(), comma),  // :match_case_range_ends_at_its_body_or_its_comma
//@before expr::VariantPatternToExpression {
    assert(encloses(loc, expression.range()) || exists|comma: Location| loc == #[trigger] joined(pattern.range(), comma));
//@end

// ---- a match expression runs from the `match` keyword to its closing brace
//@extractblock crates/samlang-parser/src/source_parser.rs :: mod expression_parser / fn parse_match
//@from let loc = {
//@to cases: matching_list, })
//@wrap fn match_node(parser: &mut SourceParser, peeked_loc: Location, mut associated_comments: Vec<Comment>, match_expression: expr::E<()>, matching_list: Vec<expr::VariantPatternToExpression<()>>) -> (r: expr::E<()>)
//@contract
    ensures
      r matches expr::E::Match(n) && *n.matched == match_expression && n.cases == matching_list
        && encloses(n.common.loc, peeked_loc)
        // .. and is exactly keyword ∪ the token consumed as the closing brace (nothing parsed in between can move it)
        && exists|brace: Location| n.common.loc == #[trigger] joined(peeked_loc, brace),  // :match_expression_range_is_keyword_to_closing_brace
//@before expr::E::Match(expr::Match {
      assert(exists|brace: Location| loc == #[trigger] joined(peeked_loc, brace));
//@end

// ---- an import line runs from the `import` keyword to its semicolon, or to the end of the module name when there is none
//@extract crates/samlang-ast/src/source.rs :: struct ModuleMembersImport
//@end

//@extractblock crates/samlang-parser/src/source_parser.rs :: fn parse_module
//@from let loc = if let Token(semicolon_loc, TokenContent::Operator(TokenOp::Semicolon)) = parser.peek() {
//@to imported_module_loc, });
//@wrap fn import_node(parser: &mut SourceParser, imports: &mut Vec<ModuleMembersImport>, import_start: Location, imported_module_loc: Location, mut associated_comments: Vec<Comment>, imported_members: Vec<Id>, imported_module: ModuleReference)
//@contract
    ensures
      final(imports)@.len() == old(imports)@.len() + 1,
      final(imports)@.subrange(0, old(imports)@.len() as int) == old(imports)@,
      ({ let n = final(imports)@.last();
         n.imported_module_loc == imported_module_loc && encloses(n.loc, import_start)
         && (n.loc == joined(import_start, imported_module_loc) || exists|semicolon: Location| n.loc == #[trigger] joined(import_start, semicolon)) }),  // :import_range_runs_from_its_keyword_to_the_module_name_or_the_semicolon
//@before imports.push(ModuleMembersImport {
    assert(loc == joined(import_start, imported_module_loc) || exists|semicolon: Location| loc == #[trigger] joined(import_start, semicolon));
//@end

// ---- a parenthesized expression list (call arguments, tuple) runs from its opening to its closing parenthesis
//@extractblock crates/samlang-parser/src/source_parser.rs :: mod expression_parser / fn parse_parenthesized_expression_list_with_start
//@from let (end_loc, ending_comments) =
//@to expressions, }
//@wrap fn paren_list_node(parser: &mut SourceParser, start_loc: Location, starting_comments: Vec<Comment>, expressions: Vec<expr::E<()>>) -> (r: expr::ParenthesizedExpressionList<()>)
//@contract
    ensures
      r.expressions == expressions && encloses(r.loc, start_loc)
        && exists|end: Location| r.loc == #[trigger] joined(start_loc, end),  // :expression_list_range_runs_from_opening_to_closing_parenthesis
//@before expr::ParenthesizedExpressionList {
    assert(exists|end: Location| loc == #[trigger] joined(start_loc, end));
//@end

#[verifier::external_body]
fn parse_annotation(parser: &mut SourceParser) -> (r: annotation::T) { unimplemented!() }
// ---- a function type annotation `(A, B) -> R` runs from its opening parenthesis to the end of its return type
//@extractblock crates/samlang-parser/src/source_parser.rs :: mod type_parser / fn parse_annotation_with_additional_comments
//@from let return_type = parse_annotation(parser);
//@to return_type: Box::new(return_type), })
//@wrap fn function_annotation_node(parser: &mut SourceParser, peeked: Token, associated_comments: Vec<Comment>, parameters: annotation::ParenthesizedAnnotationList) -> (r: annotation::T)
//@contract
    ensures
      r matches annotation::T::Fn(f) && f.parameters == parameters
        && encloses(r.range(), peeked.0) && encloses(r.range(), f.return_type.range()),  // :function_annotation_range_runs_from_its_parenthesis_over_its_return_type
//@end

// ---- explicit type arguments `<A, B>` run from `<` to the token consumed as `>`
//@extractblock crates/samlang-parser/src/source_parser.rs :: mod type_parser / fn parse_optional_type_arguments
//@from let (end_loc, ending_associated_comments) =
//@to arguments, })
//@wrap fn type_arguments_node(parser: &mut SourceParser, start_loc: Location, start_associated_comments: CommentReference, arguments: Vec<annotation::T>) -> (r: Option<annotation::TypeArguments>)
//@contract
    ensures
      r matches Some(t) && t.arguments == arguments && encloses(t.location, start_loc)
        && exists|end: Location| t.location == #[trigger] joined(start_loc, end),  // :type_argument_list_range_runs_from_its_opening_to_its_closing_bracket
//@before Some(annotation::TypeArguments {
    assert(exists|end: Location| location == #[trigger] joined(start_loc, end));
//@end

// ---- a type-parameter list `<A, B: C>` runs from `<` to the token consumed as `>`
/// R3: `parser.available_tparams.extend(parameters.iter().map(|it| it.name.name))` (iterator adapters) — touches only the parser
#[verifier::external_body]
fn note_available_tparams(parser: &mut SourceParser, parameters: &Vec<annotation::TypeParameter>) { unimplemented!() }
/// rewrites bounds that name a type parameter; opaque here
#[verifier::external_body]
fn fix_tparams_with_generic_annot(parser: &mut SourceParser, parameters: &mut Vec<annotation::TypeParameter>) { unimplemented!() }

//@extractblock crates/samlang-parser/src/source_parser.rs :: mod type_parser / fn parse_type_parameters
//@from let (additional_loc, end_comments) =
//@to parameters, })
//@replace parser.available_tparams.extend(parameters.iter().map(|it| it.name.name)); => note_available_tparams(parser, &parameters); ## R3: iterator adapters over the parsed parameters
//@wrap fn type_parameters_node(parser: &mut SourceParser, start_loc: Location, start_comments: Vec<Comment>, mut parameters: Vec<annotation::TypeParameter>) -> (r: Option<annotation::TypeParameters>)
//@contract
    ensures
      r matches Some(t) && encloses(t.location, start_loc)
        && exists|end: Location| t.location == #[trigger] joined(start_loc, end),  // :type_parameter_list_range_runs_from_its_opening_to_its_closing_bracket
//@before parser.available_tparams.extend
    assert(exists|end: Location| location == #[trigger] joined(start_loc, end));
//@end

// ---- class and interface declarations: the declaration and its member block end at the same closing brace
//@extract crates/samlang-ast/src/source.rs :: struct ExtendsOrImplementsNodes
//@end
//@extract crates/samlang-ast/src/source.rs :: struct InterfaceMembersCommon
//@end
//@extract crates/samlang-ast/src/source.rs :: struct InterfaceDeclarationCommon
//@end

//@extractblock crates/samlang-parser/src/source_parser.rs :: mod toplevel_parser / fn parse_class
//@from let (end_loc, ending_associated_comments) =
//@to ending_associated_comments, }, }
//@wrap fn class_node<D, M>(parser: &mut SourceParser, mut loc: Location, members_start_loc: Location, associated_comments: Vec<Comment>, private: bool, name: Id, type_parameters: Option<annotation::TypeParameters>, extends_or_implements_nodes: Option<ExtendsOrImplementsNodes>, type_definition: D, members: Vec<M>) -> (r: InterfaceDeclarationCommon<D, M>)
//@contract
    ensures
      r.name == name && r.members.members == members
        && encloses(r.loc, loc) && encloses(r.members.loc, members_start_loc)
        // the declaration (header so far ∪ closing brace) and its member block (opening ∪ closing brace) end at the same token
        && exists|end: Location| r.loc == #[trigger] joined(loc, end) && r.members.loc == joined(members_start_loc, end),  // :declaration_and_member_block_end_at_the_same_closing_brace
//@before let (end_loc, ending_associated_comments) =
    let ghost loc0 = loc;
//@before InterfaceDeclarationCommon {
    assert(loc == joined(loc0, end_loc));
//@end

//@extractblock crates/samlang-parser/src/source_parser.rs :: mod toplevel_parser / fn parse_interface
//@from let (end_loc, ending_associated_comments) =
//@to ending_associated_comments, }, }
//@wrap fn interface_node<M>(parser: &mut SourceParser, mut loc: Location, members_start_loc: Location, associated_comments: Vec<Comment>, private: bool, name: Id, type_parameters: Option<annotation::TypeParameters>, extends_or_implements_nodes: Option<ExtendsOrImplementsNodes>, members: Vec<M>) -> (r: InterfaceDeclarationCommon<(), M>)
//@contract
    ensures
      r.name == name && r.members.members == members
        && encloses(r.loc, loc) && encloses(r.members.loc, members_start_loc)
        // the declaration (header so far ∪ closing brace) and its member block (opening ∪ closing brace) end at the same token
        && exists|end: Location| r.loc == #[trigger] joined(loc, end) && r.members.loc == joined(members_start_loc, end),  // :declaration_and_member_block_end_at_the_same_closing_brace
//@before let (end_loc, ending_associated_comments) =
    let ghost loc0 = loc;
//@before InterfaceDeclarationCommon {
    assert(loc == joined(loc0, end_loc));
//@end
// ---- a member definition `function f(..): T = body` runs over its body
//@extract crates/samlang-ast/src/source.rs :: struct ClassMemberDeclaration
//@fields loc
//@end
//@extract crates/samlang-ast/src/source.rs :: struct ClassMemberDefinition
//@end
#[verifier::external_body]
fn parse_class_member_declaration_common(parser: &mut SourceParser, allow_private: bool) -> (r: ClassMemberDeclaration) { unimplemented!() }

//@extract crates/samlang-parser/src/source_parser.rs :: mod toplevel_parser / fn parse_class_member_definition
//@ret r
//@replace* super::SourceParser => SourceParser ## R1: module path
//@replace super::expression_parser::parse_expression_with_additional_preceding_comments => parse_expression_with_additional_preceding_comments ## R1: module path
//@contract
    ensures
      // the declaration part's range is extended over the body
      encloses(r.decl.loc, r.body.range())
        && exists|header: Location| r.decl.loc == #[trigger] joined(header, r.body.range()),  // :member_definition_range_runs_over_its_body
//@before let (_, additional_comments) =
    let ghost header = decl.loc;
//@before ClassMemberDefinition { decl, body }
    assert(decl.loc == joined(header, body.range()));
//@end


// =====================================================================================
// the language server's position -> node search: a name's range is the name, nothing more
// =====================================================================================
#[verifier::external_body]
#[derive(Clone, Copy)]
struct Position { _p: u64 }
uninterp spec fn position_inside(l: Location, p: Position) -> bool;
impl Location {
  /// contract proved by Kani unit loc: the closed interval [start, end]
  #[verifier::external_body]
  fn contains_position(&self, position: Position) -> (r: bool) ensures r == position_inside(*self, position) { unimplemented!() }
}
#[verifier::external_body]
struct Type { _p: u8 }
/// R3: `Type::Nominal(NominalType::from_annotation(id_annot))`
#[verifier::external_body]
fn nominal_type_of(id_annot: &annotation::Id) -> (r: Type) { unimplemented!() }
/// R6: the search result reduced to the variant built here and an opaque rest
enum LocationCoverSearchResult {
  TypedName(Location, Type, bool),
  Other(u8),
}
/// the search below the identifier (type arguments) is opaque; whatever it finds lies inside the type arguments
#[verifier::external_body]
fn search_optional_type_arguments(targs_opt: Option<&annotation::TypeArguments>, position: Position) -> (r: Option<LocationCoverSearchResult>)
{ unimplemented!() }

//@extract crates/samlang-services/src/location_cover.rs :: fn search_id_annotation
//@ret r
//@replace* LocationCoverSearchResult<'_> => LocationCoverSearchResult ## R6: reduced result type (no borrowed payloads)
//@replace Type::Nominal(NominalType::from_annotation(id_annot)) => nominal_type_of(id_annot) ## R3: the nominal type named by the annotation
//@contract
    ensures
      // a position on the class name of an annotation is answered with exactly the name's range (not the range of
      // the whole annotation with its type arguments), and that range contains the position
      position_inside(id_annot.id.loc, position) ==> (r matches Some(LocationCoverSearchResult::TypedName(l, _, binding))
        && l == id_annot.id.loc && !binding),  // :hover_range_of_a_type_name_is_exactly_the_name
//@end

proof fn canary_must_fail_prodloc() ensures false { broadcast use axiom_encloses_reflexive; }

} // verus!
fn main() {}
