// Unit `prodloc` — C14 kernel: the range of a production encloses the ranges of its parts.
// type_parser::{parse_type_parameter, parse_identifier_annot} (crates/samlang-parser/src/source_parser.rs), verbatim;
// `Location::union` carries the contract proved by Kani unit `loc` (encloses both operands, least such range).
use vstd::prelude::*;
verus! {

global size_of usize == 8;

#[verifier::external_body]
#[derive(Clone, Copy)]
struct PStr { _p: u128 }
#[verifier::external_body]
#[derive(Clone, Copy)]
struct ModuleReference { _p: u32 }
#[verifier::external_body]
#[derive(Clone, Copy)]
struct CommentReference { _p: usize }
#[verifier::external_body]
struct Comment { _p: u8 }

/// ranges, abstractly: `encloses` is the nesting order of unit loc (reflexive, transitive)
#[verifier::external_body]
#[derive(Clone, Copy)]
struct Location { _p: u8 }
uninterp spec fn encloses(outer: Location, inner: Location) -> bool;
uninterp spec fn joined(a: Location, b: Location) -> Location;
broadcast axiom fn axiom_encloses_reflexive(a: Location)
  ensures #[trigger] encloses(a, a);
impl Location {
  /// contract proved by Kani unit loc for ranges of one module (tokens of one parser share their module)
  #[verifier::external_body]
  fn union(&self, other: &Location) -> (r: Location)
    ensures r == joined(*self, *other), encloses(r, *self), encloses(r, *other)
  { unimplemented!() }
}

//@extract crates/samlang-ast/src/source.rs :: struct Id
//@attr #[derive(Clone, Copy)]
//@end

/// R6: the type-argument list reduced to its range
struct TypeArguments { location: Location }
mod annotation {
  use super::*;
//@extract crates/samlang-ast/src/source.rs :: mod annotation / struct Id
//@keeppub
//@replace super::Id => super::Id ## R1: (unchanged) the identifier type of the enclosing module
//@end
//@extract crates/samlang-ast/src/source.rs :: mod annotation / struct TypeParameter
//@keeppub
//@end
}

// ---- the parser, reduced to what the two productions use
#[derive(Clone, Copy)]
enum TokenOp { Colon, Other(u8) }
#[derive(Clone, Copy)]
enum TokenContent { Operator(TokenOp), Other(u8) }
#[derive(Clone, Copy)]
struct Token(Location, TokenContent);
#[verifier::external_body]
struct SourceParser { _p: u8 }
impl SourceParser {
  #[verifier::external_body]
  fn peek(&mut self) -> (r: Token) { unimplemented!() }
  #[verifier::external_body]
  fn consume(&mut self) -> (r: Vec<Comment>) { unimplemented!() }
  #[verifier::external_body]
  fn parse_upper_id_with_comments(&mut self, associated_comments: Vec<Comment>) -> (r: Id) { unimplemented!() }
}
mod utils {
  use super::*;
  #[verifier::external_body]
  pub fn resolve_class(parser: &SourceParser, class_name: PStr) -> (r: ModuleReference) { unimplemented!() }
}
#[verifier::external_body]
fn parse_optional_type_arguments(parser: &mut SourceParser) -> (r: Option<TypeArguments>) { unimplemented!() }

//@extract crates/samlang-parser/src/source_parser.rs :: mod type_parser / fn parse_identifier_annot
//@ret r
//@replace* super::SourceParser => SourceParser ## R1: module path
//@replace super::utils::resolve_class => utils::resolve_class ## R1: module path
//@contract
    ensures
      r.id == identifier,
      // the annotation's range encloses the identifier and its type arguments
      encloses(r.location, identifier.loc),
      r.type_arguments matches Some(t) ==> encloses(r.location, t.location),  // :annotation_range_encloses_its_identifier_and_type_arguments
      r.type_arguments is None ==> r.location == identifier.loc,              // :annotation_without_type_arguments_is_exactly_its_identifier
//@before let location = if let Some(node) = &type_arguments {
  proof { broadcast use axiom_encloses_reflexive; }
//@end

//@extract crates/samlang-parser/src/source_parser.rs :: mod type_parser / fn parse_type_parameter
//@ret r
//@replace* super::SourceParser => SourceParser ## R1: module path
//@replace super::type_parser::parse_identifier_annot => parse_identifier_annot ## R1: module path
//@contract
    ensures
      // the type parameter's range encloses its name and its WHOLE bound (type arguments included)
      encloses(r.loc, r.name.loc),
      r.bound matches Some(b) ==> encloses(r.loc, b.location),  // :type_parameter_range_encloses_its_name_and_bound
      r.bound is None ==> r.loc == r.name.loc,
//@before let (bound, loc) = if let Token(_, TokenContent::Operator(TokenOp::Colon)) = parser.peek() {
  proof { broadcast use axiom_encloses_reflexive; }
//@end

// =====================================================================================
// the language server's position -> node search: a name's range is the name, nothing more
// =====================================================================================
#[verifier::external_body]
#[derive(Clone, Copy)]
struct Position { _p: u64 }
uninterp spec fn position_inside(l: Location, p: Position) -> bool;
impl Location {
  /// contract proved by Kani unit loc: the closed interval [start, end]
  #[verifier::external_body]
  fn contains_position(&self, position: Position) -> (r: bool) ensures r == position_inside(*self, position) { unimplemented!() }
}
#[verifier::external_body]
struct Type { _p: u8 }
/// R3: `Type::Nominal(NominalType::from_annotation(id_annot))`
#[verifier::external_body]
fn nominal_type_of(id_annot: &annotation::Id) -> (r: Type) { unimplemented!() }
/// R6: the search result reduced to the variant built here and an opaque rest
enum LocationCoverSearchResult {
  TypedName(Location, Type, bool),
  Other(u8),
}
/// the search below the identifier (type arguments) is opaque; whatever it finds lies inside the type arguments
#[verifier::external_body]
fn search_optional_type_arguments(targs_opt: Option<&TypeArguments>, position: Position) -> (r: Option<LocationCoverSearchResult>)
{ unimplemented!() }

//@extract crates/samlang-services/src/location_cover.rs :: fn search_id_annotation
//@ret r
//@replace* LocationCoverSearchResult<'_> => LocationCoverSearchResult ## R6: reduced result type (no borrowed payloads)
//@replace Type::Nominal(NominalType::from_annotation(id_annot)) => nominal_type_of(id_annot) ## R3: the nominal type named by the annotation
//@contract
    ensures
      // a position on the class name of an annotation is answered with exactly the name's range (not the range of
      // the whole annotation with its type arguments), and that range contains the position
      position_inside(id_annot.id.loc, position) ==> (r matches Some(LocationCoverSearchResult::TypedName(l, _, binding))
        && l == id_annot.id.loc && !binding),  // :hover_range_of_a_type_name_is_exactly_the_name
//@end

proof fn canary_must_fail_prodloc() ensures false { broadcast use axiom_encloses_reflexive; }

} // verus!
fn main() {}
