// Unit `srvstate` — C10 kernel: what the language server re-checks after a change.
// ServerState::{update, rename_module, remove} (crates/samlang-services/src/server_state.rs), verbatim.  `recheck`
// is a stub whose PRECONDITION is its documented contract ("parsed modules updated, global context updated,
// dependency graph updated, recheck_set is a conservative estimate"): each entry point must establish it.
// DependencyGraph::{new, affected_set} carry the contracts proved in unit depgraph.
use vstd::prelude::*;
use std::collections::{HashMap, HashSet};
verus! {

global size_of usize == 8;

#[verifier::external_body]
#[derive(Clone, Copy)]
struct ModuleReference { _p: u32 }
#[verifier::external]
impl PartialEq for ModuleReference { fn eq(&self, other: &Self) -> bool { unimplemented!() } }
#[verifier::external]
impl Eq for ModuleReference {}
#[verifier::external]
impl std::hash::Hash for ModuleReference { fn hash<H: std::hash::Hasher>(&self, state: &mut H) { unimplemented!() } }

/// ModuleReference::ROOT: not a module of the workspace; the signatures of the builtin classes live under it
uninterp spec fn root_reference() -> ModuleReference;
impl ModuleReference {
  /// R3: `*mod_ref != ModuleReference::ROOT` (derived PartialEq against the named constant)
  #[verifier::external_body]
  fn is_not_root(&self) -> (r: bool) ensures r == (*self != root_reference()) { unimplemented!() }
}
uninterp spec fn builtin_signature() -> ModuleSignature;

// ---- R7: opaque payloads
#[verifier::external_body]
struct Heap { _p: u8 }
#[verifier::external_body]
struct ParsedModule { _p: u8 }
#[verifier::external_body]
struct CheckedModule { _p: u8 }
#[verifier::external_body]
struct ModuleSignature { _p: u8 }
#[verifier::external_body]
struct ErrorSet { _p: u8 }
impl ErrorSet {
  /// the modules whose syntax errors (from parsing their current text) are in this set
  pub uninterp spec fn covers(&self, m: ModuleReference) -> bool;
  /// the set holds syntax errors of a text of m that is no longer m's text (m was parsed again into the same set)
  pub uninterp spec fn stale(&self, m: ModuleReference) -> bool;
  #[verifier::external_body]
  fn new() -> (r: ErrorSet) ensures forall|m: ModuleReference| !r.covers(m) && !r.stale(m) { unimplemented!() }
  /// the reported errors, abstractly (unit errgate: merge is the union, nothing is lost)
  pub uninterp spec fn reported(&self) -> Set<int>;
  #[verifier::external_body]
  fn merge(&mut self, other: ErrorSet)
    ensures final(self).reported() == old(self).reported().union(other.reported()),
      forall|m: ModuleReference| #[trigger] final(self).covers(m) == old(self).covers(m),
      forall|m: ModuleReference| #[trigger] final(self).stale(m) == old(self).stale(m)
  { unimplemented!() }
}
/// the import relation of a set of parsed modules, and what a module's signature / check result is computed from
/// does this module have an import line for n
uninterp spec fn module_imports(p: ParsedModule, n: ModuleReference) -> bool;
/// the import relation of a set of parsed modules (an import of a module that does not exist is an edge too)
spec fn imports(parsed: Map<ModuleReference, ParsedModule>, m: ModuleReference, n: ModuleReference) -> bool {
  parsed.contains_key(m) && module_imports(parsed[m], n)
}
uninterp spec fn signature_of(m: ModuleReference, p: ParsedModule) -> ModuleSignature;
pub uninterp spec fn parse_of(text: Seq<char>, m: ModuleReference) -> ParsedModule;

#[verifier::external_body]
struct DependencyGraph { _p: u8 }
impl DependencyGraph {
  /// the parsed modules this graph was built from
  uninterp spec fn built_from(&self) -> Map<ModuleReference, ParsedModule>;
  /// contract proved in unit depgraph: every import line is an edge (both directions)
  #[verifier::external_body]
  fn new(sources: &HashMap<ModuleReference, ParsedModule>) -> (r: DependencyGraph)
    ensures r.built_from() == sources@
  { unimplemented!() }
  /// contract proved in unit depgraph: contains the dirty set and everything that (transitively) imports a dirty module
  #[verifier::external_body]
  fn affected_set(&self, dirty_set: HashSet<ModuleReference>) -> (r: HashSet<ModuleReference>)
    ensures conservative(self.built_from(), in_set(dirty_set@), r@)
  { unimplemented!() }
}
spec fn in_set(s: Set<ModuleReference>) -> spec_fn(ModuleReference) -> bool { |m: ModuleReference| s.contains(m) }

/// m reaches a dirty module through k import edges
spec fn depends_on_dirty(parsed: Map<ModuleReference, ParsedModule>, dirty: spec_fn(ModuleReference) -> bool, m: ModuleReference, k: nat) -> bool
  decreases k
{
  if k == 0 { dirty(m) }
  else { exists|n: ModuleReference| imports(parsed, m, n) && depends_on_dirty(parsed, dirty, n, (k - 1) as nat) }
}
/// the modules whose parsed form differs between two snapshots (appeared, disappeared, or parsed differently)
spec fn changed(before: Map<ModuleReference, ParsedModule>, now: Map<ModuleReference, ParsedModule>) -> spec_fn(ModuleReference) -> bool {
  |m: ModuleReference| before.contains_key(m) != now.contains_key(m) || (before.contains_key(m) && before[m] != now[m])
}

/// a path to a dirty module in the current graph has a prefix that is a path to a dirty module in the old graph,
/// when every module that is not dirty has the same parsed form in both
proof fn lemma_dependents_were_dependents(before: Map<ModuleReference, ParsedModule>, now: Map<ModuleReference, ParsedModule>,
                                          dirty: spec_fn(ModuleReference) -> bool, m: ModuleReference, k: nat) -> (k2: nat)
  requires
    forall|x: ModuleReference| #[trigger] changed(before, now)(x) ==> dirty(x),
    depends_on_dirty(now, dirty, m, k),
  ensures depends_on_dirty(before, dirty, m, k2)
  decreases k
{
  if k == 0 || dirty(m) { 0 }
  else {
    let n = choose|n: ModuleReference| imports(now, m, n) && depends_on_dirty(now, dirty, n, (k - 1) as nat);
    let k3 = lemma_dependents_were_dependents(before, now, dirty, n, (k - 1) as nat);
    assert(!changed(before, now)(m));
    assert(imports(before, m, n));
    (k3 + 1) as nat
  }
}
proof fn lemma_dirty_monotone(parsed: Map<ModuleReference, ParsedModule>, d1: spec_fn(ModuleReference) -> bool, d2: spec_fn(ModuleReference) -> bool, m: ModuleReference, k: nat)
  requires forall|x: ModuleReference| #[trigger] d1(x) ==> d2(x), depends_on_dirty(parsed, d1, m, k)
  ensures depends_on_dirty(parsed, d2, m, k)
  decreases k
{
  if k > 0 {
    let n = choose|n: ModuleReference| imports(parsed, m, n) && depends_on_dirty(parsed, d1, n, (k - 1) as nat);
    lemma_dirty_monotone(parsed, d1, d2, n, (k - 1) as nat);
  }
}

/// "recheck_set is the conservative estimate of modules that need a recheck" w.r.t. a graph and a dirty set
spec fn conservative(parsed: Map<ModuleReference, ParsedModule>, dirty: spec_fn(ModuleReference) -> bool, recheck: Set<ModuleReference>) -> bool {
  forall|m: ModuleReference, k: nat| depends_on_dirty(parsed, dirty, m, k) ==> recheck.contains(m)
}

/// the modules named by a list of updates
spec fn updated_modules(updates: Seq<(ModuleReference, String)>) -> Set<ModuleReference> {
  updates.map_values(|p: (ModuleReference, String)| p.0).to_set()
}
proof fn lemma_updated_modules(updates: Seq<(ModuleReference, String)>)
  ensures forall|m: ModuleReference| updated_modules(updates).contains(m) <==> (exists|j: int| 0 <= j < updates.len() && (#[trigger] updates[j]).0 == m)
{
  let names = updates.map_values(|p: (ModuleReference, String)| p.0);
  assert forall|m: ModuleReference| updated_modules(updates).contains(m) <==> (exists|j: int| 0 <= j < updates.len() && (#[trigger] updates[j]).0 == m) by {
    if names.contains(m) {
      let j = choose|j: int| 0 <= j < names.len() && names[j] == m;
      assert(updates[j].0 == m);
    }
    if exists|j: int| 0 <= j < updates.len() && (#[trigger] updates[j]).0 == m {
      let j = choose|j: int| 0 <= j < updates.len() && (#[trigger] updates[j]).0 == m;
      assert(names[j] == m);
    }
  }
}
/// both names of every rename
spec fn renamed_modules(renames: Seq<(ModuleReference, ModuleReference)>) -> Set<ModuleReference> {
  Set::<ModuleReference>::empty().union(renames.map_values(|p: (ModuleReference, ModuleReference)| p.0).to_set())
    .union(renames.map_values(|p: (ModuleReference, ModuleReference)| p.1).to_set())
}
proof fn lemma_renamed_modules(renames: Seq<(ModuleReference, ModuleReference)>)
  ensures forall|j: int| 0 <= j < renames.len() ==> renamed_modules(renames).contains((#[trigger] renames[j]).0) && renamed_modules(renames).contains(renames[j].1)
{
  let olds = renames.map_values(|p: (ModuleReference, ModuleReference)| p.0);
  let news = renames.map_values(|p: (ModuleReference, ModuleReference)| p.1);
  assert forall|j: int| 0 <= j < renames.len() implies renamed_modules(renames).contains((#[trigger] renames[j]).0) && renamed_modules(renames).contains(renames[j].1) by {
    assert(olds[j] == renames[j].0 && news[j] == renames[j].1);
    assert(olds.contains(renames[j].0) && news.contains(renames[j].1));
  }
}
/// R3: `renames.iter().flat_map(|(a, b)| vec![*a, *b].into_iter()).collect()` — the set of all old and new names
#[verifier::external_body]
fn set_of_renames(renames: &Vec<(ModuleReference, ModuleReference)>) -> (r: HashSet<ModuleReference>)
  ensures r@ == renamed_modules(renames@)
{ unimplemented!() }
#[verifier::external_body]
fn clone_module_set(s: &HashSet<ModuleReference>) -> (r: HashSet<ModuleReference>) ensures r@ == s@ { unimplemented!() }
/// R3: `xs.iter().copied().collect()` / `.map(|(m, _)| *m).collect::<HashSet<_>>()` — the set of the module references
#[verifier::external_body]
fn set_of_slice(xs: &[ModuleReference]) -> (r: HashSet<ModuleReference>)
  ensures r@ == xs@.to_set()
{ unimplemented!() }
#[verifier::external_body]
fn set_of_updated(updates: &Vec<(ModuleReference, String)>) -> (r: HashSet<ModuleReference>)
  ensures r@ == updated_modules(updates@)
{ unimplemented!() }
mod samlang_parser {
  use super::*;
  #[verifier::external_body]
  pub fn parse_source_module_from_text(text: &String, m: ModuleReference, heap: &mut Heap, error_set: &mut ErrorSet) -> (r: ParsedModule)
    ensures r == parse_of(text@, m),
      forall|x: ModuleReference| #[trigger] final(error_set).covers(x) == (x == m || old(error_set).covers(x)),
      // parsing a module again into a set that already holds the syntax errors of an earlier text of it leaves those behind
      forall|x: ModuleReference| #[trigger] final(error_set).stale(x) == (old(error_set).stale(x) || (x == m && old(error_set).covers(m)))
  { unimplemented!() }
}
#[verifier::external_body]
fn build_module_signature(m: ModuleReference, p: &ParsedModule) -> (r: ModuleSignature) ensures r == signature_of(m, *p) { unimplemented!() }

/// server_state::merge_error_sets (a `for (_, e) in map` loop, no vstd specification): the union of the per-module sets
#[verifier::external_body]
fn merge_error_sets(sets: HashMap<ModuleReference, ErrorSet>) -> (r: ErrorSet)
  ensures
    forall|m: ModuleReference| #[trigger] r.covers(m) == (exists|k: ModuleReference| sets@.contains_key(k) && sets@[k].covers(m)),
    forall|m: ModuleReference| #[trigger] r.stale(m) == (exists|k: ModuleReference| sets@.contains_key(k) && sets@[k].stale(m)),
{ unimplemented!() }
/// every per-module set holds the syntax errors of its own module's latest text and nothing stale
spec fn per_module_sets_ok(sets: Map<ModuleReference, ErrorSet>) -> bool {
  forall|k: ModuleReference| sets.contains_key(k) ==> (#[trigger] sets[k]).covers(k) && (forall|x: ModuleReference| !sets[k].stale(x))
}

/// R6: the server state reduced to the tables the three entry points touch
struct ServerState {
  heap: Heap,
  string_sources: HashMap<ModuleReference, String>,
  parsed_modules: HashMap<ModuleReference, ParsedModule>,
  dep_graph: DependencyGraph,
  checked_modules: HashMap<ModuleReference, CheckedModule>,
  global_cx: HashMap<ModuleReference, ModuleSignature>,
  /// ghost: the parsed modules as they were when `recheck` last ran (what the held diagnostics were computed from)
  last_checked: Ghost<Map<ModuleReference, ParsedModule>>,
}

impl ServerState {
  /// the tables describe the same set of modules, each signature is the one of its parsed module
  spec fn tables_agree(&self) -> bool {
    &&& self.parsed_modules@.dom() == self.string_sources@.dom()
    // the global context holds the signature of every module and, under ROOT, the signatures of the builtin classes
    &&& self.global_cx@.dom() == self.parsed_modules@.dom().insert(root_reference())
    &&& !self.parsed_modules@.contains_key(root_reference())
    &&& self.global_cx@[root_reference()] == builtin_signature()
    &&& forall|m: ModuleReference| self.parsed_modules@.contains_key(m) ==> #[trigger] self.global_cx@[m] == signature_of(m, self.parsed_modules@[m])
  }

  /// The real recheck (type checking with rayon, error collation, GC) is outside; its documented preconditions are:
  #[verifier::external_body]
  fn recheck(&mut self, error_set: ErrorSet, reparsed: &HashSet<ModuleReference>, recheck_set: &HashSet<ModuleReference>)
    requires
      // "reparsed is the set of modules whose syntax errors are in error_set": every module flagged as parsed again really has its
      // syntax errors in error_set (they replace the old ones), and every module whose parsed form is new is flagged (its old
      // syntax errors must not be kept)
      forall|m: ModuleReference| reparsed@.contains(m) ==> error_set.covers(m),
      // .. and they are the syntax errors of the modules' CURRENT texts: nothing left over from a text that was replaced in the same round
      forall|m: ModuleReference| !error_set.stale(m),
      forall|m: ModuleReference| #[trigger] changed(old(self).last_checked@, old(self).parsed_modules@)(m) && old(self).parsed_modules@.contains_key(m)
        ==> reparsed@.contains(m),
      old(self).tables_agree(),                                                    // parsed modules + global context updated
      old(self).dep_graph.built_from() == old(self).parsed_modules@,               // dependency graph updated
      // recheck_set is a conservative estimate: every module whose parsed form changed since the last recheck (also a
      // module that disappeared), and every module that reaches one of those through the CURRENT imports
      conservative(old(self).parsed_modules@, changed(old(self).last_checked@, old(self).parsed_modules@), recheck_set@),
    ensures
      final(self).string_sources == old(self).string_sources, final(self).parsed_modules == old(self).parsed_modules,
      final(self).global_cx == old(self).global_cx, final(self).dep_graph == old(self).dep_graph,
      final(self).last_checked@ == final(self).parsed_modules@,
  { unimplemented!() }

  /// between two calls of an entry point
  spec fn steady(&self) -> bool {
    self.tables_agree() && self.dep_graph.built_from() == self.parsed_modules@ && self.last_checked@ == self.parsed_modules@
  }

//@extract crates/samlang-services/src/server_state.rs :: impl ServerState / fn remove
//@replace module_references.iter().copied().collect() => set_of_slice(module_references) ## R3: iterator adapter: the set of the slice's elements
//@replace if *mod_ref != ModuleReference::ROOT { => if mod_ref.is_not_root() { ## R3: comparison with the named constant of the opaque reference
//@contract
    requires
      vstd::std_specs::hash::obeys_key_model::<ModuleReference>(),
      old(self).steady(),
    ensures
      // (that `recheck` is reached with its preconditions is proved at the call)
      final(self).steady(),  // :remove_leaves_the_server_in_a_steady_state
      forall|m: ModuleReference| module_references@.contains(m) ==> !final(self).parsed_modules@.contains_key(m),  // :removed_modules_are_gone
      final(self).global_cx@.contains_key(root_reference()) && final(self).global_cx@[root_reference()] == builtin_signature(),  // :the_builtin_signatures_are_never_removed
      forall|m: ModuleReference| !module_references@.contains(m) && old(self).parsed_modules@.contains_key(m)
        ==> final(self).parsed_modules@.contains_key(m) && final(self).parsed_modules@[m] == old(self).parsed_modules@[m],  // :other_modules_are_kept
//@loop 0 iter=it
    invariant
      vstd::std_specs::hash::obeys_key_model::<ModuleReference>(),
      it.seq().len() == module_references@.len(),
      forall|j: int| 0 <= j < module_references@.len() ==> *(#[trigger] it.seq()[j]) == module_references@[j],
      self.tables_agree(),
      self.last_checked == old(self).last_checked, self.dep_graph == old(self).dep_graph,
      forall|m: ModuleReference| #[trigger] self.parsed_modules@.contains_key(m) <==> old(self).parsed_modules@.contains_key(m)
        && !(exists|j: int| 0 <= j < it.index() && module_references@[j] == m),
      forall|m: ModuleReference| self.parsed_modules@.contains_key(m) ==> #[trigger] self.parsed_modules@[m] == old(self).parsed_modules@[m],
//@loopend 0
      proof {
        assert(self.parsed_modules@.dom() =~= self.string_sources@.dom());
        assert(self.global_cx@.dom() =~= self.parsed_modules@.dom().insert(root_reference()));
      }
//@before self.recheck(ErrorSet::new(), &HashSet::new(), &recheck_set);
    proof {
      let before = old(self).parsed_modules@;
      let now = self.parsed_modules@;
      let removed = in_set(module_references@.to_set());
      assert forall|m: ModuleReference, k: nat| depends_on_dirty(now, changed(self.last_checked@, now), m, k) implies recheck_set@.contains(m) by {
        assert forall|x: ModuleReference| #[trigger] changed(before, now)(x) implies removed(x) by {
          if before.contains_key(x) && !now.contains_key(x) {
            let j = choose|j: int| 0 <= j < module_references@.len() && module_references@[j] == x;
            assert(module_references@[j] == x);
          }
        }
        lemma_dirty_monotone(now, changed(before, now), removed, m, k);
        let k2 = lemma_dependents_were_dependents(before, now, removed, m, k);
        assert(depends_on_dirty(before, removed, m, k2));
      }
    }
//@end


//@extract crates/samlang-services/src/server_state.rs :: impl ServerState / fn update
//@replace updates.iter().map(|(m, _)| *m).collect::<HashSet<_>>() => set_of_updated(&updates) ## R3: iterator adapter: the set of the updated module references
//@replace initial_update_set.clone() => clone_module_set(&initial_update_set) ## R3: HashSet::clone (no vstd specification): a set with the same elements
//@contract
    requires
      vstd::std_specs::hash::obeys_key_model::<ModuleReference>(),
      old(self).steady(),
      // assumed of the caller (the language server allocates a reference for every URL it is given a text for): ROOT is never given a text
      forall|j: int| 0 <= j < updates@.len() ==> (#[trigger] updates@[j]).0 != root_reference(),
    ensures
      final(self).steady(),  // :update_leaves_the_server_in_a_steady_state
      // every updated module now holds the parse of (the last of) its new texts; the others are untouched
      forall|m: ModuleReference| !updated_modules(updates@).contains(m) ==>
        (final(self).parsed_modules@.contains_key(m) == old(self).parsed_modules@.contains_key(m))
        && (old(self).parsed_modules@.contains_key(m) ==> final(self).parsed_modules@[m] == old(self).parsed_modules@[m]),  // :other_modules_are_untouched
      forall|m: ModuleReference| updated_modules(updates@).contains(m) ==> final(self).parsed_modules@.contains_key(m),  // :updated_modules_exist
//@loop 0 iter=it
    invariant
      vstd::std_specs::hash::obeys_key_model::<ModuleReference>(),
      it.seq() == updates@,
      forall|j: int| 0 <= j < updates@.len() ==> (#[trigger] updates@[j]).0 != root_reference(),
      self.tables_agree(),
      self.last_checked == old(self).last_checked,
      forall|m: ModuleReference| !(exists|j: int| 0 <= j < it.index() && updates@[j].0 == m) ==>
        (#[trigger] self.parsed_modules@.contains_key(m) == old(self).parsed_modules@.contains_key(m))
        && (old(self).parsed_modules@.contains_key(m) ==> self.parsed_modules@[m] == old(self).parsed_modules@[m]),
      forall|j: int| 0 <= j < it.index() ==> self.parsed_modules@.contains_key(#[trigger] updates@[j].0),
      forall|j: int| 0 <= j < it.index() ==> syntax_errors@.contains_key(#[trigger] updates@[j].0),
      per_module_sets_ok(syntax_errors@),
//@loopend 0
      proof {
        assert(self.parsed_modules@.dom() =~= self.string_sources@.dom());
        assert(self.global_cx@.dom() =~= self.parsed_modules@.dom().insert(root_reference()));
      }
//@before self.recheck(merge_error_sets(syntax_errors), &initial_update_set, &recheck_set);
    proof {
      assert forall|m: ModuleReference| initial_update_set@.contains(m) implies syntax_errors@.contains_key(m) && syntax_errors@[m].covers(m) by {
        lemma_updated_modules(updates@);
      }
      let now = self.parsed_modules@;
      let upd = in_set(updated_modules(updates@));
      lemma_updated_modules(updates@);
      assert forall|x: ModuleReference| #[trigger] changed(self.last_checked@, now)(x) implies upd(x) by {}
      assert forall|m: ModuleReference, k: nat| depends_on_dirty(now, changed(self.last_checked@, now), m, k) implies recheck_set@.contains(m) by {
        lemma_dirty_monotone(now, changed(self.last_checked@, now), upd, m, k);
      }
    }
//@end


//@extract crates/samlang-services/src/server_state.rs :: impl ServerState / fn rename_module
//@replace renames.iter().flat_map(|(a, b)| vec![*a, *b].into_iter()).collect() => set_of_renames(&renames) ## R3: iterator adapter: the set of all old and new names
//@contract
    requires
      vstd::std_specs::hash::obeys_key_model::<ModuleReference>(),
      old(self).steady(),
      // assumed of the caller: ROOT is never renamed and nothing is renamed to ROOT
      forall|j: int| 0 <= j < renames@.len() ==> (#[trigger] renames@[j]).0 != root_reference() && renames@[j].1 != root_reference(),
    ensures
      final(self).steady(),  // :rename_leaves_the_server_in_a_steady_state
      forall|m: ModuleReference| !renamed_modules(renames@).contains(m) ==>
        (final(self).parsed_modules@.contains_key(m) == old(self).parsed_modules@.contains_key(m))
        && (old(self).parsed_modules@.contains_key(m) ==> final(self).parsed_modules@[m] == old(self).parsed_modules@[m]),  // :modules_not_named_by_a_rename_are_untouched
//@loop 0 iter=it
    invariant
      vstd::std_specs::hash::obeys_key_model::<ModuleReference>(),
      it.seq() == renames@,
      forall|j: int| 0 <= j < renames@.len() ==> (#[trigger] renames@[j]).0 != root_reference() && renames@[j].1 != root_reference(),
      self.tables_agree(),  // :every_signature_is_the_one_of_the_current_parsed_module
      forall|m: ModuleReference| reparsed@.contains(m) ==> syntax_errors@.contains_key(m),
      per_module_sets_ok(syntax_errors@),
      // a module that exists and is not flagged as parsed again has the parsed form it had before
      forall|m: ModuleReference| #[trigger] self.parsed_modules@.contains_key(m) && !reparsed@.contains(m)
        ==> old(self).parsed_modules@.contains_key(m) && self.parsed_modules@[m] == old(self).parsed_modules@[m],
      self.last_checked == old(self).last_checked, self.dep_graph == old(self).dep_graph,
      forall|m: ModuleReference| !renamed_modules(renames@).contains(m) ==>
        (#[trigger] self.parsed_modules@.contains_key(m) == old(self).parsed_modules@.contains_key(m))
        && (old(self).parsed_modules@.contains_key(m) ==> self.parsed_modules@[m] == old(self).parsed_modules@[m]),
//@loopstart 0
      proof { lemma_renamed_modules(renames@); }
//@loopend 0
      proof {
        assert(self.parsed_modules@.dom() =~= self.string_sources@.dom());
        assert(self.global_cx@.dom() =~= self.parsed_modules@.dom().insert(root_reference()));
      }
//@before self.recheck(merge_error_sets(syntax_errors), &reparsed, &recheck_set);
    proof {
      let before = old(self).parsed_modules@;
      let now = self.parsed_modules@;
      let named = in_set(renamed_modules(renames@));
      assert forall|x: ModuleReference| #[trigger] changed(before, now)(x) implies named(x) by {}
      assert forall|m: ModuleReference, k: nat| depends_on_dirty(now, changed(self.last_checked@, now), m, k) implies recheck_set@.contains(m) by {
        lemma_dirty_monotone(now, changed(before, now), named, m, k);
        let k2 = lemma_dependents_were_dependents(before, now, named, m, k);
        assert(depends_on_dirty(before, named, m, k2));
      }
    }
//@end
}

/// R14 block of `recheck`: the errors found while re-checking each module are all merged into the round's error set
/// (which already holds the syntax errors of the modules parsed in this round) before they are collated per module
//@extractblock crates/samlang-services/src/server_state.rs :: impl ServerState / fn recheck
//@from for (mod_ref, checked, local_errors) in results {
//@to error_set.merge(local_errors); }
//@replace self.checked_modules.insert(mod_ref, checked); => checked_modules.insert(mod_ref, checked); ## R14: the table is a parameter of the synthetic function
//@wrap fn merge_recheck_results(checked_modules: &mut HashMap<ModuleReference, CheckedModule>, error_set: &mut ErrorSet, results: Vec<(ModuleReference, CheckedModule, ErrorSet)>)
//@contract
    requires
      vstd::std_specs::hash::obeys_key_model::<ModuleReference>(),
    ensures
      // nothing that was in the round's error set is lost, and every module's new errors are in it
      old(error_set).reported().subset_of(final(error_set).reported()),  // :syntax_errors_of_the_round_are_kept
      forall|j: int| 0 <= j < results@.len() ==> (#[trigger] results@[j]).2.reported().subset_of(final(error_set).reported()),  // :errors_of_every_rechecked_module_are_collected
//@loop 0 iter=it
    invariant
      vstd::std_specs::hash::obeys_key_model::<ModuleReference>(),
      it.seq() == results@,
      old(error_set).reported().subset_of(error_set.reported()),
      forall|j: int| 0 <= j < it.index() ==> (#[trigger] results@[j]).2.reported().subset_of(error_set.reported()),
//@end

proof fn canary_must_fail_srvstate() ensures false {}

} // verus!
fn main() {}
