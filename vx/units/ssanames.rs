// Unit `ssanames` — C06 kernel: every class / type-parameter name written in a type annotation is looked up.
// crates/samlang-checker/src/ssa_analysis.rs, verbatim: use_id, visit_annot, visit_id_annot, and the FieldAccess /
// MethodAccess arms of visit_expression (R14 blocks) — the explicit type arguments of a member access are
// annotations too.  "Cannot resolve name" for a class name used as a type is produced only here.
use vstd::prelude::*;
verus! {

global size_of usize == 8;

// ---- R7: opaque collaborators
#[verifier::external_body]
#[derive(Clone, Copy)]
struct PStr { _p: u128 }
#[verifier::external_body]
#[derive(Clone, Copy)]
struct Location { _p: u8 }
#[verifier::external_body]
#[derive(Clone, Copy)]
struct CommentReference { _p: u8 }
#[verifier::external_body]
#[derive(Clone, Copy)]
struct PrimitiveTypeKind { _p: u8 }
#[verifier::external_body]
#[derive(Clone, Copy)]
struct ModuleReference { _p: u32 }
uninterp spec fn same_module(a: ModuleReference, b: ModuleReference) -> bool;
impl ModuleReference {
  /// R3: derived PartialEq
  #[verifier::external_body]
  fn eq(&self, other: &ModuleReference) -> (r: bool) ensures r == same_module(*self, *other) { unimplemented!() }
}
#[verifier::external_body]
struct ErrorSet { _p: u8 }
impl ErrorSet {
  /// number of reported errors (unit errgate: an error once reported stays reported)
  uninterp spec fn count(&self) -> nat;
  #[verifier::external_body]
  fn report_cannot_resolve_name_error(&mut self, loc: Location, name: PStr)
    ensures final(self).count() == old(self).count() + 1
  { unimplemented!() }
}
/// the stack of scopes: what a name resolves to, as a value (`for_type` false) or as a type (`for_type` true)
#[verifier::external_body]
struct SsaLocalStackedContext { _p: u8 }
impl SsaLocalStackedContext {
  uninterp spec fn resolves(&self, name: PStr, for_type: bool) -> Option<Location>;
  #[verifier::external_body]
  fn get(&self, name: &PStr, for_type: bool) -> (r: Option<&Location>)
    ensures (r is Some) == (self.resolves(*name, for_type) is Some), r is Some ==> *r->Some_0 == self.resolves(*name, for_type)->Some_0
  { unimplemented!() }
}
#[verifier::external_body]
struct UseDefineMap { _p: u8 }
impl UseDefineMap {
  #[verifier::external_body]
  fn insert(&mut self, k: Location, v: Location) { unimplemented!() }
}
#[verifier::external_body]
struct NameSet { _p: u8 }
impl NameSet {
  #[verifier::external_body]
  fn insert(&mut self, k: PStr) { unimplemented!() }
}

// ---- R6: annotations reduced to the fields the visitors look at (hand-declared, names as in samlang_ast::source)
#[derive(Clone, Copy)]
struct Id { loc: Location, associated_comments: CommentReference, name: PStr }
mod annotation {
  use super::*;
  pub struct TypeArguments { pub arguments: Vec<T> }
  pub struct Id { pub location: Location, pub module_reference: ModuleReference, pub id: super::Id, pub type_arguments: Option<TypeArguments> }
  pub struct ParenthesizedAnnotationList { pub annotations: Vec<T> }
  pub struct Function { pub location: Location, pub associated_comments: CommentReference, pub parameters: ParenthesizedAnnotationList, pub return_type: Box<T> }
  pub enum T {
    Primitive(Location, CommentReference, PrimitiveTypeKind),
    Id(Id),
    Generic(Location, super::Id),
    Fn(Function),
  }
}
#[verifier::external_body]
struct E { _p: u8 }
struct FieldAccess { explicit_type_arguments: Option<annotation::TypeArguments>, object: Box<E> }
struct MethodAccess { explicit_type_arguments: Option<annotation::TypeArguments>, object: Box<E> }

/// some name written in the annotation does not resolve as a type in the scopes `cx` (class names are looked up
/// when they are written without a module qualifier, i.e. for the module being analysed)
spec fn names_an_unknown_type(t: annotation::T, cx: SsaLocalStackedContext, m: ModuleReference) -> bool
  decreases t
{
  match t {
    annotation::T::Primitive(_, _, _) => false,
    annotation::T::Id(a) => id_names_an_unknown_type(a, cx, m),
    annotation::T::Generic(_, id) => cx.resolves(id.name, true) is None,
    annotation::T::Fn(f) => names_an_unknown_type(*f.return_type, cx, m)
      || exists|k: int| 0 <= k < f.parameters.annotations@.len() && names_an_unknown_type(#[trigger] f.parameters.annotations@[k], cx, m),
  }
}
spec fn id_names_an_unknown_type(a: annotation::Id, cx: SsaLocalStackedContext, m: ModuleReference) -> bool
  decreases a
{
  (same_module(m, a.module_reference) && cx.resolves(a.id.name, true) is None)
  || (a.type_arguments is Some && exists|k: int| 0 <= k < a.type_arguments->Some_0.arguments@.len()
        && names_an_unknown_type(#[trigger] a.type_arguments->Some_0.arguments@[k], cx, m))
}
spec fn some_argument_names_an_unknown_type(ta: Option<annotation::TypeArguments>, cx: SsaLocalStackedContext, m: ModuleReference) -> bool {
  ta is Some && exists|k: int| 0 <= k < ta->Some_0.arguments@.len() && names_an_unknown_type(#[trigger] ta->Some_0.arguments@[k], cx, m)
}

struct SsaAnalysisState {
  module_reference: ModuleReference,
  context: SsaLocalStackedContext,
  use_define_map: UseDefineMap,
  unbound_names: NameSet,
  error_set: ErrorSet,
}
impl SsaAnalysisState {
  /// the rest of the expression visitor: opaque; it leaves the scopes as found and never retracts an error
  #[verifier::external_body]
  fn visit_expression(&mut self, e: &E)
    ensures final(self).context == old(self).context, final(self).module_reference == old(self).module_reference,
      final(self).error_set.count() >= old(self).error_set.count()
  { unimplemented!() }

//@extract crates/samlang-checker/src/ssa_analysis.rs :: impl<'a> SsaAnalysisState<'a> / fn use_id
//@contract
    ensures
      final(self).context == old(self).context, final(self).module_reference == old(self).module_reference,
      old(self).context.resolves(*name, for_type) is None ==> final(self).error_set.count() == old(self).error_set.count() + 1,  // :a_name_that_does_not_resolve_is_reported
      old(self).context.resolves(*name, for_type) is Some ==> final(self).error_set.count() == old(self).error_set.count(),
//@end

//@extract crates/samlang-checker/src/ssa_analysis.rs :: impl<'a> SsaAnalysisState<'a> / fn visit_id_annot
//@replace annotation::Id { location, module_reference, id, type_arguments }: &annotation::Id, => annot_id: &annotation::Id, ## R11: a destructuring parameter pattern is written as a plain parameter ..
//@replace if self.module_reference.eq(module_reference) { => let annotation::Id { location, module_reference, id, type_arguments } = annot_id; if self.module_reference.eq(module_reference) { ## R11: .. and the same pattern in a `let` at the top of the body
//@replace for targ in type_arguments.iter().flat_map(|it| &it.arguments) => if let Some(it) = type_arguments { for targ in iter: it.arguments.iter() ## R17: Option::iter().flat_map(|it| &it.F) walks the payload's vector if there is one
//@after self.visit_annot(targ);
    }
//@loopstart 0
      proof {
        assert(*targ == it.arguments@[iter.index() as int]);
        assert(decreases_to!(annot_id => annot_id.type_arguments));
        assert(decreases_to!(annot_id.type_arguments => annot_id.type_arguments->Some_0));
        assert(decreases_to!(annot_id.type_arguments->Some_0 => annot_id.type_arguments->Some_0.arguments));
        assert(decreases_to!(annot_id.type_arguments->Some_0.arguments => annot_id.type_arguments->Some_0.arguments@[iter.index() as int]));
      }
//@loop 0
          invariant
            self.context == old(self).context, self.module_reference == old(self).module_reference,
            self.error_set.count() >= old(self).error_set.count(),
            iter.seq().len() == it.arguments@.len(), forall|j: int| 0 <= j < it.arguments@.len() ==> *(#[trigger] iter.seq()[j]) == it.arguments@[j], annot_id.type_arguments == Some(*it),
            (same_module(old(self).module_reference, annot_id.module_reference) && old(self).context.resolves(annot_id.id.name, true) is None)
              ==> self.error_set.count() > old(self).error_set.count(),
            (exists|k: int| 0 <= k < iter.index() && names_an_unknown_type(#[trigger] it.arguments@[k], old(self).context, old(self).module_reference))
              ==> self.error_set.count() > old(self).error_set.count(),
//@contract
    ensures
      final(self).context == old(self).context, final(self).module_reference == old(self).module_reference,
      final(self).error_set.count() >= old(self).error_set.count(),
      id_names_an_unknown_type(*annot_id, old(self).context, old(self).module_reference)
        ==> final(self).error_set.count() > old(self).error_set.count(),  // :an_unknown_class_name_anywhere_in_a_class_type_is_reported
    decreases annot_id
//@end

//@extract crates/samlang-checker/src/ssa_analysis.rs :: impl<'a> SsaAnalysisState<'a> / fn visit_annot
//@replace for arg in &parameters.annotations => for arg in iter: parameters.annotations.iter() ## R9: IntoIterator for &Vec is Vec::iter
//@loop 0
          invariant
            self.context == old(self).context, self.module_reference == old(self).module_reference,
            self.error_set.count() >= old(self).error_set.count(),
            iter.seq().len() == parameters.annotations@.len(), forall|j: int| 0 <= j < parameters.annotations@.len() ==> *(#[trigger] iter.seq()[j]) == parameters.annotations@[j],
            *annot is Fn, annot->Fn_0.parameters == *parameters,
            (exists|k: int| 0 <= k < iter.index() && names_an_unknown_type(#[trigger] parameters.annotations@[k], old(self).context, old(self).module_reference))
              ==> self.error_set.count() > old(self).error_set.count(),
//@contract
    ensures
      final(self).context == old(self).context, final(self).module_reference == old(self).module_reference,
      final(self).error_set.count() >= old(self).error_set.count(),
      names_an_unknown_type(*annot, old(self).context, old(self).module_reference)
        ==> final(self).error_set.count() > old(self).error_set.count(),  // :an_unknown_type_name_anywhere_in_an_annotation_is_reported
    decreases annot
//@end

//@extractblock crates/samlang-checker/src/ssa_analysis.rs :: impl<'a> SsaAnalysisState<'a> / fn visit_expression
//@from expr::E::FieldAccess(e) => { self.visit_expression(&e.object);
//@replace expr::E::FieldAccess(e) => { ==>> { ## R14: the arm header is part of the anchor; its binding is the parameter of the synthetic function
//@to self.visit_annot(targ);
//@close } }
//@after self.visit_annot(targ);
    }
//@replace for targ in e.explicit_type_arguments.iter().flat_map(|it| &it.arguments) => if let Some(it) = &e.explicit_type_arguments { for targ in iter: it.arguments.iter() ## R17: Option::iter().flat_map(|it| &it.F) walks the payload's vector if there is one
//@loop 0
          invariant
            self.context == old(self).context, self.module_reference == old(self).module_reference,
            self.error_set.count() >= old(self).error_set.count(),
            iter.seq().len() == it.arguments@.len(), forall|j: int| 0 <= j < it.arguments@.len() ==> *(#[trigger] iter.seq()[j]) == it.arguments@[j],
            (exists|k: int| 0 <= k < iter.index() && names_an_unknown_type(#[trigger] it.arguments@[k], old(self).context, old(self).module_reference))
              ==> self.error_set.count() > old(self).error_set.count(),
//@wrap fn field_access_arm(&mut self, e: &FieldAccess)
//@contract
    ensures
      final(self).context == old(self).context,
      final(self).error_set.count() >= old(self).error_set.count(),
      some_argument_names_an_unknown_type(e.explicit_type_arguments, old(self).context, old(self).module_reference)
        ==> final(self).error_set.count() > old(self).error_set.count(),  // :an_unknown_type_name_in_the_explicit_type_arguments_of_a_member_access_is_reported
//@end

//@extractblock crates/samlang-checker/src/ssa_analysis.rs :: impl<'a> SsaAnalysisState<'a> / fn visit_expression
//@from expr::E::MethodAccess(e) => { self.visit_expression(&e.object);
//@replace expr::E::MethodAccess(e) => { ==>> { ## R14: the arm header is part of the anchor; its binding is the parameter of the synthetic function
//@to self.visit_annot(targ);
//@close } }
//@after self.visit_annot(targ);
    }
//@replace for targ in e.explicit_type_arguments.iter().flat_map(|it| &it.arguments) => if let Some(it) = &e.explicit_type_arguments { for targ in iter: it.arguments.iter() ## R17: Option::iter().flat_map(|it| &it.F) walks the payload's vector if there is one
//@loop 0
          invariant
            self.context == old(self).context, self.module_reference == old(self).module_reference,
            self.error_set.count() >= old(self).error_set.count(),
            iter.seq().len() == it.arguments@.len(), forall|j: int| 0 <= j < it.arguments@.len() ==> *(#[trigger] iter.seq()[j]) == it.arguments@[j],
            (exists|k: int| 0 <= k < iter.index() && names_an_unknown_type(#[trigger] it.arguments@[k], old(self).context, old(self).module_reference))
              ==> self.error_set.count() > old(self).error_set.count(),
//@wrap fn method_access_arm(&mut self, e: &MethodAccess)
//@contract
    ensures
      final(self).context == old(self).context,
      final(self).error_set.count() >= old(self).error_set.count(),
      some_argument_names_an_unknown_type(e.explicit_type_arguments, old(self).context, old(self).module_reference)
        ==> final(self).error_set.count() > old(self).error_set.count(),  // :an_unknown_type_name_in_the_explicit_type_arguments_of_a_member_access_is_reported
//@end
}

proof fn canary_must_fail_ssanames() ensures false {}

} // verus!
fn main() {}
