// Unit `ssascope` — C06 kernel: which names are in scope where (what "unresolved variable" is decided from).
// SsaAnalysisState::{visit_if_else, visit_if_else_or_block} (crates/samlang-checker/src/ssa_analysis.rs), verbatim:
// the variables bound by an `if let` pattern are in scope in the then-block and NOT in the else branch, and the
// scope stack is left as it was found.
use vstd::prelude::*;
verus! {

global size_of usize == 8;

// ---- R7: the syntax tree, opaque except for the shape of the condition and of the else branch
#[verifier::external_body]
struct E { _p: u8 }
#[verifier::external_body]
struct Block { _p: u8 }
#[verifier::external_body]
struct MatchingPattern { _p: u8 }
enum IfElseCondition {
  Expression(E),
  Guard(MatchingPattern, E),
}
struct IfElse {
  condition: Box<IfElseCondition>,
  e1: Box<Block>,
  e2: Box<IfElseOrBlock>,
}
enum IfElseOrBlock {
  IfElse(IfElse),
  Block(Block),
}

/// the analysis state: the stack of open scopes (what each binds, abstractly) and a log of where things were visited
#[verifier::external_body]
struct Scope { _p: u8 }
uninterp spec fn empty_scope() -> Scope;
uninterp spec fn with_pattern(s: Scope, p: MatchingPattern) -> Scope;
#[verifier::external_body]
struct SsaLocalStackedContext { _p: u8 }
impl SsaLocalStackedContext {
  uninterp spec fn stack(&self) -> Seq<Scope>;
  /// contract of the real push_scope / pop_scope (a Vec push / pop)
  #[verifier::external_body]
  fn push_scope(&mut self) ensures final(self).stack() == old(self).stack().push(empty_scope()) { unimplemented!() }
  #[verifier::external_body]
  fn pop_scope(&mut self) -> (r: (u8, u8))
    requires old(self).stack().len() > 0
    ensures final(self).stack() == old(self).stack().drop_last()
  { unimplemented!() }
}
struct SsaAnalysisState { context: SsaLocalStackedContext, log: Ghost<Seq<(int, Seq<Scope>)>> }
/// log entries: (1, stack) = a then-block was analysed under `stack`; (2, stack) = an else branch was
impl SsaAnalysisState {
  spec fn visits(&self) -> Seq<(int, Seq<Scope>)> { self.log@ }
  #[verifier::external_body]
  fn visit_expression(&mut self, e: &E)
    ensures final(self).context.stack() == old(self).context.stack(), final(self).visits() == old(self).visits()
  { unimplemented!() }
  /// a pattern's variables are defined in the innermost open scope
  #[verifier::external_body]
  fn visit_matching_pattern(&mut self, p: &MatchingPattern)
    requires old(self).context.stack().len() > 0
    ensures
      final(self).context.stack() == old(self).context.stack().drop_last().push(with_pattern(old(self).context.stack().last(), *p)),
      final(self).visits() == old(self).visits()
  { unimplemented!() }
  /// a block opens and closes its own scope (stack unchanged); the log records under which stack it was analysed
  #[verifier::external_body]
  fn visit_block(&mut self, b: &Block)
    ensures final(self).context.stack() == old(self).context.stack(),
      final(self).visits() == old(self).visits().push((1, old(self).context.stack()))
  { unimplemented!() }

//@extract crates/samlang-checker/src/ssa_analysis.rs :: impl<'a> SsaAnalysisState<'a> / fn visit_if_else_or_block
//@replace* expr::IfElseOrBlock<()> => IfElseOrBlock ## R7: reduced syntax tree
//@replace* expr::IfElseOrBlock:: => IfElseOrBlock:: ## R1: module path
//@replace self.visit_if_else(e) => self.visit_nested_if_else(e) ## R3: the recursive call goes through a stub with the contract of visit_if_else (mutual recursion over an opaque tree)
//@contract
    ensures
      final(self).context.stack() == old(self).context.stack(),
      final(self).visits().len() > old(self).visits().len(),
      forall|i: int| 0 <= i < old(self).visits().len() ==> final(self).visits()[i] == old(self).visits()[i],
      // the branch is analysed under the stack it was entered with (a nested `if let` adds only its own pattern scope)
      final(self).visits()[old(self).visits().len() as int].1 == first_visit_stack(*if_else_or_block, old(self).context.stack()),  // :else_branch_is_analysed_under_the_stack_it_was_entered_with
//@end

  /// the contract of visit_if_else (below), for the recursive call
  #[verifier::external_body]
  fn visit_nested_if_else(&mut self, if_else: &IfElse)
    ensures
      final(self).context.stack() == old(self).context.stack(),
      final(self).visits().len() > old(self).visits().len(),
      forall|i: int| 0 <= i < old(self).visits().len() ==> final(self).visits()[i] == old(self).visits()[i],
      final(self).visits()[old(self).visits().len() as int].1 == then_stack(*if_else, old(self).context.stack()),
  { unimplemented!() }

//@extract crates/samlang-checker/src/ssa_analysis.rs :: impl<'a> SsaAnalysisState<'a> / fn visit_if_else
//@replace* expr::IfElse<()> => IfElse ## R7: reduced syntax tree
//@replace* expr::IfElseCondition:: => IfElseCondition:: ## R1: module path
//@replace match if_else.condition.as_ref() { => match &*if_else.condition { ## R9: Box::as_ref is the dereference
//@contract
    ensures
      final(self).context.stack() == old(self).context.stack(),  // :scope_stack_is_left_as_it_was_found
      final(self).visits().len() >= old(self).visits().len() + 2,
      forall|i: int| 0 <= i < old(self).visits().len() ==> final(self).visits()[i] == old(self).visits()[i],
      // the then-block sees the pattern's variables (in a scope of their own) ..
      final(self).visits()[old(self).visits().len() as int] == (1int, then_stack(*if_else, old(self).context.stack())),  // :then_block_is_analysed_with_the_pattern_variables_in_scope
      // .. and the else branch is analysed under the stack the if-else was entered with: without them
      final(self).visits()[old(self).visits().len() as int + 1].1 == first_visit_stack(*if_else.e2, old(self).context.stack()),  // :else_branch_does_not_see_the_pattern_variables
//@end
}

/// the stack under which the first block of an else branch is analysed when the branch is entered with `entry`
spec fn first_visit_stack(e2: IfElseOrBlock, entry: Seq<Scope>) -> Seq<Scope> {
  match e2 { IfElseOrBlock::Block(_) => entry, IfElseOrBlock::IfElse(n) => then_stack(n, entry) }
}
/// the scope stack the then-block must be analysed under
spec fn then_stack(if_else: IfElse, entry: Seq<Scope>) -> Seq<Scope> {
  match *if_else.condition {
    IfElseCondition::Expression(_) => entry,
    IfElseCondition::Guard(p, _) => entry.push(with_pattern(empty_scope(), p)),
  }
}

proof fn canary_must_fail_ssascope() ensures false {}

} // verus!
fn main() {}
