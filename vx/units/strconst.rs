// Unit `strconst` — C04 kernel: string constants in the two outputs.
// TypeScript: the constant is spliced between backticks (crates/samlang-ast/src/lir.rs, Sources::pretty_print,
// loop body as an R14 block).  WebAssembly: its UTF-8 bytes go into a data segment
// (crates/samlang-compiler/src/wasm_lowering.rs, loop body as an R14 block) that is printed with
// print_byte_vec / byte_digit_to_char (crates/samlang-ast/src/wasm.rs, verbatim); loader.js turns every byte
// into one UTF-16 code unit.  Contracts: what each side emits; lemmas: what the emitted text denotes.
use vstd::prelude::*;
use vstd::string::StringSliceAdditionalSpecFns;
verus! {

global size_of usize == 8;

// =====================================================================================
// WebAssembly text format, string literals (spec 6.3.3), the subset the printer emits
// =====================================================================================
spec fn hex_val(c: char) -> Option<int> {
  if '0' <= c && c <= '9' { Some(c as int - '0' as int) }
  else if 'a' <= c && c <= 'f' { Some(c as int - 'a' as int + 10) }
  else if 'A' <= c && c <= 'F' { Some(c as int - 'A' as int + 10) }
  else { None }
}
/// bytes denoted by the inside of a WAT string literal; None = not (only) made of plain characters and \hh escapes
spec fn wat_decode(t: Seq<char>) -> Option<Seq<u8>>
  decreases t.len()
{
  if t.len() == 0 { Some(Seq::<u8>::empty()) }
  else if t[0] == '\\' {
    if t.len() >= 3 && hex_val(t[1]) is Some && hex_val(t[2]) is Some {
      match wat_decode(t.skip(3)) {
        Some(r) => Some(seq![(16 * hex_val(t[1])->Some_0 + hex_val(t[2])->Some_0) as u8] + r),
        None => None,
      }
    } else { None }
  }
  else if 0x20 <= t[0] as int && (t[0] as int) < 0x7f && t[0] != '"' {
    match wat_decode(t.skip(1)) { Some(r) => Some(seq![t[0] as u8] + r), None => None }
  }
  else { None }
}
pub open spec fn is_alnum(b: u8) -> bool { (0x30 <= b <= 0x39) || (0x41 <= b <= 0x5a) || (0x61 <= b <= 0x7a) }
spec fn hex_digit(d: int) -> char { if d < 10 { ('0' as int + d) as char } else { ('a' as int + d - 10) as char } }
/// what print_byte_vec writes for one byte
spec fn enc_byte(b: u8) -> Seq<char> {
  if is_alnum(b) { seq![b as char] } else { seq!['\\', hex_digit(b as int / 16), hex_digit(b as int % 16)] }
}
spec fn enc(bs: Seq<u8>) -> Seq<char>
  decreases bs.len()
{
  if bs.len() == 0 { Seq::<char>::empty() } else { enc(bs.drop_last()) + enc_byte(bs.last()) }
}

proof fn lemma_decode_append(x: Seq<char>, y: Seq<char>)
  requires wat_decode(x) is Some, wat_decode(y) is Some
  ensures wat_decode(x + y) == Some(wat_decode(x)->Some_0 + wat_decode(y)->Some_0)
  decreases x.len()
{
  if x.len() == 0 {
    assert(x + y == y);
    assert(Seq::<u8>::empty() + wat_decode(y)->Some_0 == wat_decode(y)->Some_0);
  } else if x[0] == '\\' {
    assert((x + y).skip(3) == x.skip(3) + y);
    assert((x + y)[1] == x[1] && (x + y)[2] == x[2]);
    lemma_decode_append(x.skip(3), y);
    let h = seq![(16 * hex_val(x[1])->Some_0 + hex_val(x[2])->Some_0) as u8];
    assert(h + (wat_decode(x.skip(3))->Some_0 + wat_decode(y)->Some_0) == (h + wat_decode(x.skip(3))->Some_0) + wat_decode(y)->Some_0);
  } else {
    assert((x + y).skip(1) == x.skip(1) + y);
    lemma_decode_append(x.skip(1), y);
    let h = seq![x[0] as u8];
    assert(h + (wat_decode(x.skip(1))->Some_0 + wat_decode(y)->Some_0) == (h + wat_decode(x.skip(1))->Some_0) + wat_decode(y)->Some_0);
  }
}

proof fn lemma_decode_enc_byte(b: u8)
  ensures wat_decode(enc_byte(b)) == Some(seq![b])
{
  let e = enc_byte(b);
  reveal_with_fuel(wat_decode, 3);
  if is_alnum(b) {
    assert(e.skip(1) == Seq::<char>::empty());
    assert((b as char) as u8 == b);
    assert(seq![b] + Seq::<u8>::empty() == seq![b]);
  } else {
    let hi = b as int / 16; let lo = b as int % 16;
    assert(hex_val(hex_digit(hi)) == Some(hi));
    assert(hex_val(hex_digit(lo)) == Some(lo));
    assert(e.skip(3) == Seq::<char>::empty());
    assert((16 * hi + lo) as u8 == b);
    assert(seq![b] + Seq::<u8>::empty() == seq![b]);
  }
}

/// the data segment text denotes exactly the bytes that were printed
proof fn lemma_wat_text_denotes_the_bytes(bs: Seq<u8>)
  ensures wat_decode(enc(bs)) == Some(bs)  // :data_segment_text_denotes_the_constant_bytes
  decreases bs.len()
{
  if bs.len() > 0 {
    lemma_wat_text_denotes_the_bytes(bs.drop_last());
    lemma_decode_enc_byte(bs.last());
    lemma_decode_append(enc(bs.drop_last()), enc_byte(bs.last()));
    assert(bs.drop_last() + seq![bs.last()] == bs);
  }
}

/// documented definition of u8::is_ascii_alphanumeric
pub assume_specification[ u8::is_ascii_alphanumeric ](b: &u8) -> (r: bool)
  ensures r == is_alnum(*b);

//@extract crates/samlang-ast/src/wasm.rs :: fn byte_digit_to_char
//@ret r
//@contract
    requires byte < 16,
    ensures r == hex_digit(byte as int),  // :hex_digit_of_a_nibble
//@end

//@extract crates/samlang-ast/src/wasm.rs :: fn print_byte_vec
//@contract
    ensures
      final(collector)@ == old(collector)@ + enc(array@),  // :bytes_are_printed_as_plain_alphanumerics_or_hex_escapes
//@loop 0 iter=it
    invariant
      it.seq().len() == array@.len(),
      forall|j: int| 0 <= j < array@.len() ==> *(#[trigger] it.seq()[j]) == array@[j],
      collector@ == old(collector)@ + enc(array@.take(it.index() as int)),  // :text_so_far_encodes_the_bytes_so_far
//@loopend 0
      proof {
        let k = it.index() as int;
        assert(array@.take(k + 1).drop_last() == array@.take(k));
        assert(array@.take(k + 1).last() == array@[k]);
        assert(old(collector)@ + enc(array@.take(k)) + enc_byte(array@[k]) == old(collector)@ + (enc(array@.take(k)) + enc_byte(array@[k])));
      }
//@atend
  proof { assert(array@.take(array@.len() as int) == array@); }
//@end

// =====================================================================================
// the two emitters
// =====================================================================================
#[verifier::external_body]
struct Heap { _p: u8 }
#[verifier::external_body]
#[derive(Clone, Copy)]
struct PStr { _p: u128 }
uninterp spec fn pstr_text(heap: &Heap, s: PStr) -> Seq<char>;
/// its UTF-8 encoding (what str::as_bytes returns)
uninterp spec fn pstr_bytes(heap: &Heap, s: PStr) -> Seq<u8>;
impl PStr {
  #[verifier::external_body]
  fn as_str<'a>(&self, heap: &'a Heap) -> (r: &'a str)
    ensures r@ == pstr_text(heap, *self), r.spec_bytes() == pstr_bytes(heap, *self),
      pstr_bytes(heap, *self).len() <= isize::MAX  // a str in memory is at most isize::MAX bytes long
  { unimplemented!() }
}
uninterp spec fn decimal(i: usize) -> Seq<char>;
/// R3: `i.to_string()` for a usize
#[verifier::external_body]
fn usize_to_string(i: usize) -> (r: String) ensures r@ == decimal(i) { unimplemented!() }

//@extractblock crates/samlang-ast/src/lir.rs :: impl Sources / fn pretty_print
//@from collector.push_str("const GLOBAL_STRING_");
//@to collector.push_str("` as unknown as number];\n");
//@replace &i.to_string() => &usize_to_string(i) ## R3: decimal rendering of the index
//@wrap fn ts_global_string(collector: &mut String, i: usize, s: &PStr, heap: &Heap)
//@contract
    ensures
      final(collector)@ == old(collector)@ + "const GLOBAL_STRING_"@ + decimal(i) + ": _Str = [0, `"@
        + pstr_text(heap, *s) + "` as unknown as number];\n"@,  // :typescript_constant_is_the_raw_text_between_backticks
//@end

//@extractblock crates/samlang-compiler/src/wasm_lowering.rs :: fn compile_lir_to_wasm
//@from let content_str = content.as_str(heap);
//@to data_segment_bytes.extend_from_slice(content_str.as_bytes());
//@wrap fn wasm_global_string(data_segment_bytes: &mut Vec<u8>, content: &PStr, heap: &Heap) -> (r: (usize, usize))
//@contract
    ensures
      final(data_segment_bytes)@ == old(data_segment_bytes)@ + pstr_bytes(heap, *content),  // :data_segment_grows_by_the_utf8_bytes_of_the_constant
      r.0 == old(data_segment_bytes)@.len() && r.1 == pstr_bytes(heap, *content).len(),       // :offset_and_length_delimit_those_bytes
//@atend
  (offset, length)
//@end


// =====================================================================================
// what the two outputs denote
// =====================================================================================
/// ECMA-262 12.9.6: the string value (TV) of the characters between the backticks of a template literal;
/// None = the characters are not one substitution-free template body, or use an escape not modelled here
/// (\x, \u, legacy octal, line continuation).  Every escape samlang accepts (t v 0 b f n r ") is modelled.
spec fn js_escape_value(c: char) -> Option<char> {
  if c == 'n' { Some('\n') } else if c == 't' { Some('\t') } else if c == 'r' { Some('\r') }
  else if c == 'b' { Some('\u{8}') } else if c == 'f' { Some('\u{c}') } else if c == 'v' { Some('\u{b}') }
  else if c == '\\' || c == '"' || c == '\'' || c == '`' || c == '$' { Some(c) }
  else { None }
}
spec fn is_digit(c: char) -> bool { '0' <= c && c <= '9' }
spec fn js_template_value(t: Seq<char>) -> Option<Seq<char>>
  decreases t.len()
{
  if t.len() == 0 { Some(Seq::<char>::empty()) }
  else if t[0] == '`' { None }
  else if t[0] == '$' && t.len() >= 2 && t[1] == '{' { None }
  else if t[0] == '\\' {
    if t.len() < 2 { None }
    else {
      let v = if t[1] == '0' && !(t.len() >= 3 && is_digit(t[2])) { Some('\0') } else { js_escape_value(t[1]) };
      match (v, js_template_value(t.skip(2))) { (Some(c), Some(r)) => Some(seq![c] + r), _ => None }
    }
  }
  else if t[0] == '\r' {
    // <CR> and <CR><LF> are normalised to <LF>
    let rest = if t.len() >= 2 && t[1] == '\n' { t.skip(2) } else { t.skip(1) };
    match js_template_value(rest) { Some(r) => Some(seq!['\n'] + r), None => None }
  }
  else { match js_template_value(t.skip(1)) { Some(r) => Some(seq![t[0]] + r), None => None } }
}
/// loader.js gcArrayToString: String.fromCharCode(...codes) with one code per byte of the array
spec fn loader_string(bytes: Seq<u8>) -> Seq<char> { Seq::new(bytes.len(), |i: int| bytes[i] as char) }

/// what the TypeScript program prints for the constant, and what the WebAssembly program prints
spec fn ts_prints(heap: &Heap, s: PStr) -> Option<Seq<char>> { js_template_value(pstr_text(heap, s)) }
spec fn wasm_prints(heap: &Heap, s: PStr) -> Seq<char> { loader_string(pstr_bytes(heap, s)) }

/// UTF-8 encodes a character below 0x80 as the byte with its code (assumed; RFC 3629)
spec fn all_ascii(t: Seq<char>) -> bool { forall|i: int| 0 <= i < t.len() ==> (#[trigger] t[i] as int) < 0x80 }
broadcast axiom fn axiom_utf8_of_ascii(heap: &Heap, s: PStr)
  requires all_ascii(pstr_text(heap, s))
  ensures #[trigger] pstr_bytes(heap, s) == Seq::new(pstr_text(heap, s).len(), |i: int| pstr_text(heap, s)[i] as u8);

/// characters that mean themselves in both outputs
spec fn plain(c: char) -> bool { 0x20 <= c as int && (c as int) < 0x7f && c != '\\' && c != '`' && c != '$' }
spec fn all_plain(t: Seq<char>) -> bool { forall|i: int| 0 <= i < t.len() ==> plain(#[trigger] t[i]) }

proof fn lemma_template_of_plain_text(t: Seq<char>)
  requires all_plain(t)
  ensures js_template_value(t) == Some(t)
  decreases t.len()
{
  if t.len() > 0 {
    assert(plain(t[0]));
    assert forall|i: int| 0 <= i < t.skip(1).len() implies plain(#[trigger] t.skip(1)[i]) by { assert(t.skip(1)[i] == t[i + 1]); }
    lemma_template_of_plain_text(t.skip(1));
    assert(seq![t[0]] + t.skip(1) == t);
  }
}

/// for constants made of plain printable ASCII both programs print the constant itself
proof fn lemma_string_constants_agree_on_plain_ascii(heap: &Heap, s: PStr)
  requires all_plain(pstr_text(heap, s))
  ensures
    ts_prints(heap, s) == Some(pstr_text(heap, s)),
    wasm_prints(heap, s) == pstr_text(heap, s),   // :both_outputs_print_a_plain_ascii_constant_unchanged
{
  let t = pstr_text(heap, s);
  lemma_template_of_plain_text(t);
  assert(all_ascii(t)) by { assert forall|i: int| 0 <= i < t.len() implies (#[trigger] t[i] as int) < 0x80 by { assert(plain(t[i])); } }
  axiom_utf8_of_ascii(heap, s);
  assert(wasm_prints(heap, s) =~= t) by {
    assert forall|i: int| 0 <= i < t.len() implies wasm_prints(heap, s)[i] == t[i] by { assert(plain(t[i])); assert((t[i] as u8) as char == t[i]); }
  }
}

/// C04 for string constants, all contents: NOT provable — see the two lemmas after it
proof fn lemma_string_constants_agree_for_all_contents(heap: &Heap, s: PStr)
  ensures ts_prints(heap, s) == Some(wasm_prints(heap, s))  // :typescript_and_webassembly_print_the_same_constant
{
}

/// a constant written "a\nb" in the source (four characters a \ n b are stored): TypeScript prints a line break,
/// WebAssembly prints the backslash and the n
proof fn lemma_escape_sequences_disagree(heap: &Heap, s: PStr)
  requires pstr_text(heap, s) == seq!['a', '\\', 'n', 'b']
  ensures
    ts_prints(heap, s) == Some(seq!['a', '\n', 'b']),
    wasm_prints(heap, s) == seq!['a', '\\', 'n', 'b'],   // :witness_backslash_n
{
  let t = pstr_text(heap, s);
  reveal_with_fuel(js_template_value, 5);
  assert(t.skip(1) == seq!['\\', 'n', 'b']);
  assert(t.skip(1).skip(2) == seq!['b']);
  assert(seq!['b'].skip(1) == Seq::<char>::empty());
  assert(js_template_value(seq!['b']) == Some(seq!['b'])) by { assert(seq!['b'] + Seq::<char>::empty() == seq!['b']); }
  assert(js_template_value(t.skip(1)) == Some(seq!['\n', 'b'])) by { assert(seq!['\n'] + seq!['b'] == seq!['\n', 'b']); }
  assert(seq!['a'] + seq!['\n', 'b'] == seq!['a', '\n', 'b']);
  assert(all_ascii(t));
  axiom_utf8_of_ascii(heap, s);
  assert(wasm_prints(heap, s) =~= t);
}

/// a constant containing a backtick or ${ does not even stay inside its template literal
proof fn lemma_backtick_breaks_the_typescript_constant(heap: &Heap, s: PStr)
  requires pstr_text(heap, s) == seq!['`']
  ensures ts_prints(heap, s) is None  // :witness_backtick
{
}

proof fn canary_must_fail_strconst() ensures false { broadcast use axiom_utf8_of_ascii; }

} // verus!
fn main() {}
