// Unit `strlit` — C08 kernel: a string literal survives formatting.
// The parser stores a literal with `\"` unescaped (utils::unescape_quotes); the printer has to write the
// escape back (escape_quotes).  Real code: crates/samlang-parser/src/source_parser.rs (unescape_quotes and the
// StringLiteral arm of the base-expression parser), crates/samlang-printer/src/source_printer.rs
// (escape_quotes and the Literal::String arm of create_doc_without_preceding_comment).
// Theorem: for every token the lexer can return, the printed literal is the source token, character by character.
use vstd::prelude::*;
verus! {

global size_of usize == 8;

// ---- std's str::replace for the two patterns used, as functions on character sequences
/// `s.replace("\\\"", "\"")`: every non-overlapping leftmost occurrence of backslash-quote becomes a quote
spec fn unesc(b: Seq<char>) -> Seq<char>
  decreases b.len()
{
  if b.len() == 0 { b }
  else if b.len() >= 2 && b[0] == '\\' && b[1] == '"' { seq!['"'] + unesc(b.skip(2)) }
  else { seq![b[0]] + unesc(b.skip(1)) }
}
/// `s.replace('"', "\\\"")`: every quote becomes backslash-quote
spec fn esc(s: Seq<char>) -> Seq<char>
  decreases s.len()
{
  if s.len() == 0 { s }
  else if s[0] == '"' { seq!['\\', '"'] + esc(s.skip(1)) }
  else { seq![s[0]] + esc(s.skip(1)) }
}
/// what the lexer guarantees about the inside of a string token (unit lexer, clause
/// interior_quotes_are_escaped): a quote inside the literal is preceded by a backslash
spec fn quotes_escaped(b: Seq<char>) -> bool {
  forall|i: int| 0 <= i < b.len() && #[trigger] b[i] == '"' ==> i > 0 && b[i - 1] == '\\'
}

/// writing the escapes back restores the source text of the literal
proof fn lemma_escape_restores_source(b: Seq<char>)
  requires quotes_escaped(b)
  ensures esc(unesc(b)) == b  // :escaping_the_stored_literal_restores_the_source_text
  decreases b.len()
{
  if b.len() == 0 {
  } else if b.len() >= 2 && b[0] == '\\' && b[1] == '"' {
    let rest = b.skip(2);
    assert forall|i: int| 0 <= i < rest.len() && #[trigger] rest[i] == '"' implies i > 0 && rest[i - 1] == '\\' by {
      assert(rest[i] == b[i + 2]);
      if i > 0 { assert(rest[i - 1] == b[i + 1]); }
    }
    lemma_escape_restores_source(rest);
    let u = seq!['"'] + unesc(rest);
    assert(u.skip(1) == unesc(rest));
    assert(esc(u) == seq!['\\', '"'] + esc(unesc(rest)));
    assert(seq!['\\', '"'] + rest == b);
  } else {
    let rest = b.skip(1);
    assert(b[0] != '"');
    assert forall|i: int| 0 <= i < rest.len() && #[trigger] rest[i] == '"' implies i > 0 && rest[i - 1] == '\\' by {
      assert(rest[i] == b[i + 1]);
      if i > 0 { assert(rest[i - 1] == b[i]); }
    }
    lemma_escape_restores_source(rest);
    let u = seq![b[0]] + unesc(rest);
    assert(u.skip(1) == unesc(rest));
    assert(esc(u) == seq![b[0]] + esc(unesc(rest)));
    assert(seq![b[0]] + rest == b);
  }
}

/// and parsing the printed text gives back the stored literal, whatever it is
proof fn lemma_unescape_inverts_escape(s: Seq<char>)
  ensures unesc(esc(s)) == s  // :reparsing_the_printed_literal_gives_the_stored_string
  decreases s.len()
{
  if s.len() == 0 {
  } else if s[0] == '"' {
    lemma_unescape_inverts_escape(s.skip(1));
    let e = seq!['\\', '"'] + esc(s.skip(1));
    assert(e.skip(2) == esc(s.skip(1)));
    assert(seq!['"'] + s.skip(1) == s);
  } else {
    lemma_unescape_inverts_escape(s.skip(1));
    let e = seq![s[0]] + esc(s.skip(1));
    assert(e.skip(1) == esc(s.skip(1)));
    assert(!(e.len() >= 2 && e[0] == '\\' && e[1] == '"')) by {
      if s[0] == '\\' && e.len() >= 2 {
        // the character after a stored backslash is either not a quote, or a quote that was escaped (then it is a backslash)
        let r = s.skip(1);
        if r.len() > 0 { if r[0] == '"' { assert(esc(r)[0] == '\\'); } else { assert(esc(r)[0] == r[0]); } }
        assert(e[1] == esc(r)[0]);
      }
    }
    assert(seq![s[0]] + s.skip(1) == s);
  }
}

// ---- R3 stubs: the two std calls, with the contracts above
#[verifier::external_body]
fn str_replace_backslash_quote_by_quote(source: &str) -> (r: String)
  ensures r@ == unesc(source@)
{ unimplemented!() }
#[verifier::external_body]
fn str_replace_quote_by_backslash_quote(source: &str) -> (r: String)
  ensures r@ == esc(source@)
{ unimplemented!() }

//@extract crates/samlang-parser/src/source_parser.rs :: mod utils / fn unescape_quotes
//@ret r
//@replace source.replace("\\\"", "\"") => str_replace_backslash_quote_by_quote(source) ## R3: str::replace with a literal pattern (leftmost non-overlapping occurrences)
//@contract
    ensures r@ == unesc(source@),  // :parser_stores_the_unescaped_literal
//@end

//@extract crates/samlang-printer/src/source_printer.rs :: fn escape_quotes
//@ret r
//@replace source.replace('"', "\\\"") => str_replace_quote_by_backslash_quote(source) ## R3: str::replace with a character pattern
//@contract
    ensures r@ == esc(source@),  // :printer_escapes_every_quote
//@end

// ---- the printer arm: documents are abstracted to "how they were built" (as in unit paren)
#[verifier::external_body]
struct Heap { _p: u8 }
#[verifier::external_body]
#[derive(Clone, Copy)]
struct PStr { _p: u128 }
uninterp spec fn pstr_text(heap: &Heap, s: PStr) -> Seq<char>;
impl PStr {
  #[verifier::external_body]
  fn as_str<'a>(&self, heap: &'a Heap) -> (r: &'a str) ensures r@ == pstr_text(heap, *self) { unimplemented!() }
}
#[verifier::external_body]
struct Document { _p: u8 }
uninterp spec fn doc_static(t: Seq<char>) -> Document;      // Document::Text(t)
uninterp spec fn doc_string(t: Seq<char>) -> Document;      // Document::non_static_str(t)
uninterp spec fn doc_concat(ds: Seq<Document>) -> Document; // Document::concat(vec![..])
#[verifier::external_body]
fn document_text(t: &'static str) -> (r: Document) ensures r == doc_static(t@) { unimplemented!() }
#[verifier::external_body]
fn document_non_static_str(s: String) -> (r: Document) ensures r == doc_string(s@) { unimplemented!() }
#[verifier::external_body]
fn document_concat3(a: Document, b: Document, c: Document) -> (r: Document) ensures r == doc_concat(seq![a, b, c]) { unimplemented!() }

//@extractblock crates/samlang-printer/src/source_printer.rs :: fn create_doc_without_preceding_comment
//@from expr::E::Literal(_, Literal::String(s)) => Document::concat(vec![
//@to Document::Text("\""), ])
//@replace expr::E::Literal(_, Literal::String(s)) => Document::concat(vec![ ==>> document_concat3( ## R14: the arm header is part of the anchor and is dropped; Document::concat of a three-element vec is the stub document_concat3 (R3)
//@replace* Document::Text( => document_text( ## R3: enum constructor as a function
//@replace Document::non_static_str( => document_non_static_str( ## R3: constructor function of the opaque document
//@replace , ]) => ) ## R3: closing of Document::concat(vec![..])
//@wrap fn string_literal_arm(heap: &Heap, s: &PStr) -> (r: Document)
//@contract
    ensures
      r == doc_concat(seq![doc_static("\""@), doc_string(esc(pstr_text(heap, *s))), doc_static("\""@)]),  // :literal_is_printed_with_its_quotes_escaped
//@end


// ---- the parser arm: the stored literal is the token without its delimiters, unescaped
/// R3: `s.as_str(parser.heap).chars().collect_vec()` — the characters of the token text
#[verifier::external_body]
fn token_chars(token: &str) -> (r: Vec<char>) ensures r@ == token@ { unimplemented!() }
/// R3: `<slice of chars>.iter().collect::<String>()`
#[verifier::external_body]
fn string_from_chars(cs: &[char]) -> (r: String) ensures r@ == cs@ { unimplemented!() }

//@extractblock crates/samlang-parser/src/source_parser.rs :: mod expression_parser / fn parse_base_expression_single_token
//@from let chars = s.as_str(parser.heap).chars().collect_vec();
//@to .iter().collect::<String>());
//@replace s.as_str(parser.heap).chars().collect_vec() => token_chars(token) ## R3: the characters of the token text (iterator adapter + itertools)
//@replace &chars[1..(chars.len() - 1)].iter().collect::<String>() => &string_from_chars(&chars[1..(chars.len() - 1)]) ## R3: collecting characters into a String; the slice expression is kept
//@replace super::utils::unescape_quotes( => unescape_quotes( ## R1: module path of the extracted function
//@wrap fn string_literal_value(token: &str) -> (r: String)
//@contract
    requires
      token@.len() >= 2,   // a string token has both delimiters (unit lexer: a Some result consumed >= 2 bytes)
    ensures
      r@ == unesc(token@.subrange(1, token@.len() - 1)),  // :stored_literal_is_the_unescaped_inside_of_the_token
//@atend
  str_lit
//@end

/// the static text around the literal is one quote character
proof fn lemma_quote_text()
  ensures "\""@ == seq!['"']  // :delimiters_are_single_quote_characters
{
  reveal_strlit("\"");
  assert("\""@.len() == 1);
  assert("\""@ =~= seq!['"']);
}

/// C08 for string literals: a token `"` b `"` whose inner quotes are escaped (lexer) is stored as unesc(b)
/// (parser) and printed as `"` esc(unesc(b)) `"` (printer), which is the token again.
proof fn thm_printed_string_literal_is_the_source_token(token: Seq<char>)
  requires
    token.len() >= 2, token[0] == '"', token[token.len() - 1] == '"',
    quotes_escaped(token.subrange(1, token.len() - 1)),
  ensures
    seq!['"'] + esc(unesc(token.subrange(1, token.len() - 1))) + seq!['"'] == token,  // :formatting_reproduces_every_string_literal_token
{
  lemma_escape_restores_source(token.subrange(1, token.len() - 1));
  assert(seq!['"'] + token.subrange(1, token.len() - 1) + seq!['"'] == token);
}

proof fn canary_must_fail_strlit() ensures false {}

} // verus!
fn main() {}
