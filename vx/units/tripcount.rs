// Unit `tripcount` — C02 / C05: closed-form trip counts of
// crates/samlang-optimization/src/loop_algebraic_optimization.rs, bodies extracted verbatim.
use vstd::prelude::*;
use vstd::arithmetic::div_mod::*;
use vstd::arithmetic::mul::*;
verus! {

global size_of usize == 8;

//@extract crates/samlang-optimization/src/loop_induction_analysis.rs :: enum GuardOperator
//@attr #[derive(Clone, Copy)]
//@end

/// the loop keeps running while `cur op bound` holds
spec fn guard_holds(op: GuardOperator, cur: int, bound: int) -> bool {
  match op {
    GuardOperator::LT => cur < bound,
    GuardOperator::LE => cur <= bound,
    GuardOperator::GT => cur > bound,
    GuardOperator::GE => cur >= bound,
  }
}

/// n is exactly the number of iterations of `while (i op bound) i += step` started at `init`,
/// over the mathematical integers, and the induction variable never left the i32 range on the
/// way (so the wrapping run of the target and the mathematical run coincide).
/// value of the induction variable after k iterations
spec fn iv(init: int, step: int, k: int) -> int { init + k * step }
spec fn exact_trip_count(init: int, step: int, op: GuardOperator, bound: int, n: int) -> bool {
  &&& n >= 0
  &&& !guard_holds(op, iv(init, step, n), bound)
  &&& forall|k: int| 0 <= k < n ==> guard_holds(op, #[trigger] iv(init, step, k), bound)
  &&& i32::MIN <= iv(init, step, n) <= i32::MAX
}

/// like exact_trip_count but without the range clause (the caller checks the range)
spec fn least_exit(init: int, step: int, bound: int, n: int) -> bool {
  &&& n >= 0
  &&& iv(init, step, n) >= bound
  &&& forall|k: int| 0 <= k < n ==> #[trigger] iv(init, step, k) < bound
}

// Trusted std contract missing from vstd
pub assume_specification[ i32::checked_neg ](x: i32) -> (r: Option<i32>)
  ensures r == (if x == i32::MIN { None::<i32> } else { Some((-x) as i32) });

//@extract crates/samlang-optimization/src/loop_algebraic_optimization.rs :: fn analyze_number_of_iterations_to_break_less_than_guard
//@ret r
//@contract
    ensures
      r is Some ==> least_exit(initial_guard_value as int, guard_increment_amount as int, guarded_value as int, r->Some_0 as int),  // :count_is_the_least_exit
      r is Some && initial_guard_value < guarded_value ==> guard_increment_amount > 0,  // :progress_needed
//@after let difference = guarded_value.checked_sub(initial_guard_value)?;
  proof {
    let d = difference as int; let st = guard_increment_amount as int;
    lemma_fundamental_div_mod(d, st);
    lemma_mod_bound(d, st);
    lemma_div_pos_is_pos(d, st);
    // q <= d, and 2q <= d when st >= 2 (so q + 1 cannot overflow)
    assert(d / st <= d) by { lemma_div_is_ordered_by_denominator(d, 1, st); lemma_div_basics(d); }
    if st >= 2 && d % st != 0 {
      assert(st * (d / st) >= 2 * (d / st)) by { lemma_mul_inequality(2, st, d / st); }
    }
  }
//@before Some(count)
  proof {
    let d = difference as int; let st = guard_increment_amount as int; let q = d / st; let rr = d % st;
    let n = count as int; let init = initial_guard_value as int;
    lemma_mul_is_commutative(st, q);
    assert(n * st == q * st + (if rr != 0 { st } else { 0 })) by { lemma_mul_is_distributive_add_other_way(st, q, 1); }
    assert forall|k: int| 0 <= k < n implies #[trigger] iv(init, st, k) < guarded_value by {
      if rr != 0 { lemma_mul_inequality(k, q, st); } else { lemma_mul_inequality(k, q - 1, st); lemma_mul_is_distributive_sub_other_way(st, q, 1); }
    }
  }
//@end

//@extract crates/samlang-optimization/src/loop_algebraic_optimization.rs :: fn analyze_number_of_iterations_to_break_guard
//@ret r
//@contract
    ensures
      r is Some ==> exact_trip_count(initial_guard_value as int, guard_increment_amount as int, operator, guarded_value as int, r->Some_0 as int),  // :count_is_exact_and_in_range
//@before initial_guard_value.checked_add(guard_increment_amount.checked_mul(count)?)?;
  proof {
    let init = initial_guard_value as int; let st = guard_increment_amount as int; let n = count as int; let b = guarded_value as int;
    assert forall|k: int| iv(-init, -st, k) == -iv(init, st, k) by { lemma_mul_unary_negation(k, st); }
    assert forall|k: int| 0 <= k < n implies guard_holds(operator, #[trigger] iv(init, st, k), b) by {
      match operator {
        GuardOperator::LT => { assert(iv(init, st, k) < b); }
        GuardOperator::LE => { assert(iv(init, st, k) < b + 1); }
        GuardOperator::GT => { assert(iv(-init, -st, k) < -b); }
        GuardOperator::GE => { assert(iv(-init, -st, k) < -(b - 1)); }
      }
    }
    lemma_mul_is_commutative(st, n);
  }
//@end

proof fn canary_must_fail_tripcount() ensures false {}

} // verus!
fn main() {}
