// Unit `tsstmt` — C04 kernel: the TypeScript text of an if-else and of a loop (lir::Statement::pretty_print_internal,
// crates/samlang-ast/src/lir.rs, the IfElse and While arms as R14 blocks).  Counterpart of the WebAssembly side in
// unit `wasmlower` (lower_if_else_arm) and `loopvars`: each branch ends with its final assignments — the then-branch
// with the first value, the else-branch with the second —, a loop assigns the next values in list order at the end of
// its body and declares its result variable in front of it.
use vstd::prelude::*;
use std::collections::HashMap;
verus! {

global size_of usize == 8;

#[verifier::external_body]
struct Heap { _p: u8 }
#[verifier::external_body]
struct SymbolTable { _p: u8 }
#[verifier::external_body]
#[derive(Clone, Copy, PartialEq, Eq, Hash)]
struct PStr { _p: u128 }
uninterp spec fn name_text(n: PStr) -> Seq<char>;
impl PStr {
  #[verifier::external_body]
  fn as_str<'a>(&self, heap: &'a Heap) -> (r: &'a str) ensures r@ == name_text(*self) { unimplemented!() }
}
#[verifier::external_body]
struct Type { _p: u8 }
uninterp spec fn type_text(t: Type) -> Seq<char>;
impl Type {
  #[verifier::external_body]
  fn pretty_print(&self, collector: &mut String, heap: &Heap, symbol_table: &SymbolTable)
    ensures final(collector)@ == old(collector)@ + type_text(*self)
  { unimplemented!() }
}
#[verifier::external_body]
struct Expression { _p: u8 }
uninterp spec fn expr_text(e: Expression) -> Seq<char>;
impl Expression {
  #[verifier::external_body]
  fn pretty_print(&self, collector: &mut String, heap: &Heap, symbol_table: &SymbolTable, str_table: &HashMap<PStr, usize>)
    ensures final(collector)@ == old(collector)@ + expr_text(*self)
  { unimplemented!() }
}
/// nested statements: the recursive call, abstracted to the text it appends
#[verifier::external_body]
struct Statement { _p: u8 }
uninterp spec fn stmt_text(s: Statement, level: nat, break_collector: Option<(PStr, Type)>) -> Seq<char>;
uninterp spec fn spaces(level: nat) -> Seq<char>;
impl Statement {
  #[verifier::external_body]
  fn pretty_print_internal(&self, heap: &Heap, symbol_table: &SymbolTable, str_table: &HashMap<PStr, usize>, level: usize, break_collector: &Option<(PStr, Type)>, collector: &mut String)
    ensures final(collector)@ == old(collector)@ + stmt_text(*self, level as nat, *break_collector)
  { unimplemented!() }
  #[verifier::external_body]
  fn append_spaces(collector: &mut String, level: usize)
    ensures final(collector)@ == old(collector)@ + spaces(level as nat)
  { unimplemented!() }
}

type FinalAssignment = (PStr, Type, Expression, Expression);

spec fn stmts_text(s: Seq<Statement>, level: nat, bc: Option<(PStr, Type)>) -> Seq<char>
  decreases s.len()
{
  if s.len() == 0 { seq![] } else { stmts_text(s.drop_last(), level, bc) + stmt_text(s.last(), level, bc) }
}
/// `var n: T;` for every final assignment
spec fn declarations(fa: Seq<FinalAssignment>, level: nat) -> Seq<char>
  decreases fa.len()
{
  if fa.len() == 0 { seq![] } else {
    declarations(fa.drop_last(), level) + spaces(level) + "var "@ + name_text(fa.last().0) + ": "@ + type_text(fa.last().1) + ";\n"@
  }
}
/// `n = e;` for every final assignment, e the first value in the then-branch and the second in the else-branch
spec fn assignments(fa: Seq<FinalAssignment>, level: nat, then_branch: bool) -> Seq<char>
  decreases fa.len()
{
  if fa.len() == 0 { seq![] } else {
    assignments(fa.drop_last(), level, then_branch) + spaces(level) + name_text(fa.last().0) + " = "@
      + expr_text(if then_branch { fa.last().2 } else { fa.last().3 }) + ";\n"@
  }
}
spec fn if_else_text(condition: Expression, s1: Seq<Statement>, s2: Seq<Statement>, fa: Seq<FinalAssignment>, level: nat, bc: Option<(PStr, Type)>) -> Seq<char> {
  declarations(fa, level)
    + spaces(level) + "if ("@ + expr_text(condition) + ") {\n"@
    + stmts_text(s1, level + 1, bc) + assignments(fa, level + 1, true)
    + spaces(level) + "} else {\n"@
    + stmts_text(s2, level + 1, bc) + assignments(fa, level + 1, false)
    + spaces(level) + "}\n"@
}

//@extractblock crates/samlang-ast/src/lir.rs :: impl Statement / fn pretty_print_internal
//@from Self::IfElse { condition, s1, s2, final_assignments } => {
//@to collector.push_str("}\n"); }
//@replace Self::IfElse { condition, s1, s2, final_assignments } => { ==>> { let ghost c0 = collector@; proof { assert(final_assignments@.take(final_assignments@.len() as int) =~= final_assignments@); assert(s1@.take(s1@.len() as int) =~= s1@); assert(s2@.take(s2@.len() as int) =~= s2@); } ## R14: the arm header is part of the anchor; its bindings are the parameters of the synthetic function (R8: ghost snapshot of the text so far)
//@replace for (n, t, _, _) in final_assignments { ==>> for fa in it: final_assignments.iter() invariant it.seq().len() == final_assignments@.len(), forall|j: int| 0 <= j < final_assignments@.len() ==> *(#[trigger] it.seq()[j]) == final_assignments@[j], collector@ =~= c0 + declarations(final_assignments@.take(it.index() as int), level as nat), { proof { assert(final_assignments@.take(it.index() + 1).drop_last() =~= final_assignments@.take(it.index() as int)); } let (n, t, _, _) = fa; ## R11: destructuring loop pattern as a let (with R9 Vec::iter, R8 ghost iterator name, invariant and hint)
//@replace for s in s1 { ==>> let ghost c1 = collector@; for s in it: s1.iter() invariant it.seq().len() == s1@.len(), forall|j: int| 0 <= j < s1@.len() ==> *(#[trigger] it.seq()[j]) == s1@[j], level < usize::MAX, collector@ =~= c1 + stmts_text(s1@.take(it.index() as int), (level + 1) as nat, *break_collector), { proof { assert(s1@.take(it.index() + 1).drop_last() =~= s1@.take(it.index() as int)); } ## R9: IntoIterator for &Vec is Vec::iter (with R8 ghost snapshot, invariant and hint)
//@replace for (n, _, v1, _) in final_assignments { ==>> let ghost c2 = collector@; for fa in it: final_assignments.iter() invariant it.seq().len() == final_assignments@.len(), forall|j: int| 0 <= j < final_assignments@.len() ==> *(#[trigger] it.seq()[j]) == final_assignments@[j], level < usize::MAX, collector@ =~= c2 + assignments(final_assignments@.take(it.index() as int), (level + 1) as nat, true), { proof { assert(final_assignments@.take(it.index() + 1).drop_last() =~= final_assignments@.take(it.index() as int)); } let (n, _, v1, _) = fa; ## R11: destructuring loop pattern as a let (with R9 Vec::iter, R8 ghost snapshot, invariant and hint)
//@replace for s in s2 { ==>> let ghost c3 = collector@; for s in it: s2.iter() invariant it.seq().len() == s2@.len(), forall|j: int| 0 <= j < s2@.len() ==> *(#[trigger] it.seq()[j]) == s2@[j], level < usize::MAX, collector@ =~= c3 + stmts_text(s2@.take(it.index() as int), (level + 1) as nat, *break_collector), { proof { assert(s2@.take(it.index() + 1).drop_last() =~= s2@.take(it.index() as int)); } ## R9: IntoIterator for &Vec is Vec::iter (with R8 ghost snapshot, invariant and hint)
//@replace for (n, _, _, v2) in final_assignments { ==>> let ghost c4 = collector@; for fa in it: final_assignments.iter() invariant it.seq().len() == final_assignments@.len(), forall|j: int| 0 <= j < final_assignments@.len() ==> *(#[trigger] it.seq()[j]) == final_assignments@[j], level < usize::MAX, collector@ =~= c4 + assignments(final_assignments@.take(it.index() as int), (level + 1) as nat, false), { proof { assert(final_assignments@.take(it.index() + 1).drop_last() =~= final_assignments@.take(it.index() as int)); } let (n, _, _, v2) = fa; ## R11: destructuring loop pattern as a let (with R9 Vec::iter, R8 ghost snapshot, invariant and hint)
//@replace* Self::append_spaces( => Statement::append_spaces( ## R14: `Self` of the enclosing impl written out
//@wrap fn ts_if_else_arm(condition: &Expression, s1: &Vec<Statement>, s2: &Vec<Statement>, final_assignments: &Vec<FinalAssignment>, heap: &Heap, symbol_table: &SymbolTable, str_table: &HashMap<PStr, usize>, level: usize, break_collector: &Option<(PStr, Type)>, collector: &mut String)
//@contract
    requires level < usize::MAX
    ensures
      final(collector)@ =~= old(collector)@ + if_else_text(*condition, s1@, s2@, final_assignments@, level as nat, *break_collector),  // :typescript_if_else_ends_each_branch_with_its_final_assignments
//@end

// ---- the loop
/// R6: hand-declared with the field names and types of lir::GenenalLoopVariable
struct GenenalLoopVariable { name: PStr, type_: Type, initial_value: Expression, loop_value: Expression }
/// `let n: T = initial;` for every loop variable
spec fn initialisations(vs: Seq<GenenalLoopVariable>, level: nat) -> Seq<char>
  decreases vs.len()
{
  if vs.len() == 0 { seq![] } else {
    initialisations(vs.drop_last(), level) + spaces(level) + "let "@ + name_text(vs.last().name) + ": "@ + type_text(vs.last().type_)
      + " = "@ + expr_text(vs.last().initial_value) + ";\n"@
  }
}
/// `n = next;` for every loop variable, in list order
spec fn next_values(vs: Seq<GenenalLoopVariable>, level: nat) -> Seq<char>
  decreases vs.len()
{
  if vs.len() == 0 { seq![] } else {
    next_values(vs.drop_last(), level) + spaces(level) + name_text(vs.last().name) + " = "@ + expr_text(vs.last().loop_value) + ";\n"@
  }
}
spec fn result_declaration(bc: Option<(PStr, Type)>, level: nat) -> Seq<char> {
  match bc { Some((n, t)) => spaces(level) + "let "@ + name_text(n) + ": "@ + type_text(t) + ";\n"@, None => seq![] }
}
spec fn while_text(vs: Seq<GenenalLoopVariable>, statements: Seq<Statement>, bc: Option<(PStr, Type)>, level: nat) -> Seq<char> {
  initialisations(vs, level) + result_declaration(bc, level)
    + spaces(level) + "while (true) {\n"@
    + stmts_text(statements, level + 1, bc) + next_values(vs, level + 1)
    + spaces(level) + "}\n"@
}

//@extractblock crates/samlang-ast/src/lir.rs :: impl Statement / fn pretty_print_internal
//@from Self::While { loop_variables, statements, break_collector } => {
//@to collector.push_str("}\n"); }
//@replace Self::While { loop_variables, statements, break_collector } => { ==>> { let ghost c0 = collector@; proof { assert(loop_variables@.take(loop_variables@.len() as int) =~= loop_variables@); assert(statements@.take(statements@.len() as int) =~= statements@); } ## R14: the arm header is part of the anchor; its bindings are the parameters of the synthetic function (the loop's own break collector shadows the enclosing one, as in the real arm)
//@replace for v in loop_variables { Self::append_spaces(collector, level); collector.push_str("let "); ==>> for v in it: loop_variables.iter() invariant it.seq().len() == loop_variables@.len(), forall|j: int| 0 <= j < loop_variables@.len() ==> *(#[trigger] it.seq()[j]) == loop_variables@[j], collector@ =~= c0 + initialisations(loop_variables@.take(it.index() as int), level as nat), { proof { assert(loop_variables@.take(it.index() + 1).drop_last() =~= loop_variables@.take(it.index() as int)); } Statement::append_spaces(collector, level); collector.push_str("let "); ## R9: IntoIterator for &Vec is Vec::iter (with R8 ghost iterator name, invariant and hint)
//@replace for nested in statements { ==>> let ghost c1 = collector@; for nested in it: statements.iter() invariant it.seq().len() == statements@.len(), forall|j: int| 0 <= j < statements@.len() ==> *(#[trigger] it.seq()[j]) == statements@[j], level < usize::MAX, collector@ =~= c1 + stmts_text(statements@.take(it.index() as int), (level + 1) as nat, *break_collector), { proof { assert(statements@.take(it.index() + 1).drop_last() =~= statements@.take(it.index() as int)); } ## R9: IntoIterator for &Vec is Vec::iter (with R8 ghost snapshot, invariant and hint)
//@replace for v in loop_variables { Self::append_spaces(collector, level + 1); ==>> let ghost c2 = collector@; for v in it: loop_variables.iter() invariant it.seq().len() == loop_variables@.len(), forall|j: int| 0 <= j < loop_variables@.len() ==> *(#[trigger] it.seq()[j]) == loop_variables@[j], level < usize::MAX, collector@ =~= c2 + next_values(loop_variables@.take(it.index() as int), (level + 1) as nat), { proof { assert(loop_variables@.take(it.index() + 1).drop_last() =~= loop_variables@.take(it.index() as int)); } Statement::append_spaces(collector, level + 1); ## R9: IntoIterator for &Vec is Vec::iter (with R8 ghost snapshot, invariant and hint)
//@replace* Self::append_spaces( => Statement::append_spaces( ## R14: `Self` of the enclosing impl written out
//@wrap fn ts_while_arm(loop_variables: &Vec<GenenalLoopVariable>, statements: &Vec<Statement>, break_collector: &Option<(PStr, Type)>, heap: &Heap, symbol_table: &SymbolTable, str_table: &HashMap<PStr, usize>, level: usize, collector: &mut String)
//@contract
    requires level < usize::MAX
    ensures
      final(collector)@ =~= old(collector)@ + while_text(loop_variables@, statements@, *break_collector, level as nat),  // :typescript_loop_declares_its_result_and_assigns_the_next_values_in_list_order
//@end

// ---- leaving a loop, calls
spec fn break_text(break_value: Expression, bc: Option<(PStr, Type)>, level: nat) -> Seq<char> {
  (match bc { Some((n, _)) => spaces(level) + name_text(n) + " = "@ + expr_text(break_value) + ";\n"@, None => seq![] })
    + spaces(level) + "break;\n"@
}
//@extractblock crates/samlang-ast/src/lir.rs :: impl Statement / fn pretty_print_internal
//@from Self::Break(break_value) => {
//@to collector.push_str("break;\n"); }
//@replace Self::Break(break_value) => { ==>> { ## R14: the arm header is part of the anchor; its binding is the parameter of the synthetic function
//@replace* Self::append_spaces( => Statement::append_spaces( ## R14: `Self` of the enclosing impl written out
//@wrap fn ts_break_arm(break_value: &Expression, heap: &Heap, symbol_table: &SymbolTable, str_table: &HashMap<PStr, usize>, level: usize, break_collector: &Option<(PStr, Type)>, collector: &mut String)
//@contract
    ensures
      final(collector)@ =~= old(collector)@ + break_text(*break_value, *break_collector, level as nat),  // :typescript_break_stores_the_loop_result_first
//@end

uninterp spec fn expr_list_text(args: Seq<Expression>) -> Seq<char>;
impl Statement {
  #[verifier::external_body]
  fn print_expression_list(collector: &mut String, heap: &Heap, symbol_table: &SymbolTable, str_table: &HashMap<PStr, usize>, expressions: &Vec<Expression>)
    ensures final(collector)@ == old(collector)@ + expr_list_text(expressions@)
  { unimplemented!() }
}
spec fn call_text(callee: Expression, arguments: Seq<Expression>, return_type: Type, return_collector: Option<PStr>, level: nat) -> Seq<char> {
  spaces(level)
    + (match return_collector { Some(c) => "let "@ + name_text(c) + ": "@ + type_text(return_type) + " = "@, None => seq![] })
    + expr_text(callee) + "("@ + expr_list_text(arguments) + ");\n"@
}
//@extractblock crates/samlang-ast/src/lir.rs :: impl Statement / fn pretty_print_internal
//@from Self::Call { callee, arguments, return_type, return_collector } => {
//@to collector.push_str(");\n"); }
//@replace Self::Call { callee, arguments, return_type, return_collector } => { ==>> { ## R14: the arm header is part of the anchor; its bindings are the parameters of the synthetic function
//@replace* Self::append_spaces( => Statement::append_spaces( ## R14: `Self` of the enclosing impl written out
//@replace Self::print_expression_list( => Statement::print_expression_list( ## R14: `Self` of the enclosing impl written out
//@before callee.pretty_print(collector, heap, symbol_table, str_table);
        proof { reveal_strlit("("); }
//@wrap fn ts_call_arm(callee: &Expression, arguments: &Vec<Expression>, return_type: &Type, return_collector: &Option<PStr>, heap: &Heap, symbol_table: &SymbolTable, str_table: &HashMap<PStr, usize>, level: usize, collector: &mut String)
//@contract
    ensures
      final(collector)@ =~= old(collector)@ + call_text(*callee, arguments@, *return_type, *return_collector, level as nat),  // :typescript_call_is_always_emitted_with_its_result_collected_when_asked
//@end

proof fn canary_must_fail_tsstmt() ensures false {}

} // verus!
fn main() {}
