// Unit `usegates` — C06 kernels at use sites of crates/samlang-checker/src/main_checker.rs (R14 blocks, verbatim):
//   * check_function_call: a call whose number of arguments differs from the callee's number of parameters —
//     too many OR too few — is reported;
//   * check_if_else: the condition is checked against bool, and the else branch — a block or an `else if` chain — is checked against the type of the
//     first branch, so a disagreeing branch is reported;
//   * check_matching_pattern, object arm: the abstract pattern of a field is stored in the column of the field
//     it NAMES (what the exhaustiveness analysis reads), not in the column of its position in the pattern.
// assignability_check carries the contract proved in unit `checkgates`.
use vstd::prelude::*;
use std::collections::HashMap;
use std::sync::Arc;
verus! {

global size_of usize == 8;

// ---- R7: opaque collaborators
#[verifier::external_body]
#[derive(Clone, Copy)]
struct PStr { _p: u128 }
#[verifier::external]
impl PartialEq for PStr { fn eq(&self, other: &Self) -> bool { unimplemented!() } }
#[verifier::external]
impl Eq for PStr {}
#[verifier::external]
impl std::hash::Hash for PStr { fn hash<H: std::hash::Hasher>(&self, state: &mut H) { unimplemented!() } }
#[verifier::external_body]
#[derive(Clone, Copy)]
struct Location { _p: u8 }
#[verifier::external_body]
struct StackableError { _p: u8 }
impl StackableError {
  #[verifier::external_body]
  fn new() -> (r: StackableError) { unimplemented!() }
  #[verifier::external_body]
  fn add_fn_param_arity_error(&mut self, actual: usize, expected: usize) { unimplemented!() }
}
#[verifier::external_body]
struct Type { _p: u8 }
/// the structural assignability test (type_system::assignability_check), opaque
uninterp spec fn assignable(lower: Type, upper: Type) -> bool;
impl Type {
  /// R3: the same type at another position
  #[verifier::external_body]
  fn reposition(&self, loc: Location) -> (r: Type) { unimplemented!() }
}
#[verifier::external_body]
struct ErrorSet { _p: u8 }
impl ErrorSet {
  /// number of reported errors (unit errgate: an error once reported stays reported)
  uninterp spec fn count(&self) -> nat;
  #[verifier::external_body]
  fn report_stackable_error(&mut self, loc: Location, stackable: StackableError)
    ensures final(self).count() == old(self).count() + 1
  { unimplemented!() }
}
struct TypingContext { error_set: ErrorSet }

/// contract of main_checker::assignability_check, proved verbatim in unit `checkgates`
#[verifier::external_body]
fn assignability_check(cx: &mut TypingContext, use_loc: Location, lower: &Type, upper: &Type)
  ensures
    !assignable(*lower, *upper) ==> final(cx).error_set.count() == old(cx).error_set.count() + 1,
    assignable(*lower, *upper) ==> final(cx).error_set.count() == old(cx).error_set.count(),
{ unimplemented!() }

// ---- R6: the syntax tree reduced to what the blocks look at (hand-declared, field names as in samlang_ast::source)
#[verifier::external_body]
#[verifier::accept_recursive_types(T)]
struct E<T> { _p: u8, _t: core::marker::PhantomData<T> }
struct ExpressionCommon<T> { loc: Location, type_: T }
struct ParenthesizedExpressionList<T> { expressions: Vec<E<T>> }
struct Call<T> { common: ExpressionCommon<T>, arguments: ParenthesizedExpressionList<T> }
struct FunctionType { argument_types: Vec<Arc<Type>> }
struct Block<T> { common: ExpressionCommon<T> }
struct IfElse<T> { common: ExpressionCommon<T>, e1: Box<Block<T>>, e2: Box<IfElseOrBlock<T>> }
enum IfElseOrBlock<T> {
  IfElse(IfElse<T>),
  Block(Block<T>),
}
mod type_hint {
  use super::*;
  #[verifier::external_body]
  pub struct Hint { _p: u8 }
  /// R3: a hint only guides inference; nothing follows from it about the checked type
  #[verifier::external_body]
  pub fn available(t: &Arc<Type>) -> (r: Hint) { unimplemented!() }
  #[verifier::external_body]
  pub fn missing() -> (r: Hint) { unimplemented!() }
}

// ---- 1. the arity gate of check_function_call
//@extractblock crates/samlang-checker/src/main_checker.rs :: fn check_function_call
//@from if callee_function_type.argument_types.len() != expression.arguments.expressions.len() {
//@to cx.error_set.report_stackable_error(expression.common.loc, stackable);
//@close return true; }
//@wrap fn call_arity_gate(cx: &mut TypingContext, callee_function_type: &FunctionType, expression: &Call<()>) -> (stopped: bool)
//@contract
    ensures
      callee_function_type.argument_types@.len() != expression.arguments.expressions@.len()
        ==> stopped && final(cx).error_set.count() == old(cx).error_set.count() + 1,  // :a_call_with_too_many_or_too_few_arguments_is_reported
      callee_function_type.argument_types@.len() == expression.arguments.expressions@.len()
        ==> !stopped && final(cx).error_set.count() == old(cx).error_set.count(),  // :a_call_with_the_right_number_of_arguments_goes_on_to_the_argument_checks
//@atend
  false
//@end

// ---- 2. the else branch of check_if_else
/// the recursive call and the block checker: opaque, they return some checked node and never retract an error
#[verifier::external_body]
fn check_if_else(cx: &mut TypingContext, expression: &IfElse<()>, hint: type_hint::Hint) -> (r: IfElse<Arc<Type>>)
  ensures final(cx).error_set.count() >= old(cx).error_set.count()
{ unimplemented!() }
#[verifier::external_body]
fn check_block(cx: &mut TypingContext, expression: &Block<()>, hint: type_hint::Hint) -> (r: Block<Arc<Type>>)
  ensures final(cx).error_set.count() >= old(cx).error_set.count()
{ unimplemented!() }

/// the type the checker found for an else branch
spec fn branch_type(b: IfElseOrBlock<Arc<Type>>) -> Type {
  match b { IfElseOrBlock::IfElse(i) => *i.common.type_, IfElseOrBlock::Block(k) => *k.common.type_ }
}

//@extractblock crates/samlang-checker/src/main_checker.rs :: fn check_if_else
//@from let e2 = Box::new(match expression.e2.as_ref() {
//@to });
//@replace match expression.e2.as_ref() { => match &*expression.e2 { ## R9: Box::as_ref is the dereference
//@replace* expr::IfElseOrBlock:: => IfElseOrBlock:: ## R1: module path
//@wrap fn check_else_branch(cx: &mut TypingContext, expression: &IfElse<()>, e1: &Box<Block<Arc<Type>>>) -> (r: Box<IfElseOrBlock<Arc<Type>>>)
//@contract
    ensures
      final(cx).error_set.count() >= old(cx).error_set.count(),
      // whichever form the else branch has: a branch whose type cannot be used where the first branch's type is expected is reported
      !assignable(branch_type(*r), *e1.common.type_) ==> final(cx).error_set.count() > old(cx).error_set.count(),  // :an_else_branch_that_disagrees_with_the_first_branch_is_reported
      (*expression.e2 is IfElse) == (*r is IfElse),
//@atend
  e2
//@end

// ---- 2b. the condition of check_if_else
uninterp spec fn bool_type_at(loc: Location) -> Type;
/// R3: `Type::Primitive(Reason::new(loc, Some(loc)), PrimitiveTypeKind::Bool)`
#[verifier::external_body]
fn bool_type(loc: Location) -> (r: Type) ensures r == bool_type_at(loc) { unimplemented!() }
impl E<Arc<Type>> {
  uninterp spec fn spec_loc(&self) -> Location;
  uninterp spec fn spec_type(&self) -> Arc<Type>;
  #[verifier::external_body]
  fn loc(&self) -> (r: Location) ensures r == self.spec_loc() { unimplemented!() }
  #[verifier::external_body]
  fn type_(&self) -> (r: &Arc<Type>) ensures *r == self.spec_type() { unimplemented!() }
}
#[verifier::external_body]
fn type_check_expression(cx: &mut TypingContext, e: &E<()>, hint: type_hint::Hint) -> (r: E<Arc<Type>>)
  ensures final(cx).error_set.count() >= old(cx).error_set.count()
{ unimplemented!() }

//@extractblock crates/samlang-checker/src/main_checker.rs :: fn check_if_else
//@from let checked = type_check_expression(cx, expr, type_hint::MISSING);
//@to assignability_check(cx, checked.loc(), checked.type_(), &bool_type);
//@replace type_hint::MISSING => type_hint::missing() ## R3: the named constant of the hint module
//@replace Type::Primitive(Reason::new(checked.loc(), Some(checked.loc())), PrimitiveTypeKind::Bool); => bool_type(checked.loc()); ## R3: the constructor of the primitive type bool (opaque type)
//@wrap fn check_plain_condition(cx: &mut TypingContext, expr: &E<()>) -> (r: E<Arc<Type>>)
//@contract
    ensures
      final(cx).error_set.count() >= old(cx).error_set.count(),
      !assignable(*r.spec_type(), bool_type_at(r.spec_loc())) ==> final(cx).error_set.count() > old(cx).error_set.count(),  // :a_condition_that_is_not_a_bool_is_reported
//@atend
  checked
//@end

// ---- 3. the object arm of check_matching_pattern: where the abstract pattern of a named field goes
#[derive(Clone, Copy)]
struct Id { loc: Location, name: PStr }
#[verifier::external_body]
#[verifier::accept_recursive_types(T)]
struct MatchingPattern<T> { _p: u8, _t: core::marker::PhantomData<T> }
mod pattern {
  use super::*;
  pub struct ObjectPatternElement<T> {
    pub loc: Location,
    pub field_order: usize,
    pub field_name: Id,
    pub pattern: Box<MatchingPattern<T>>,
    pub shorthand: bool,
    pub type_: T,
  }
}
/// what the exhaustiveness analysis (pattern_matching) is given for one field
#[verifier::external_body]
struct AbstractPatternNode { _p: u8 }
/// the abstract pattern the (recursive) check computes for a nested pattern matched against a field type
uninterp spec fn abstract_of(p: MatchingPattern<()>, t: Type) -> AbstractPatternNode;
#[verifier::external_body]
fn check_matching_pattern(cx: &mut TypingContext, pattern: &MatchingPattern<()>, wildcard_on_bad_pattern: bool, pattern_type: &Arc<Type>) -> (r: (MatchingPattern<Arc<Type>>, AbstractPatternNode))
  ensures final(cx).error_set.count() >= old(cx).error_set.count(), r.1 == abstract_of(*pattern, **pattern_type)
{ unimplemented!() }

//@extractblock crates/samlang-checker/src/main_checker.rs :: fn check_matching_pattern
//@from not_mentioned_fields.remove(&field_name.name); let (checked, abstract_node) =
//@replace not_mentioned_fields.remove(&field_name.name); ==>> ## R14: the preceding statement (bookkeeping of the fields not yet mentioned) only makes the anchor unique and is dropped
//@to abstract_pattern_nodes[*field_order] = abstract_node;
//@wrap fn place_named_field(cx: &mut TypingContext, pattern: &Box<MatchingPattern<()>>, wildcard_on_bad_pattern: bool, field_order_mapping: &HashMap<PStr, usize>, field_order: &usize, field_name: &Id, loc: &Location, shorthand: &bool, field_type: &Arc<Type>, checked_destructured_names: &mut Vec<pattern::ObjectPatternElement<Arc<Type>>>, abstract_pattern_nodes: &mut Vec<AbstractPatternNode>)
//@contract
    requires
      vstd::std_specs::hash::obeys_key_model::<PStr>(),
      // the mapping was filled from the class's field list, one column per field
      field_order_mapping@.contains_key(field_name.name),
      field_order_mapping@[field_name.name] < old(abstract_pattern_nodes)@.len(),
    ensures
      // the row handed to the exhaustiveness analysis: the column of the NAMED field now holds this element's pattern, every other column is untouched
      final(abstract_pattern_nodes)@ == old(abstract_pattern_nodes)@.update(field_order_mapping@[field_name.name] as int, abstract_of(**pattern, **field_type)),  // :the_pattern_of_a_named_field_goes_into_that_fields_column
      final(checked_destructured_names)@.len() == old(checked_destructured_names)@.len() + 1,
      final(checked_destructured_names)@.last().field_order == field_order_mapping@[field_name.name],  // :the_checked_element_records_the_order_of_the_field_it_names
      final(checked_destructured_names)@.last().field_name == *field_name,
      final(checked_destructured_names)@.drop_last() == old(checked_destructured_names)@,
//@end

proof fn canary_must_fail_usegates() ensures false {}

} // verus!
fn main() {}
