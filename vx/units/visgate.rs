// Unit `visgate` — C06 kernel: a private member is only handed to code of its own class.
// TypingContext::{get_method_type, in_same_class} (crates/samlang-checker/src/typing_context.rs), verbatim;
// signature lookup is opaque.
use vstd::prelude::*;
verus! {

global size_of usize == 8;

#[verifier::external_body]
#[derive(Clone, Copy)]
struct PStr { _p: u128 }
#[verifier::external]
impl PartialEq for PStr { fn eq(&self, other: &Self) -> bool { unimplemented!() } }
pub assume_specification[ <PStr as PartialEq>::eq ](a: &PStr, b: &PStr) -> (r: bool) ensures r == (*a == *b);
#[verifier::external_body]
#[derive(Clone, Copy)]
struct ModuleReference { _p: u32 }
#[verifier::external]
impl PartialEq for ModuleReference { fn eq(&self, other: &Self) -> bool { unimplemented!() } }
pub assume_specification[ <ModuleReference as PartialEq>::eq ](a: &ModuleReference, b: &ModuleReference) -> (r: bool) ensures r == (*a == *b);
#[verifier::external_body]
#[derive(Clone, Copy)]
struct Location { _p: u8 }
#[verifier::external_body]
struct GlobalSignature { _p: u8 }

/// R6: the nominal type reduced to the fields the function reads
struct NominalType {
  is_class_statics: bool,
  module_reference: ModuleReference,
  id: PStr,
}
/// R6: the member signature reduced to its visibility
struct MemberSignature { is_public: bool }
impl MemberSignature {
  /// repositioning only changes the reason's location
  #[verifier::external_body]
  fn reposition(&self, use_loc: Location) -> (r: MemberSignature) ensures r.is_public == self.is_public { unimplemented!() }
}
/// R6: the typing context reduced to the fields the two functions read
struct TypingContext<'a> {
  global_signature: &'a GlobalSignature,
  current_module_reference: ModuleReference,
  current_class: PStr,
}

/// whether the class / interface `(m, c)` is declared private
pub uninterp spec fn toplevel_is_private(g: &GlobalSignature, m: ModuleReference, c: PStr) -> bool;
pub uninterp spec fn toplevel_exists(g: &GlobalSignature, m: ModuleReference, c: PStr) -> bool;
mod global_signature {
  use super::*;
  /// R3: `resolve_interface_cx(g, m, c).filter(|it| !it.private || m == current)?` — Some iff the toplevel exists and is
  /// visible from the current module
  #[verifier::external_body]
  pub fn visible_interface(g: &GlobalSignature, m: ModuleReference, c: PStr, current: ModuleReference) -> (r: Option<()>)
    ensures r is Some == (toplevel_exists(g, m, c) && (!toplevel_is_private(g, m, c) || m == current))
  { unimplemented!() }
  #[verifier::external_body]
  pub fn resolve_function_signature<'a>(g: &'a GlobalSignature, k: (ModuleReference, PStr), fn_name: PStr) -> (r: Vec<&'a MemberSignature>)
  { unimplemented!() }
  #[verifier::external_body]
  pub fn resolve_method_signature(g: &GlobalSignature, t: &NominalType, method_name: PStr) -> (r: Vec<MemberSignature>)
  { unimplemented!() }
}
/// R3: `resolved.first()?` on the two result vectors
#[verifier::external_body]
fn first_ref<'a, 'b>(v: &'b Vec<&'a MemberSignature>) -> (r: Option<&'a MemberSignature>)
  ensures r is Some == (v@.len() > 0), r matches Some(x) ==> *x == *v@[0]
{ unimplemented!() }
#[verifier::external_body]
fn first_owned<'b>(v: &'b Vec<MemberSignature>) -> (r: Option<&'b MemberSignature>)
  ensures r is Some == (v@.len() > 0), r matches Some(x) ==> *x == v@[0]
{ unimplemented!() }

impl<'a> TypingContext<'a> {
//@extract crates/samlang-checker/src/typing_context.rs :: impl<'a> TypingContext<'a> / fn in_same_class
//@ret r
//@contract
    ensures r == (module_reference == self.current_module_reference && class_name == self.current_class),  // :same_class_means_same_module_and_same_name
//@end

//@extract crates/samlang-checker/src/typing_context.rs :: impl<'a> TypingContext<'a> / fn get_method_type
//@ret r
//@replace global_signature::resolve_interface_cx( self.global_signature, nominal_type.module_reference, nominal_type.id, ) .filter(|it| !it.private || nominal_type.module_reference == self.current_module_reference)?; => global_signature::visible_interface(self.global_signature, nominal_type.module_reference, nominal_type.id, self.current_module_reference)?; ## R3: lookup + filter with a closure
//@replace let type_info = resolved.first()?; => let type_info = first_ref(&resolved)?; ## R3: Vec::first on the vector of references
//@replace #2 let type_info = resolved.first()?; => let type_info = first_owned(&resolved)?; ## R3: Vec::first on the vector of values
//@contract
    ensures
      // a member is handed out only if it is public or the receiver is the class being checked (same module AND same name),
      // and only from a toplevel the current module may see
      r matches Some(sig) ==> (sig.is_public
          || (nominal_type.module_reference == self.current_module_reference && nominal_type.id == self.current_class))
        && (!toplevel_is_private(self.global_signature, nominal_type.module_reference, nominal_type.id)
            || nominal_type.module_reference == self.current_module_reference),  // :private_members_and_private_classes_stay_private
//@end
}

/// R6: a field signature reduced to name and visibility; its type is substituted by an opaque helper
#[verifier::external_body]
struct FieldType { _p: u8 }
struct StructItemDefinitionSignature { name: PStr, type_: FieldType, is_public: bool }
#[verifier::external_body]
struct SubstMap { _p: u8 }
mod type_system {
  use super::*;
  #[verifier::external_body]
  pub fn subst_type(t: &FieldType, m: &SubstMap) -> (r: FieldType) { unimplemented!() }
}
impl<'a> TypingContext<'a> {
//@extractblock crates/samlang-checker/src/typing_context.rs :: impl<'a> TypingContext<'a> / fn resolve_type_definition
//@from StructItemDefinitionSignature { name: item.name,
//@to is_public: item.is_public || self.in_same_class(nominal_type.module_reference, nominal_type.id), }
//@wrap fn visible_field_signature(&self, item: &StructItemDefinitionSignature, nominal_type: &NominalType, subst_map: SubstMap) -> (r: StructItemDefinitionSignature)
//@contract
    ensures
      r.name == item.name,
      // a private field is visible only inside its own class: same module AND same name
      r.is_public == (item.is_public
        || (nominal_type.module_reference == self.current_module_reference && nominal_type.id == self.current_class)),  // :private_fields_are_visible_only_in_their_own_class
//@end
}

proof fn canary_must_fail_visgate() ensures false {}

} // verus!
fn main() {}
