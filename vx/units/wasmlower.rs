// Unit `wasmlower` — C01 / C04 kernel: how a binary operation of the last IR (LIR) becomes a WebAssembly
// instruction.  The `lir::Statement::Binary` arm of LoweringManager::lower_stmt
// (crates/samlang-compiler/src/wasm_lowering.rs), extracted verbatim as a block (R14); the instruction
// types of crates/samlang-ast/src/wasm.rs extracted verbatim.
use vstd::prelude::*;
verus! {

global size_of usize == 8;

//@extract crates/samlang-ast/src/hir.rs :: enum BinaryOperator
//@attr #[derive(Clone, Copy, PartialEq, Eq, Structural)]
//@end

// ---- R7: opaque names and types the instructions mention
#[verifier::external_body]
#[derive(Clone, Copy)]
struct PStr { _p: u128 }
#[verifier::external_body]
#[derive(Clone, Copy)]
struct TypeNameId { _p: u32 }
#[verifier::external_body]
#[derive(Clone, Copy)]
struct FunctionName { _p: u64 }
#[verifier::external_body]
#[derive(Clone, Copy)]
struct LabelId { _p: u32 }
impl TypeNameId {
  /// R3: the named constant `mir::TypeNameId::STR`
  #[verifier::external_body]
  fn str_type() -> (r: TypeNameId) ensures r == str_type_id() { unimplemented!() }
  /// R3: `*id == mir::TypeNameId::STR` (derived PartialEq on the opaque id)
  #[verifier::external_body]
  fn is(&self, other: TypeNameId) -> (r: bool) ensures r == (*self == other) { unimplemented!() }
}
uninterp spec fn str_type_id() -> TypeNameId;

// the LIR operand types, verbatim
mod lir {
  use super::*;
//@extract crates/samlang-ast/src/lir.rs :: struct FunctionType
//@keeppub
//@end
//@extract crates/samlang-ast/src/lir.rs :: enum Type
//@keeppub
//@end
//@extract crates/samlang-ast/src/lir.rs :: enum Expression
//@keeppub
//@end
}
use lir::Expression as LirExpression;
use lir::Type as LirType;

uninterp spec fn str_eq_function() -> FunctionName;
impl FunctionName {
  /// R3: `mir::FunctionName::STR_EQ` (the runtime's string content comparison)
  #[verifier::external_body]
  fn str_eq() -> (r: FunctionName) ensures r == str_eq_function() { unimplemented!() }
}

//@extract crates/samlang-ast/src/wasm.rs :: enum Type
//@replace mir::TypeNameId => TypeNameId ## R1: module path of the opaque type
//@end
//@extract crates/samlang-ast/src/wasm.rs :: enum InlineInstruction
//@replace* mir::TypeNameId => TypeNameId ## R1: module path of the opaque type
//@replace* mir::FunctionName => FunctionName ## R1: module path of the opaque type
//@replace* hir::BinaryOperator => BinaryOperator ## R1: module path of the extracted enum
//@end
//@extract crates/samlang-ast/src/wasm.rs :: enum Instruction
//@end

uninterp spec fn lowered(e: LirExpression) -> InlineInstruction;
/// a string-typed operand: a string constant, or a variable of the runtime string type
spec fn is_string(e: LirExpression) -> bool {
  e is StringName || (e is Variable && e->Variable_1 is Id && e->Variable_1->Id_0 == str_type_id())
}
/// an operand held as a WebAssembly reference (so `==` must be `ref.eq`): an i31 constant, or a variable
/// whose type is not a plain 32-bit integer
spec fn is_reference(e: LirExpression) -> bool {
  e is Int31Literal || (e is Variable && !(e->Variable_1 is Int32))
}

//@extract crates/samlang-compiler/src/wasm_lowering.rs :: fn is_reference_expr
//@ret r
//@contract
    ensures r == is_reference(*e),  // :reference_operands_are_i31_constants_and_non_int_variables
//@end

//@extract crates/samlang-compiler/src/wasm_lowering.rs :: fn is_string_expr
//@ret r
//@replace *id == mir::TypeNameId::STR => id.is(TypeNameId::str_type()) ## R3: comparison with the named constant of the opaque id type
//@contract
    ensures r == is_string(*e),  // :string_operands_are_constants_and_str_typed_variables
//@end

#[verifier::external_body]
struct LoweringManager { _p: u8 }
impl LoweringManager {
  #[verifier::external_body]
  fn lower_expr(&mut self, e: &LirExpression) -> (r: InlineInstruction) ensures r == lowered(*e) { unimplemented!() }
  /// contract = the body of the real `set` (it also records the local's type, which this arm does not read)
  #[verifier::external_body]
  fn set(&mut self, n: PStr, t: Type, v: InlineInstruction) -> (r: InlineInstruction)
    ensures r == InlineInstruction::LocalSet(n, Box::new(v))
  { unimplemented!() }
}

spec fn is_equality(op: BinaryOperator) -> bool { op == BinaryOperator::EQ || op == BinaryOperator::NE }

/// What `name = e1 op e2` must become: the SAME operator applied to the lowered operands in source order
/// (`is_ref_comparison` only for (in)equality of references); (in)equality of strings compares contents
/// through the runtime's STR_EQ (negated with `xor 1` for `!=`) — the same meaning the TypeScript back end
/// gives it (`a[1] === b[1]`, unit oparms).
spec fn is_string_comparison_call(e1: LirExpression, e2: LirExpression, i: InlineInstruction) -> bool {
  i is DirectCall && i->DirectCall_0 == str_eq_function() && i->DirectCall_1@ == seq![lowered(e1), lowered(e2)]
}
spec fn is_lowered_binary(op: BinaryOperator, e1: LirExpression, e2: LirExpression, i: InlineInstruction) -> bool {
  if is_equality(op) && (is_string(e1) || is_string(e2)) {
    if op == BinaryOperator::EQ {
      is_string_comparison_call(e1, e2, i)
    } else {
      // a != b  is  STR_EQ(a, b) xor 1
      i is Binary && i->op == BinaryOperator::XOR && !i->is_ref_comparison
        && is_string_comparison_call(e1, e2, *i->v1) && *i->v2 == InlineInstruction::Const(1)
    }
  } else {
    i is Binary && i->op == op && *i->v1 == lowered(e1) && *i->v2 == lowered(e2)
      && i->is_ref_comparison == (is_equality(op) && (is_reference(e1) || is_reference(e2)))
  }
}

//@extractblock crates/samlang-compiler/src/wasm_lowering.rs :: impl<'a> LoweringManager<'a> / fn lower_stmt
//@from let is_str_cmp = matches!(operator, hir::BinaryOperator::EQ | hir::BinaryOperator::NE) && (is_string_expr(e1) || is_string_expr(e2));
//@to #2 ))] }
//@wrap fn lower_binary_arm(this: &mut LoweringManager, name: &PStr, operator: &BinaryOperator, e1: &LirExpression, e2: &LirExpression) -> (r: Vec<Instruction>)
//@replace* self. => this. ## R14: the receiver of the enclosing method is a parameter of the synthetic function
//@replace* hir::BinaryOperator => BinaryOperator ## R1: module path of the extracted enum
//@replace* wasm:: =>  ## R1: module path of the extracted types
//@replace mir::FunctionName::STR_EQ => FunctionName::str_eq() ## R3: the runtime's string comparison function
//@contract
    ensures
      r@.len() == 1 && r@[0] is Inline && r@[0]->Inline_0 is LocalSet
        && r@[0]->Inline_0->LocalSet_0 == *name
        && is_lowered_binary(*operator, *e1, *e2, *r@[0]->Inline_0->LocalSet_1),  // :same_operator_on_the_lowered_operands_in_source_order
//@end

proof fn canary_must_fail_wasmlower() ensures false {}

} // verus!
fn main() {}
