// Unit `wasmlower` — C01 / C04 kernel: how a binary operation of the last IR (LIR) becomes a WebAssembly
// instruction.  The `lir::Statement::Binary` arm of LoweringManager::lower_stmt
// (crates/samlang-compiler/src/wasm_lowering.rs), extracted verbatim as a block (R14); the instruction
// types of crates/samlang-ast/src/wasm.rs extracted verbatim.
use vstd::prelude::*;
verus! {

global size_of usize == 8;

//@extract crates/samlang-ast/src/hir.rs :: enum BinaryOperator
//@attr #[derive(Clone, Copy, PartialEq, Eq, Structural)]
//@end

// ---- R7: opaque names and types the instructions mention
#[verifier::external_body]
#[derive(Clone, Copy)]
struct PStr { _p: u128 }
#[verifier::external_body]
#[derive(Clone, Copy)]
struct TypeNameId { _p: u32 }
#[verifier::external_body]
#[derive(Clone, Copy)]
struct FunctionName { _p: u64 }
#[verifier::external_body]
#[derive(Clone, Copy)]
struct LabelId { _p: u32 }
impl TypeNameId {
  /// R3: the named constant `mir::TypeNameId::STR`
  #[verifier::external_body]
  fn str_type() -> (r: TypeNameId) ensures r == str_type_id() { unimplemented!() }
  /// R3: `*id == mir::TypeNameId::STR` (derived PartialEq on the opaque id)
  #[verifier::external_body]
  fn is(&self, other: TypeNameId) -> (r: bool) ensures r == (*self == other) { unimplemented!() }
}
uninterp spec fn str_type_id() -> TypeNameId;

// the LIR operand types, verbatim
mod lir {
  use super::*;
//@extract crates/samlang-ast/src/lir.rs :: struct FunctionType
//@keeppub
//@end
//@extract crates/samlang-ast/src/lir.rs :: enum Type
//@keeppub
//@end
//@extract crates/samlang-ast/src/lir.rs :: enum Expression
//@keeppub
//@end
}
use lir::Expression as LirExpression;
use lir::Type as LirType;

uninterp spec fn str_eq_function() -> FunctionName;
impl FunctionName {
  /// R3: `mir::FunctionName::STR_EQ` (the runtime's string content comparison)
  #[verifier::external_body]
  fn str_eq() -> (r: FunctionName) ensures r == str_eq_function() { unimplemented!() }
}

//@extract crates/samlang-ast/src/wasm.rs :: enum Type
//@attr #[derive(Clone, Copy)]
//@replace mir::TypeNameId => TypeNameId ## R1: module path of the opaque type
//@end
//@extract crates/samlang-ast/src/wasm.rs :: enum InlineInstruction
//@replace* mir::TypeNameId => TypeNameId ## R1: module path of the opaque type
//@replace* mir::FunctionName => FunctionName ## R1: module path of the opaque type
//@replace* hir::BinaryOperator => BinaryOperator ## R1: module path of the extracted enum
//@end
//@extract crates/samlang-ast/src/wasm.rs :: enum Instruction
//@end

uninterp spec fn lowered(e: LirExpression) -> InlineInstruction;
/// a string-typed operand: a string constant, or a variable of the runtime string type
spec fn is_string(e: LirExpression) -> bool {
  e is StringName || (e is Variable && e->Variable_1 is Id && e->Variable_1->Id_0 == str_type_id())
}
/// an operand held as a WebAssembly reference (so `==` must be `ref.eq`): an i31 constant, or a variable
/// whose type is not a plain 32-bit integer
spec fn is_reference(e: LirExpression) -> bool {
  e is Int31Literal || (e is Variable && !(e->Variable_1 is Int32))
}

//@extract crates/samlang-compiler/src/wasm_lowering.rs :: fn is_reference_expr
//@ret r
//@contract
    ensures r == is_reference(*e),  // :reference_operands_are_i31_constants_and_non_int_variables
//@end

//@extract crates/samlang-compiler/src/wasm_lowering.rs :: fn is_string_expr
//@ret r
//@replace *id == mir::TypeNameId::STR => id.is(TypeNameId::str_type()) ## R3: comparison with the named constant of the opaque id type
//@contract
    ensures r == is_string(*e),  // :string_operands_are_constants_and_str_typed_variables
//@end

#[verifier::external_body]
struct LoweringManager { _p: u8 }
impl LoweringManager {
  #[verifier::external_body]
  fn lower_expr(&mut self, e: &LirExpression) -> (r: InlineInstruction) ensures r == lowered(*e) { unimplemented!() }
  /// contract = the body of the real `set` (it also records the local's type, which this arm does not read)
  #[verifier::external_body]
  fn set(&mut self, n: PStr, t: Type, v: InlineInstruction) -> (r: InlineInstruction)
    ensures r == InlineInstruction::LocalSet(n, Box::new(v))
  { unimplemented!() }
}

spec fn is_equality(op: BinaryOperator) -> bool { op == BinaryOperator::EQ || op == BinaryOperator::NE }

/// What `name = e1 op e2` must become: the SAME operator applied to the lowered operands in source order
/// (`is_ref_comparison` only for (in)equality of references); (in)equality of strings compares contents
/// through the runtime's STR_EQ (negated with `xor 1` for `!=`) — the same meaning the TypeScript back end
/// gives it (`a[1] === b[1]`, unit oparms).
spec fn is_string_comparison_call(e1: LirExpression, e2: LirExpression, i: InlineInstruction) -> bool {
  i is DirectCall && i->DirectCall_0 == str_eq_function() && i->DirectCall_1@ == seq![lowered(e1), lowered(e2)]
}
spec fn is_lowered_binary(op: BinaryOperator, e1: LirExpression, e2: LirExpression, i: InlineInstruction) -> bool {
  if is_equality(op) && (is_string(e1) || is_string(e2)) {
    if op == BinaryOperator::EQ {
      is_string_comparison_call(e1, e2, i)
    } else {
      // a != b  is  STR_EQ(a, b) xor 1
      i is Binary && i->op == BinaryOperator::XOR && !i->is_ref_comparison
        && is_string_comparison_call(e1, e2, *i->v1) && *i->v2 == InlineInstruction::Const(1)
    }
  } else {
    i is Binary && i->op == op && *i->v1 == lowered(e1) && *i->v2 == lowered(e2)
      && i->is_ref_comparison == (is_equality(op) && (is_reference(e1) || is_reference(e2)))
  }
}

//@extractblock crates/samlang-compiler/src/wasm_lowering.rs :: impl<'a> LoweringManager<'a> / fn lower_stmt
//@from let is_str_cmp = matches!(operator, hir::BinaryOperator::EQ | hir::BinaryOperator::NE) && (is_string_expr(e1) || is_string_expr(e2));
//@to #2 ))] }
//@wrap fn lower_binary_arm(this: &mut LoweringManager, name: &PStr, operator: &BinaryOperator, e1: &LirExpression, e2: &LirExpression) -> (r: Vec<Instruction>)
//@replace* self. => this. ## R14: the receiver of the enclosing method is a parameter of the synthetic function
//@replace* hir::BinaryOperator => BinaryOperator ## R1: module path of the extracted enum
//@replace* wasm:: =>  ## R1: module path of the extracted types
//@replace mir::FunctionName::STR_EQ => FunctionName::str_eq() ## R3: the runtime's string comparison function
//@contract
    ensures
      r@.len() == 1 && r@[0] is Inline && r@[0]->Inline_0 is LocalSet
        && r@[0]->Inline_0->LocalSet_0 == *name
        && is_lowered_binary(*operator, *e1, *e2, *r@[0]->Inline_0->LocalSet_1),  // :same_operator_on_the_lowered_operands_in_source_order
//@end

// =====================================================================================
// Vec<int>: element values cross the runtime as i31 references
// =====================================================================================
uninterp spec fn vec_of_fn() -> FunctionName;
uninterp spec fn vec_push_fn() -> FunctionName;
uninterp spec fn vec_set_fn() -> FunctionName;
uninterp spec fn vec_pop_fn() -> FunctionName;
uninterp spec fn vec_get_fn() -> FunctionName;
uninterp spec fn unwrap_i31_fn() -> FunctionName;
impl FunctionName {
  /// R3: the named constants mir::FunctionName::{VEC_OF, VEC_PUSH, VEC_SET, VEC_POP, VEC_GET, UNWRAP_I31} and `==` on the opaque name
  #[verifier::external_body]
  fn vec_of() -> (r: FunctionName) ensures r == vec_of_fn() { unimplemented!() }
  #[verifier::external_body]
  fn vec_push() -> (r: FunctionName) ensures r == vec_push_fn() { unimplemented!() }
  #[verifier::external_body]
  fn vec_set() -> (r: FunctionName) ensures r == vec_set_fn() { unimplemented!() }
  #[verifier::external_body]
  fn vec_pop() -> (r: FunctionName) ensures r == vec_pop_fn() { unimplemented!() }
  #[verifier::external_body]
  fn vec_get() -> (r: FunctionName) ensures r == vec_get_fn() { unimplemented!() }
  #[verifier::external_body]
  fn unwrap_i31() -> (r: FunctionName) ensures r == unwrap_i31_fn() { unimplemented!() }
  #[verifier::external_body]
  fn is(&self, other: FunctionName) -> (r: bool) ensures r == (*self == other) { unimplemented!() }
}

//@extract crates/samlang-compiler/src/wasm_lowering.rs :: fn vec_fn_element_arg_index
//@ret r
//@replace name == mir::FunctionName::VEC_OF || name == mir::FunctionName::VEC_PUSH => name.is(FunctionName::vec_of()) || name.is(FunctionName::vec_push()) ## R3: comparison with the named constants of the opaque name
//@replace name == mir::FunctionName::VEC_SET => name.is(FunctionName::vec_set()) ## R3: comparison with the named constant of the opaque name
//@replace name: mir::FunctionName => name: FunctionName ## R1: module path of the opaque type
//@contract
    ensures r == (if name == vec_of_fn() || name == vec_push_fn() { Some(1usize) } else if name == vec_set_fn() { Some(2usize) } else { None }),  // :element_argument_positions_of_the_vector_runtime
//@end

//@extract crates/samlang-compiler/src/wasm_lowering.rs :: fn vec_fn_returns_element
//@ret r
//@replace name == mir::FunctionName::VEC_POP || name == mir::FunctionName::VEC_GET => name.is(FunctionName::vec_pop()) || name.is(FunctionName::vec_get()) ## R3: comparison with the named constants of the opaque name
//@replace name: mir::FunctionName => name: FunctionName ## R1: module path of the opaque type
//@contract
    ensures r == (name == vec_pop_fn() || name == vec_get_fn()),  // :element_returning_functions_of_the_vector_runtime
//@end

//@extract crates/samlang-compiler/src/wasm_lowering.rs :: fn lir_expr_is_i32
//@ret r
//@contract
    ensures r == (e is Int32Literal || (e is Variable && e->Variable_1 is Int32)),  // :i32_operands_are_literals_and_int_typed_variables
//@end

/// how one argument of a call is passed (the whole body of the argument closure of the Call arm), R14 block
impl LoweringManager {
  /// R3: `self.local_variables.get(var_name).copied() == Some(wasm::Type::Eq)` — the local is held as `(ref eq)`
  uninterp spec fn held_as_eq(&self, n: PStr) -> bool;
  #[verifier::external_body]
  fn local_is_eq(&self, n: &PStr) -> (r: bool) ensures r == self.held_as_eq(*n) { unimplemented!() }
}
/// R3: `<[T]>::get`
#[verifier::external_body]
fn vec_get<'a>(v: &'a Vec<LirType>, i: usize) -> (r: Option<&'a LirType>)
  ensures (r is Some) == (i < v@.len()), r is Some ==> *r->Some_0 == v@[i as int]
{ unimplemented!() }

spec fn is_i32_operand(arg: LirExpression) -> bool { arg is Int32Literal || (arg is Variable && arg->Variable_1 is Int32) }
spec fn needs_downcast(m: LoweringManager, callee_param_types: Option<&Vec<LirType>>, i: usize, arg: LirExpression) -> bool {
  callee_param_types is Some && arg is Variable && m.held_as_eq(arg->Variable_0)
    && i < callee_param_types->Some_0@.len() && callee_param_types->Some_0@[i as int] is Id
}

//@extractblock crates/samlang-compiler/src/wasm_lowering.rs :: impl<'a> LoweringManager<'a> / fn lower_stmt
//@from let lowered = self.lower_expr(arg);
//@to value: Box::new(lowered), }; } } lowered
//@replace let lowered = self.lower_expr(arg); => let lowered = this.lower_expr(arg); ## R14: the receiver of the enclosing method is a parameter of the synthetic function
//@replace* wasm::InlineInstruction:: => InlineInstruction:: ## R1: module path of the extracted type
//@replace if Some(i) == vec_element_arg && lir_expr_is_i32(arg) { => if vec_element_arg == Some(i) && true && lir_expr_is_i32(arg) { ## R9: derived PartialEq on Option<usize>, operands exchanged (Verus has no spec for Option == Option with the literal on the left)
//@replace if self.local_variables.get(var_name).copied() == Some(wasm::Type::Eq) && let Some(lir::Type::Id(_)) = param_types.get(i) { ==>> if this.local_is_eq(var_name) { if let Some(lir::Type::Id(_)) = vec_get(param_types, i) { ## R5: let-chain without else written as nested ifs; R3: the lookup in the table of locals and <[T]>::get are stubs
//@after value: Box::new(lowered), };
              }
//@wrap fn lower_call_argument(this: &mut LoweringManager, i: usize, arg: &LirExpression, needs_ref_eq_this: bool, vec_element_arg: Option<usize>, callee_param_types: Option<&Vec<LirType>>) -> (r: InlineInstruction)
//@contract
    ensures
      r == (
        // the placeholder 0 passed as the receiver of a builtin travels as an i31 reference
        if i == 0 && needs_ref_eq_this && *arg == LirExpression::Int32Literal(0) { InlineInstruction::I31New(Box::new(lowered(*arg))) }
        // an i32 element handed to the vector runtime — a literal OR a variable — is passed as `ref.i31`
        else if vec_element_arg == Some(i) && is_i32_operand(*arg) { InlineInstruction::I31New(Box::new(lowered(*arg))) }
        // a type-erased local passed where a concrete struct type is expected is downcast
        else if needs_downcast(*final(this), callee_param_types, i, *arg) { InlineInstruction::Cast { pointer_type: callee_param_types->Some_0@[i as int], value: Box::new(lowered(*arg)) } }
        else { lowered(*arg) }),  // :each_argument_is_passed_in_the_representation_the_callee_expects
//@end


// =====================================================================================
// a value stored into a typed slot: a type-erased local is downcast (fix fe037dc)
// =====================================================================================
/// what goes into a slot of type `slot` when the program stores `e` there: a local held as `(ref eq)` — the type-erased
/// `_this` of a method — is cast down to the slot's concrete reference type; every other value is passed as it is
spec fn stored_into(held_as_eq: bool, e: LirExpression, slot: Type) -> InlineInstruction {
  if e is Variable && slot is Reference && held_as_eq {
    InlineInstruction::Cast { pointer_type: LirType::Id(slot->Reference_0), value: Box::new(lowered(e)) }
  } else { lowered(e) }
}
/// R1: the module path `wasm::` of the extracted types, kept as an alias module
mod wasm { pub(super) use super::Type; pub(super) use super::InlineInstruction; }
impl LoweringManager {
//@extract crates/samlang-compiler/src/wasm_lowering.rs :: impl<'a> LoweringManager<'a> / fn lower_expr_into
//@ret r
//@replace if self.local_variables.get(n).copied() == Some(wasm::Type::Eq) => if self.local_is_eq(n) ## R3: the lookup in the table of locals is a stub (as in the call argument)
//@contract
    ensures
      r == stored_into(e is Variable && final(self).held_as_eq(e->Variable_0), *e, slot),  // :a_type_erased_local_is_downcast_to_the_type_of_its_slot
//@end
}

// =====================================================================================
// if-else: the final assignments are part of the branches
// =====================================================================================
#[verifier::external_body]
struct LirStatement { _p: u64 }
/// what a statement list becomes (the recursive lowering), opaque
uninterp spec fn lowered_stmts(s: Seq<LirStatement>) -> Seq<Instruction>;
uninterp spec fn lowered_type(t: LirType) -> Type;
#[verifier::external_body]
struct TypeLoweringContext { _p: u8 }
impl TypeLoweringContext {
  #[verifier::external_body]
  fn lower(&mut self, t: &LirType) -> (r: Type) ensures r == lowered_type(*t) { unimplemented!() }
}
struct StmtLoweringManager { type_cx: TypeLoweringContext, inner: LoweringManager }
impl StmtLoweringManager {
  #[verifier::external_body]
  fn lower_expr(&mut self, e: &LirExpression) -> (r: InlineInstruction) ensures r == lowered(*e) { unimplemented!() }
  /// lower_expr_into by its contract (proved above on the real function): the value as it goes into a slot of that type;
  /// whether the local is held type-erased at that point is the manager's state, abstracted to `held_erased`
  #[verifier::external_body]
  fn lower_expr_into(&mut self, e: &LirExpression, slot: Type) -> (r: InlineInstruction)
    ensures r == stored_into(held_erased(*e), *e, slot)
  { unimplemented!() }
  #[verifier::external_body]
  fn set(&mut self, n: PStr, t: Type, v: InlineInstruction) -> (r: InlineInstruction)
    ensures r == InlineInstruction::LocalSet(n, Box::new(v))
  { unimplemented!() }
  /// R3: `stmts.iter().flat_map(|it| self.lower_stmt(it)).collect_vec()` — the recursive lowering of a statement list
  #[verifier::external_body]
  fn lower_stmts(&mut self, stmts: &Vec<LirStatement>) -> (r: Vec<Instruction>) ensures r@ == lowered_stmts(stmts@) { unimplemented!() }
}
/// R7: whether the variable an operand names is held type-erased when the branch ends (state of the manager's table of locals)
uninterp spec fn held_erased(e: LirExpression) -> bool;
/// the assignments that end a branch: `n_k = e_k` for every final assignment, in order, each value as it goes into a slot
/// of the assigned local's type
spec fn final_sets(fa: Seq<(PStr, LirType, LirExpression, LirExpression)>, then_branch: bool) -> Seq<Instruction>
  decreases fa.len()
{
  if fa.len() == 0 { seq![] } else {
    final_sets(fa.drop_last(), then_branch).push(Instruction::Inline(InlineInstruction::LocalSet(fa.last().0,
      Box::new({ let e = if then_branch { fa.last().2 } else { fa.last().3 }; stored_into(held_erased(e), e, lowered_type(fa.last().1)) }))))
  }
}
spec fn negated(c: InlineInstruction) -> InlineInstruction {
  InlineInstruction::Binary { v1: Box::new(c), op: BinaryOperator::XOR, v2: Box::new(InlineInstruction::Const(1)), is_ref_comparison: false }
}

//@extractblock crates/samlang-compiler/src/wasm_lowering.rs :: impl<'a> LoweringManager<'a> / fn lower_stmt
//@from lir::Statement::IfElse { condition, s1, s2, final_assignments } => {
//@to vec![wasm::Instruction::IfElse { condition, s1, s2 }] } }
//@replace lir::Statement::IfElse { condition, s1, s2, final_assignments } => { ==>> { ## R14: the arm header is part of the anchor (nothing may precede the block inside the arm); its bindings are the parameters of the synthetic function
//@replace let mut s1 = s1.iter().flat_map(|it| self.lower_stmt(it)).collect_vec(); => let mut s1 = this.lower_stmts(old_s1); ## R3: the recursive lowering of a statement list (the arm's binding s1 is shadowed by the lowered list; the parameter carries the source list as old_s1)
//@replace let mut s2 = s2.iter().flat_map(|it| self.lower_stmt(it)).collect_vec(); => let mut s2 = this.lower_stmts(old_s2); ## R3: the recursive lowering of a statement list (likewise old_s2)
//@replace for (n, t, e1, e2) in final_assignments { ==>> for fa in it: final_assignments.iter() invariant it.seq().len() == final_assignments@.len(), forall|j: int| 0 <= j < final_assignments@.len() ==> *(#[trigger] it.seq()[j]) == final_assignments@[j], s1@ == lowered_stmts(old_s1@) + final_sets(final_assignments@.take(it.index() as int), true), s2@ == lowered_stmts(old_s2@) + final_sets(final_assignments@.take(it.index() as int), false), { proof { assert(final_assignments@.take(it.index() + 1).drop_last() =~= final_assignments@.take(it.index() as int)); } let (n, t, e1, e2) = fa; ## R11: the destructuring pattern of the loop is a let at the top of the body; R9: IntoIterator for &Vec is Vec::iter; R8: ghost iterator name, loop invariant, proof hint
//@replace* wasm:: =>  ## R1: module path of the extracted types
//@replace hir::BinaryOperator::XOR => BinaryOperator::XOR ## R1: module path of the extracted enum
//@replace* self. => this. ## R14: the receiver of the enclosing method is a parameter of the synthetic function
//@before if s1.is_empty() {
        proof {
          assert(final_assignments@.take(final_assignments@.len() as int) =~= final_assignments@);
          assert(s1@.len() == 0 ==> lowered_stmts(old_s1@).len() == 0);
        }
//@wrap fn lower_if_else_arm(this: &mut StmtLoweringManager, condition: &LirExpression, old_s1: &Vec<LirStatement>, old_s2: &Vec<LirStatement>, final_assignments: &Vec<(PStr, LirType, LirExpression, LirExpression)>) -> (r: Vec<Instruction>)
//@contract
    ensures
      ({
        let then_branch = lowered_stmts(old_s1@) + final_sets(final_assignments@, true);
        let else_branch = lowered_stmts(old_s2@) + final_sets(final_assignments@, false);
        // nothing is emitted only when neither branch does anything — final assignments included
        &&& r@.len() == 0 ==> then_branch.len() == 0 && else_branch.len() == 0
        &&& r@.len() <= 1
        // otherwise one if-else: each branch ends with its final assignments, under the condition (or the branches exchanged under its negation)
        &&& r@.len() == 1 ==> r@[0] is IfElse && (
              (r@[0]->condition == lowered(*condition) && r@[0]->s1@ == then_branch && r@[0]->s2@ == else_branch)
              || (r@[0]->condition == negated(lowered(*condition)) && r@[0]->s1@ == else_branch && r@[0]->s2@.len() == 0 && then_branch.len() == 0))
      }),  // :each_branch_ends_with_its_final_assignments
//@end

// =====================================================================================
// the call itself: always emitted, exactly once
// =====================================================================================
uninterp spec fn indirect_call_type(callee: LirExpression) -> TypeNameId;
impl StmtLoweringManager {
  /// R3: `self.type_cx.lower_function_type(callee.as_variable().unwrap().1.as_fn().unwrap())` — the signature name of a function value
  #[verifier::external_body]
  fn indirect_call_type_of(&mut self, callee: &LirExpression) -> (r: TypeNameId) ensures r == indirect_call_type(*callee) { unimplemented!() }
  /// R3: `self.local_variables.insert(*c, ret_type)` — records the type of a local
  #[verifier::external_body]
  fn declare_local(&mut self, c: PStr, t: Type) { unimplemented!() }
}
spec fn the_call(callee: LirExpression, args: Seq<InlineInstruction>, i: InlineInstruction) -> bool {
  if callee is FnName {
    i is DirectCall && i->DirectCall_0 == callee->FnName_0 && i->DirectCall_1@ == args
  } else {
    i is IndirectCall && *i->function_index == lowered(callee) && i->function_type_name == indirect_call_type(callee) && i->arguments@ == args
  }
}
/// the call, with what the Vec runtime hands back converted to the element type the program expects
spec fn the_converted_call(callee: LirExpression, args: Seq<InlineInstruction>, vec_returns_element: bool, return_type: LirType, i: InlineInstruction) -> bool {
  if !vec_returns_element { the_call(callee, args, i) }
  else if return_type is Int32 { i is DirectCall && i->DirectCall_0 == unwrap_i31_fn() && i->DirectCall_1@.len() == 1 && the_call(callee, args, i->DirectCall_1@[0]) }
  else if return_type is Id { i matches InlineInstruction::Cast { pointer_type, value } && pointer_type == return_type && the_call(callee, args, *value) }
  else { the_call(callee, args, i) }
}

//@extractblock crates/samlang-compiler/src/wasm_lowering.rs :: impl<'a> LoweringManager<'a> / fn lower_stmt
//@from .collect_vec(); let call = if let lir::Expression::FnName(name, _) = callee {
//@to vec![wasm::Instruction::Inline(stmt)] } }
//@replace .collect_vec(); let call = if let ==>> let call = if let ## R14: the end of the preceding statement is part of the anchor (nothing may be put between the lowering of the arguments and the call) and is dropped
//@replace* self. => this. ## R14: the receiver of the enclosing method is a parameter of the synthetic function
//@replace* wasm:: =>  ## R1: module path of the extracted types
//@replace* lir::Expression::FnName => LirExpression::FnName ## R1: module path of the extracted type
//@replace function_type_name: self .type_cx .lower_function_type(callee.as_variable().unwrap().1.as_fn().unwrap()), => function_type_name: this.indirect_call_type_of(callee), ## R3: the signature name of a function value
//@replace* self.local_variables.insert(*c, ret_type); => this.declare_local(*c, ret_type); ## R3: records the type of a local
//@replace mir::FunctionName::UNWRAP_I31 => FunctionName::unwrap_i31() ## R3: the named constant of the opaque name
//@wrap fn emit_call(this: &mut StmtLoweringManager, callee: &LirExpression, argument_instructions: Vec<InlineInstruction>, is_panic: bool, vec_returns_element: bool, return_type: &LirType, return_collector: &Option<PStr>) -> (r: Vec<Instruction>)
//@contract
    ensures
      // a panic: the call, its result dropped, then `unreachable`
      is_panic ==> r@.len() == 2 && r@[0] is Inline && r@[0]->Inline_0 is Drop && the_call(*callee, argument_instructions@, *r@[0]->Inline_0->Drop_0)
        && r@[1] == Instruction::Inline(InlineInstruction::Unreachable),  // :a_panic_call_is_emitted_and_followed_by_unreachable
      // every other call is emitted exactly once — collected into its local or dropped, never left out
      !is_panic ==> r@.len() == 1 && r@[0] is Inline && (match *return_collector {
        Some(c) => r@[0]->Inline_0 is LocalSet && r@[0]->Inline_0->LocalSet_0 == c
          && the_converted_call(*callee, argument_instructions@, vec_returns_element, *return_type, *r@[0]->Inline_0->LocalSet_1),
        None => r@[0]->Inline_0 is Drop
          && the_converted_call(*callee, argument_instructions@, vec_returns_element, *return_type, *r@[0]->Inline_0->Drop_0),
      }),  // :every_call_is_emitted_exactly_once_with_its_result_collected_or_dropped
//@end

/// what the Call arm does with the value a vector runtime function hands back (R14 block): the runtime returns a
/// `(ref null eq)` slot; an int element is unwrapped from its i31, a concrete struct type is cast to, and an
/// any-pointer element (an enum with tag-only or unboxed variants) is used as it is
impl LirType {
  /// R3: `is_int32` / `is_id` generated by derive(EnumAsInner) on lir::Type
  #[verifier::external_body]
  fn is_int32(&self) -> (r: bool) ensures r == (*self is Int32) { unimplemented!() }
  #[verifier::external_body]
  fn is_id(&self) -> (r: bool) ensures r == (*self is Id) { unimplemented!() }
  /// R3: derived Clone
  #[verifier::external_body]
  fn clone(&self) -> (r: LirType) ensures r == *self { unimplemented!() }
}
//@extractblock crates/samlang-compiler/src/wasm_lowering.rs :: impl<'a> LoweringManager<'a> / fn lower_stmt
//@from let call = if vec_returns_element { if return_type.is_int32() {
//@to } else { call };
//@replace* wasm::InlineInstruction:: => InlineInstruction:: ## R1: module path of the extracted type
//@replace mir::FunctionName::UNWRAP_I31 => FunctionName::unwrap_i31() ## R3: the named constant of the opaque name
//@wrap fn unwrap_vec_element(vec_returns_element: bool, return_type: &LirType, call: InlineInstruction) -> (r: InlineInstruction)
//@contract
    ensures
      !vec_returns_element ==> r == call,
      vec_returns_element && *return_type is Int32 ==> r is DirectCall && r->DirectCall_0 == unwrap_i31_fn() && r->DirectCall_1@ == seq![call],  // :an_int_element_is_unwrapped_from_its_i31
      vec_returns_element && *return_type is Id ==> r == (InlineInstruction::Cast { pointer_type: *return_type, value: Box::new(call) }),  // :a_struct_element_is_cast_to_its_type
      vec_returns_element && !(*return_type is Int32) && !(*return_type is Id) ==> r == call,  // :an_any_pointer_element_is_used_as_the_runtime_returns_it
//@atend
  call
//@end

// ---- what that means for the value (WebAssembly GC: ref.i31 keeps the low 31 bits, i31.get_s sign-extends them;
// libsam.wat $__$unwrapI31 = (i31.get_s (ref.cast (ref i31) v)); the TypeScript runtime stores the number itself)
spec fn i31_round_trip(x: int) -> int {
  let low = x % 0x8000_0000;                         // low 31 bits (x mod 2^31, non-negative)
  if low >= 0x4000_0000 { low - 0x8000_0000 } else { low }
}
proof fn lemma_i31_round_trip_is_identity_on_31_bit_values(x: int)
  requires -0x4000_0000 <= x < 0x4000_0000
  ensures i31_round_trip(x) == x  // :vector_elements_of_31_bits_survive
{
  if x >= 0 { assert(x % 0x8000_0000 == x) by { vstd::arithmetic::div_mod::lemma_small_mod(x as nat, 0x8000_0000); } }
  else {
    assert((x + 0x8000_0000) % 0x8000_0000 == x + 0x8000_0000) by { vstd::arithmetic::div_mod::lemma_small_mod((x + 0x8000_0000) as nat, 0x8000_0000); }
    assert(x % 0x8000_0000 == (x + 0x8000_0000) % 0x8000_0000) by { vstd::arithmetic::div_mod::lemma_mod_add_multiples_vanish(x, 0x8000_0000); }
  }
}
/// C04 / C01 for Vec<int>, all element values: NOT provable — the next lemma is the witness
proof fn lemma_vector_elements_survive_for_all_i32(x: int)
  requires i32::MIN <= x <= i32::MAX
  ensures i31_round_trip(x) == x  // :every_i32_vector_element_is_read_back_unchanged
{
}
proof fn lemma_bit_30_is_lost()
  ensures i31_round_trip(1073741824) == -1073741824  // :witness_1073741824_reads_back_negative
{
  assert(1073741824int % 0x8000_0000 == 1073741824) by { vstd::arithmetic::div_mod::lemma_small_mod(1073741824nat, 0x8000_0000); }
}

proof fn canary_must_fail_wasmlower() ensures false {}

} // verus!
fn main() {}
