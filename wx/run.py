"""Witness search: after a Verus unit reported a failed obligation (or lost proof anchors), look for a
concrete input on the REAL code that violates a contract clause.  Never used to conclude that a
property holds."""
import os
import re
import shutil
import subprocess
import tempfile
import sys
import time

HERE = os.path.dirname(os.path.abspath(__file__))
VERIF = os.path.dirname(HERE)
CACHE = os.environ.get('VERIF_WX_CACHE') or os.path.join(VERIF, '.cache', 'wx-target')
sys.path.insert(0, VERIF)
import cachestamp  # noqa: E402

# unit -> (crate, repo-relative file the witness module is a child of, witness source, test name)
WITNESS = {
  'heap': ('samlang-heap', 'crates/samlang-heap/src/lib.rs', 'wx/witness/samlang_heap.rs', 'verif_witness_search'),
  'litgate': ('samlang-parser', 'crates/samlang-parser/src/lexer.rs', 'wx/witness/samlang_parser_lexer.rs', 'verif_witness_search_literals'),
  'lexer': ('samlang-parser', 'crates/samlang-parser/src/lexer.rs', 'wx/witness/samlang_parser_lexer.rs', 'verif_witness_search_positions'),
  'ccpbin': ('samlang-optimization', 'crates/samlang-optimization/src/conditional_constant_propagation.rs', 'wx/witness/samlang_optimization_ccp.rs', 'verif_witness_search'),
  'strlit': ('samlang-printer', 'crates/samlang-printer/src/source_printer.rs', 'wx/witness/samlang_printer_source_printer.rs', 'verif_witness_search'),
  'errgate': ('samlang-compiler', 'crates/samlang-compiler/src/lib.rs', 'wx/witness/samlang_compiler_lib.rs', 'verif_witness_search_errors'),
  'dce': ('samlang-optimization', 'crates/samlang-optimization/src/dead_code_elimination.rs', 'wx/witness/samlang_optimization_dce.rs', 'verif_witness_search'),
  'loopvars': ('samlang-compiler', 'crates/samlang-compiler/src/lib.rs', 'wx/witness/samlang_compiler_lib.rs', 'verif_witness_search_loopvars'),
  'paren': ('samlang-printer', 'crates/samlang-printer/src/lib.rs', 'wx/witness/samlang_printer_roundtrip.rs', 'verif_witness_search'),
  'wasmlower': ('samlang-compiler', 'crates/samlang-compiler/src/lib.rs', 'wx/witness/samlang_compiler_lib.rs', 'verif_witness_search_operators'),
  'oparms': ('samlang-compiler', 'crates/samlang-compiler/src/lib.rs', 'wx/witness/samlang_compiler_lib.rs', 'verif_witness_search_operators'),
  'strconst': ('samlang-compiler', 'crates/samlang-compiler/src/lib.rs', 'wx/witness/samlang_compiler_lib.rs', 'verif_witness_search_string_constants'),
  'loopguard': ('samlang-optimization', 'crates/samlang-optimization/src/loop_induction_analysis.rs', 'wx/witness/samlang_optimization_loopguard.rs', 'verif_witness_search'),
  'ifchain': ('samlang-printer', 'crates/samlang-printer/src/lib.rs', 'wx/witness/samlang_printer_roundtrip.rs', 'verif_witness_search'),
  'checkgates': ('samlang-compiler', 'crates/samlang-compiler/src/lib.rs', 'wx/witness/samlang_compiler_lib.rs', 'verif_witness_search_errors'),
  'visgate': ('samlang-compiler', 'crates/samlang-compiler/src/lib.rs', 'wx/witness/samlang_compiler_lib.rs', 'verif_witness_search_errors'),
  'ssascope': ('samlang-compiler', 'crates/samlang-compiler/src/lib.rs', 'wx/witness/samlang_compiler_lib.rs', 'verif_witness_search_errors'),
  'usegates': ('samlang-compiler', 'crates/samlang-compiler/src/lib.rs', 'wx/witness/samlang_compiler_lib.rs', 'verif_witness_search_single_fault_mutants'),
  'ssanames': ('samlang-compiler', 'crates/samlang-compiler/src/lib.rs', 'wx/witness/samlang_compiler_lib.rs', 'verif_witness_search_single_fault_mutants'),
  'srvstate': ('samlang-services', 'crates/samlang-services/src/server_state.rs', 'wx/witness/samlang_services_server_state.rs', 'verif_witness_search'),
  'enumlayout': ('samlang-compiler', 'crates/samlang-compiler/src/lib.rs', 'wx/witness/samlang_compiler_lib.rs', 'verif_witness_search_enum_layout'),
  'tripcount': ('samlang-optimization', 'crates/samlang-optimization/src/loop_algebraic_optimization.rs', 'wx/witness/samlang_optimization_tripcount.rs', 'verif_witness_search'),
  # thorough-tier exploration without a unit of its own (registry: 'thorough_witness')
  'parser_terminates': ('samlang-parser', 'crates/samlang-parser/src/lib.rs', 'wx/witness/samlang_parser_lib.rs', 'verif_witness_search_parser_terminates'),
  'ccploop': ('samlang-compiler', 'crates/samlang-compiler/src/lib.rs', 'wx/witness/samlang_compiler_exec.rs', 'verif_witness_search_exec_optimizer'),
  'lvnscope': ('samlang-compiler', 'crates/samlang-compiler/src/lib.rs', 'wx/witness/samlang_compiler_exec.rs', 'verif_witness_search_exec_optimizer'),
  'escape': ('samlang-compiler', 'crates/samlang-compiler/src/lib.rs', 'wx/witness/samlang_compiler_exec.rs', 'verif_witness_search_exec_optimizer'),
  'csehoist': ('samlang-compiler', 'crates/samlang-compiler/src/lib.rs', 'wx/witness/samlang_compiler_exec.rs', 'verif_witness_search_exec_optimizer'),
  'licm': ('samlang-compiler', 'crates/samlang-compiler/src/lib.rs', 'wx/witness/samlang_compiler_exec.rs', 'verif_witness_search_exec_optimizer'),
  'ivelim': ('samlang-compiler', 'crates/samlang-compiler/src/lib.rs', 'wx/witness/samlang_compiler_exec.rs', 'verif_witness_search_exec_optimizer'),
  # quick-tier exploration without a unit of its own (registry: 'quick_witness')
  'exec_backends': ('samlang-compiler', 'crates/samlang-compiler/src/lib.rs', 'wx/witness/samlang_compiler_exec.rs', 'verif_witness_search_exec_backends'),
  'exec_semantics': ('samlang-compiler', 'crates/samlang-compiler/src/lib.rs', 'wx/witness/samlang_compiler_exec.rs', 'verif_witness_search_exec_semantics'),
  'exec_optimizer': ('samlang-compiler', 'crates/samlang-compiler/src/lib.rs', 'wx/witness/samlang_compiler_exec.rs', 'verif_witness_search_exec_optimizer'),
  'tsstmt': ('samlang-compiler', 'crates/samlang-compiler/src/lib.rs', 'wx/witness/samlang_compiler_exec.rs', 'verif_witness_search_exec_backends'),
  'fmtterm': ('samlang-printer', 'crates/samlang-printer/src/lib.rs', 'wx/witness/samlang_printer_modules.rs', 'verif_witness_search_formatter_terminates'),
  'fmtserver': ('samlang-services', 'crates/samlang-services/src/server_state.rs', 'wx/witness/samlang_services_server_state.rs', 'verif_witness_search_format_requests'),
  'gen_semantics': ('samlang-compiler', 'crates/samlang-compiler/src/lib.rs', 'wx/witness/samlang_compiler_gen.rs', 'verif_witness_search_gen_semantics'),
  'gen_backends': ('samlang-compiler', 'crates/samlang-compiler/src/lib.rs', 'wx/witness/samlang_compiler_gen.rs', 'verif_witness_search_gen_backends'),
  'gen_optimizer': ('samlang-compiler', 'crates/samlang-compiler/src/lib.rs', 'wx/witness/samlang_compiler_gen.rs', 'verif_witness_search_gen_optimizer'),
  'gen_nocrash': ('samlang-compiler', 'crates/samlang-compiler/src/lib.rs', 'wx/witness/samlang_compiler_gen.rs', 'verif_witness_search_gen_nocrash'),
  'gen_rejects': ('samlang-compiler', 'crates/samlang-compiler/src/lib.rs', 'wx/witness/samlang_compiler_gen.rs', 'verif_witness_search_gen_rejects'),
  'nocrash': ('samlang-compiler', 'crates/samlang-compiler/src/lib.rs', 'wx/witness/samlang_compiler_lib.rs', 'verif_witness_search_no_crash'),
  'loctree': ('samlang-parser', 'crates/samlang-parser/src/lib.rs', 'wx/witness/samlang_parser_locations.rs', 'verif_witness_search_location_tree'),
  'printmods': ('samlang-printer', 'crates/samlang-printer/src/lib.rs', 'wx/witness/samlang_printer_modules.rs', 'verif_witness_search_modules'),
  'parsetok': ('samlang-parser', 'crates/samlang-parser/src/lib.rs', 'wx/witness/samlang_parser_lib.rs', 'verif_witness_search_import_ranges'),
  'prodloc': ('samlang-parser', 'crates/samlang-parser/src/lib.rs', 'wx/witness/samlang_parser_lib.rs', 'verif_witness_search_type_parameter_ranges'),
  'depgraph': ('samlang-services', 'crates/samlang-services/src/dep_graph.rs', 'wx/witness/samlang_services_dep_graph.rs', 'verif_witness_search'),
}


MEMORY_LIMIT_GB = 12


def _tree_rss_kb(root):
  """resident memory of a process and all its descendants (kB)"""
  children = {}
  rss = {}
  for pid in os.listdir('/proc'):
    if not pid.isdigit():
      continue
    try:
      with open('/proc/%s/stat' % pid) as f:
        fields = f.read().rsplit(')', 1)[1].split()
      children.setdefault(int(fields[1]), []).append(int(pid))
      with open('/proc/%s/statm' % pid) as f:
        rss[int(pid)] = int(f.read().split()[1]) * 4
    except (OSError, IndexError, ValueError):
      pass
  total, todo = 0, [root]
  while todo:
    q = todo.pop()
    total += rss.get(q, 0)
    todo.extend(children.get(q, []))
  return total


def _run_watched(cmd, cwd, env, timeout):
  """runs cmd in its own process group; returns (output, finished, runaway).  The group is killed at the time limit and
  when its resident memory passes MEMORY_LIMIT_GB."""
  import signal
  import tempfile as _tf
  with _tf.TemporaryFile(mode='w+b') as log:
    p = subprocess.Popen(cmd, cwd=cwd, env=env, stdout=log, stderr=subprocess.STDOUT, start_new_session=True)
    t0 = time.time()
    finished, runaway = False, False
    while True:
      try:
        p.wait(timeout=1.0)
        finished = True
        break
      except subprocess.TimeoutExpired:
        pass
      if time.time() - t0 > timeout:
        break
      if _tree_rss_kb(p.pid) > MEMORY_LIMIT_GB * 1024 * 1024:
        runaway = True
        break
    if not finished:
      try:
        os.killpg(p.pid, signal.SIGKILL)
      except OSError:
        pass
      p.wait()
    log.seek(0)
    out = log.read().decode('utf-8', 'replace')
  return out, finished, runaway


def search(unit, repo, seed=0, timeout=1800):
  """returns dict(found: bool|None, witness: str, cmd: str, log_tail: str)"""
  if unit not in WITNESS:
    return {'found': None, 'witness': '', 'cmd': '', 'log_tail': 'no witness search for unit %s' % unit}
  crate, rel, src, test = WITNESS[unit]
  d = tempfile.mkdtemp(prefix='samlang-wx-')
  try:
    for name in ('Cargo.toml', 'Cargo.lock'):
      shutil.copy2(os.path.join(repo, name), os.path.join(d, name))
    for sub in ('crates', 'std', 'tests'):
      if not os.path.isdir(os.path.join(repo, sub)):
        continue
      subprocess.run(['rsync', '-a', '--exclude', 'target', os.path.join(repo, sub), d], check=True)
    with open(os.path.join(d, rel), 'a') as f:
      f.write('\n#[cfg(test)] #[path = "%s"] mod verif_witness;\n' % os.path.join(VERIF, src))
    cmd = ['cargo', 'test', '-p', crate, '--offline', '--lib', test, '--', '--nocapture', '--test-threads', '1']
    env = dict(os.environ, CARGO_NET_OFFLINE='true', CARGO_TARGET_DIR=CACHE, VERIF_SEED=str(seed))
    t0 = time.time()
    cachestamp.stamp(d, CACHE)
    out, finished, runaway = _run_watched(cmd, d, env, timeout)
    if finished:
      cachestamp.finished(CACHE)
    elif runaway:
      # code that loops and allocates without bound (seen with a parser change: 200 MB/s) would take the machine down
      # long before the time limit: the run is stopped and that is the failing behaviour
      out += '\nWITNESS: the real code allocated more than %d GB during this exploration and was stopped (a run-away loop); last output: %s\n' % (
        MEMORY_LIMIT_GB, ' '.join(out[-300:].split()))
    else:
      out += '\n[timeout]\n'
    m = re.search(r'WITNESS: (.*)$', out, re.M)
    res = {'cmd': ' '.join(cmd) + '   (in a scratch copy of /repo with `#[cfg(test)] #[path = "%s"] mod verif_witness;` appended to %s)' % (os.path.join(VERIF, src), rel),
           'log_tail': out[-2500:], 'log_head': out[:20000], 'wall_s': time.time() - t0}
    # an exploration may report, apart from its verdict, inputs it knows to fail on the pinned tree (recorded findings)
    res['pinned'] = re.findall(r'PINNED-FINDING: (\S+): (.*)$', out, re.M)
    if m:
      res.update(found=True, witness=m.group(1))
    elif 'WITNESS-SEARCH: no violating history found' in out:
      res.update(found=False, witness='', explored=' | '.join(re.findall(r'WITNESS-SEARCH: no violating history found *(.*)$', out, re.M))[:400])
    else:
      # a panic inside the real code (e.g. index out of bounds) during a history is a witness too
      pm = re.search(r"panicked at ([^\n]*)\n([^\n]*)", out)
      if pm and 'test result: FAILED' in out:
        res.update(found=True, witness='the real code panicked during the search: %s %s' % (pm.group(1), pm.group(2)))
      else:
        res.update(found=None, witness='')
    return res
  finally:
    shutil.rmtree(d, ignore_errors=True)


if __name__ == '__main__':
  import sys
  r = search(sys.argv[1], os.environ.get('VERIF_REPO', '/repo'))
  print(r['found'], r['witness'])
  if r['found'] is None:
    print(r['log_tail'])
