// Bounded exploration by EXECUTION (C01, C02, C04): the repository's sample programs (tests/*.sam through
// tests.AllTests, expected output tests/snapshot.txt) and hand-written programs are compiled with the real
// pipeline and run under node (>= 22.6: WebAssembly GC + --experimental-strip-types):
//   backends   (C04): the emitted TypeScript and the emitted WebAssembly print the same lines and end the same way;
//   semantics  (C01): the emitted WebAssembly prints the expected lines;
//   optimizer  (C02): for every configuration of the optimizer the optimized program behaves like the program that
//                     was not optimized at all (both executed through the TypeScript output: the WebAssembly
//                     lowering produces an invalid module for some programs unless inlining has run, which is a
//                     back-end matter and not what C02 is about).
// The recorded findings are avoided: no negative inexact quotient, no escape sequence or non-ASCII character in a
// string constant, no Vec<int> element outside 31 bits, no x / x or x % x, no comparison of a wrapped sum.
// If no suitable node binary is found the executions are skipped (the search then reports that it explored nothing).
use super::*;
use samlang_heap::{Heap, ModuleReference};
use std::collections::HashMap;
use std::process::Command;

fn node_version_ok(path: &str) -> bool {
  let Ok(out) = Command::new(path).arg("--version").output() else { return false };
  let v = String::from_utf8_lossy(&out.stdout).trim().trim_start_matches('v').to_string();
  let mut parts = v.split('.').map(|p| p.parse::<u32>().unwrap_or(0));
  let (major, minor) = (parts.next().unwrap_or(0), parts.next().unwrap_or(0));
  major > 22 || (major == 22 && minor >= 6)
}

fn find_node() -> Option<String> {
  let mut candidates = Vec::new();
  if let Ok(p) = std::env::var("VERIF_NODE") {
    candidates.push(p);
  }
  candidates.push("node".to_string());
  for home in [std::env::var("HOME").unwrap_or_default(), "/root".to_string()] {
    if let Ok(rd) = std::fs::read_dir(format!("{home}/.nvm/versions/node")) {
      let mut v = rd.filter_map(|e| e.ok()).map(|e| e.path().join("bin/node").to_string_lossy().to_string()).collect::<Vec<_>>();
      v.sort();
      v.reverse();
      candidates.extend(v);
    }
  }
  candidates.push("/usr/local/bin/node".to_string());
  candidates.push("/usr/bin/node".to_string());
  candidates.into_iter().find(|c| node_version_ok(c))
}

#[derive(Clone, PartialEq, Eq, Debug)]
struct Outcome {
  lines: Vec<String>,
  /// None: returned normally; Some(message): ended with an error (first `Error`-like line of stderr)
  failure: Option<String>,
}

fn describe(o: &Outcome) -> String {
  format!(
    "{} line(s) [{}{}], {}",
    o.lines.len(),
    o.lines.iter().take(12).cloned().collect::<Vec<_>>().join(" | "),
    if o.lines.len() > 12 { " | .." } else { "" },
    match &o.failure {
      None => "returns normally".to_string(),
      Some(m) => format!("ends with: {m}"),
    }
  )
}

fn first_difference(a: &Outcome, b: &Outcome) -> String {
  let at = a.lines.iter().zip(b.lines.iter()).position(|(x, y)| x != y).unwrap_or(a.lines.len().min(b.lines.len()));
  format!(
    "first difference at line {}: {:?} vs {:?}; {} vs {}",
    at + 1,
    a.lines.get(at),
    b.lines.get(at),
    describe(a),
    describe(b)
  )
}

fn run_node(node: &str, dir: &std::path::Path, args: &[&str]) -> Outcome {
  let out = Command::new("timeout").arg("120").arg(node).args(args).current_dir(dir).output().expect("spawn node");
  let stdout = String::from_utf8_lossy(&out.stdout);
  let stderr = String::from_utf8_lossy(&out.stderr);
  if std::env::var("VERIF_WITNESS_VERBOSE").is_ok() && !out.status.success() {
    println!("--- stderr of {args:?}:\n{}", stderr.chars().take(1500).collect::<String>());
  }
  let failure = if out.status.success() {
    None
  } else {
    Some(
      stderr
        .lines()
        .map(|l| l.trim())
        .find(|l| l.starts_with("Error") || l.contains("Error:") || l.contains("RuntimeError") || l.contains("RangeError"))
        .map(|l| l.trim_start_matches("Uncaught ").to_string())
        .unwrap_or_else(|| format!("exit status {:?}", out.status.code())),
    )
  };
  Outcome { lines: stdout.lines().map(|l| l.to_string()).collect(), failure }
}

/// the kind of failure, without engine-specific wording: a samlang panic keeps its message
fn normalized(o: &Outcome) -> Outcome {
  Outcome {
    lines: o.lines.clone(),
    failure: o.failure.as_ref().map(|m| match m.find("Error: ") {
      // a failure inside the Vec runtime is a thrown Error in the TypeScript prolog and an `unreachable` trap in
      // libsam.wat (hand-written runtime texts, outside the Rust code): both count as a trap
      Some(i) if m[i..].starts_with("Error: Vec ") => "trap".to_string(),
      Some(i) if i == 0 => m.to_string(),
      _ => "trap".to_string(),
    }),
  }
}

struct Compiled {
  ts: String,
  wasm: Vec<u8>,
}

struct Program {
  heap: Heap,
  checked: HashMap<ModuleReference, samlang_ast::source::Module<std::sync::Arc<samlang_checker::type_::Type>>>,
  entry: ModuleReference,
  loader: String,
  wasm_js: String,
  entry_name: String,
}

fn front_end(modules: &[(Vec<String>, String)], entry: &[&str]) -> Result<Program, String> {
  let mut heap = Heap::new();
  let mut sources = HashMap::new();
  for (path, text) in modules {
    let m = heap.alloc_module_reference_from_string_vec(path.clone());
    sources.insert(m, text.clone());
  }
  for (m, s) in samlang_parser::builtin_std_raw_sources(&mut heap) {
    sources.entry(m).or_insert(s);
  }
  let entry = heap.alloc_module_reference_from_string_vec(entry.iter().map(|s| s.to_string()).collect());
  // the real driver once: for the loader, the wasm wrapper and the diagnostics
  let full = compile_sources(&mut heap, sources.clone(), vec![entry], false)?;
  let entry_name = entry.pretty_print(&heap);
  let loader = full.text_code_results["__samlang_loader__.js"].clone();
  let wasm_js = full.text_code_results[&format!("{entry_name}.wasm.js")].clone();
  let mut error_set = samlang_errors::ErrorSet::new();
  let mut parsed = HashMap::new();
  for (m, s) in &sources {
    parsed.insert(*m, samlang_parser::parse_source_module_from_text(s, *m, &mut heap, &mut error_set));
  }
  let checked = samlang_checker::type_check_sources(&parsed, &mut error_set).0;
  if error_set.has_errors() {
    return Err("front end reports errors".to_string());
  }
  Ok(Program { heap, checked, entry, loader, wasm_js, entry_name })
}

/// the tail of compile_sources with the optimizer configuration as a parameter (None: not optimized at all)
fn back_end(p: &mut Program, configuration: Option<&samlang_optimization::OptimizationConfiguration>) -> Compiled {
  let heap = &mut p.heap;
  let mir = compile_sources_to_mir(heap, &p.checked);
  let mir = match configuration {
    None => mir,
    Some(c) => samlang_optimization::optimize_sources(heap, mir, c),
  };
  let mut lir_sources = compile_mir_to_lir(heap, mir);
  let common_ts_code = lir_sources.pretty_print(heap);
  let mut main_fn_name = String::new();
  samlang_ast::mir::FunctionName {
    type_name: lir_sources.symbol_table.create_main_type_name(p.entry),
    fn_name: samlang_heap::PStr::MAIN_FN,
  }
  .write_encoded(&mut main_fn_name, heap, &lir_sources.symbol_table);
  let ts = format!("{common_ts_code}\n{main_fn_name}();\n");
  let (_, wasm) = compile_lir_to_wasm(heap, lir_sources);
  Compiled { ts, wasm }
}

struct Workdir(std::path::PathBuf);
impl Workdir {
  fn new(tag: &str) -> Workdir {
    let d = std::env::temp_dir().join(format!("samlang-wx-exec-{}-{tag}", std::process::id()));
    let _ = std::fs::remove_dir_all(&d);
    std::fs::create_dir_all(&d).unwrap();
    Workdir(d)
  }
}
impl Drop for Workdir {
  fn drop(&mut self) {
    let _ = std::fs::remove_dir_all(&self.0);
  }
}

fn run_wasm(node: &str, w: &Workdir, p: &Program, c: &Compiled) -> Outcome {
  std::fs::write(w.0.join("__samlang_loader__.js"), &p.loader).unwrap();
  std::fs::write(w.0.join("__all__.wasm"), &c.wasm).unwrap();
  std::fs::write(w.0.join(format!("{}.wasm.js", p.entry_name)), &p.wasm_js).unwrap();
  run_node(node, &w.0, &[&format!("{}.wasm.js", p.entry_name)])
}

fn run_ts(node: &str, w: &Workdir, p: &Program, c: &Compiled) -> Outcome {
  std::fs::write(w.0.join(format!("{}.ts", p.entry_name)), &c.ts).unwrap();
  run_node(node, &w.0, &["--experimental-strip-types", "--no-warnings", &format!("{}.ts", p.entry_name)])
}

/// (name, modules, entry, expected lines, expected failure message) — expected None: not stated here
type Case = (String, Vec<(Vec<String>, String)>, Vec<&'static str>, Option<Vec<String>>, Option<String>);

fn sample_case() -> Option<Case> {
  let root = std::path::Path::new(env!("CARGO_MANIFEST_DIR")).join("../..");
  let mut modules = Vec::new();
  for dir in ["tests", "std"] {
    let rd = std::fs::read_dir(root.join(dir)).ok()?;
    for e in rd.filter_map(|e| e.ok()) {
      let p = e.path();
      if p.extension().is_some_and(|x| x == "sam") {
        modules.push((
          vec![dir.to_string(), p.file_stem().unwrap().to_string_lossy().to_string()],
          std::fs::read_to_string(&p).ok()?,
        ));
      }
    }
  }
  modules.sort();
  let expected = std::fs::read_to_string(root.join("tests/snapshot.txt")).ok().map(|s| s.lines().map(|l| l.to_string()).collect());
  Some(("the repository's sample programs (tests.AllTests)".to_string(), modules, vec!["tests", "AllTests"], expected, None))
}

fn expected_failure(m: String) -> String {
  if m == "trap" { m } else { format!("Error: {m}") }
}

fn lines(s: &str) -> Option<Vec<String>> {
  Some(s.lines().map(|l| l.to_string()).collect())
}

fn hand_written() -> Vec<Case> {
  let demo = |name: &str, text: &str, expected: &str, failure: Option<&str>| -> Case {
    (name.to_string(), vec![(vec!["Demo".to_string()], text.to_string())], vec!["Demo"], lines(expected), failure.map(|s| s.to_string()))
  };
  vec![
    demo(
      "operators on run-time values",
      r#"class Main {
  function show(label: Str, v: int): unit = Process.println(label :: "=" :: Str.fromInt(v))
  function flag(label: Str, b: bool): unit = Process.println(label :: "=" :: (if b { "true" } else { "false" }))
  function ops(a: int, b: int): unit = {
    let _ = Main.show("add", a + b);
    let _ = Main.show("sub", a - b);
    let _ = Main.show("mul", a * b);
    let _ = Main.show("neg", -a);
    let _ = Main.flag("lt", a < b);
    let _ = Main.flag("le", a <= b);
    let _ = Main.flag("gt", a > b);
    let _ = Main.flag("ge", a >= b);
    let _ = Main.flag("eq", a == b);
    let _ = Main.flag("ne", a != b);
    let _ = Main.flag("and", a < b && b < 100);
    let _ = Main.flag("or", a > b || b > 100);
    let _ = Main.flag("not", !(a < b));
  }
  function divs(a: int, b: int): unit = {
    let _ = Main.show("div", a / b);
    let _ = Main.show("mod", a % b);
  }
  function id(x: int): int = if x == 123456789 { Main.id(x - 1) } else { x }
  function main(): unit = {
    let _ = Main.ops(Main.id(7), Main.id(3));
    let _ = Main.ops(Main.id(-7), Main.id(3));
    let _ = Main.ops(Main.id(3), Main.id(3));
    let _ = Main.ops(Main.id(0), Main.id(-5));
    let _ = Main.ops(Main.id(46341), Main.id(-46340));
    let _ = Main.divs(Main.id(7), Main.id(2));
    let _ = Main.divs(Main.id(-8), Main.id(2));
    let _ = Main.divs(Main.id(8), Main.id(-2));
    let _ = Main.divs(Main.id(-9), Main.id(-3));
    let _ = Main.divs(Main.id(-7), Main.id(7));
    let _ = Main.divs(Main.id(2147483647), Main.id(1));
    let _ = Main.show("mod-neg", Main.id(-7) % Main.id(2));
    let _ = Main.show("mod-neg2", Main.id(7) % Main.id(-2));
    let _ = Main.show("prec", Main.id(2) + Main.id(3) * Main.id(4) - Main.id(10) / Main.id(5) % Main.id(3));
    let _ = Main.show("paren", (Main.id(2) + Main.id(3)) * (Main.id(4) - Main.id(10)) / (Main.id(5) % Main.id(3)));
  }
}"#,
      "add=10\nsub=4\nmul=21\nneg=-7\nlt=false\nle=false\ngt=true\nge=true\neq=false\nne=true\nand=false\nor=true\nnot=true\n\
add=-4\nsub=-10\nmul=-21\nneg=7\nlt=true\nle=true\ngt=false\nge=false\neq=false\nne=true\nand=true\nor=false\nnot=false\n\
add=6\nsub=0\nmul=9\nneg=-3\nlt=false\nle=true\ngt=false\nge=true\neq=true\nne=false\nand=false\nor=false\nnot=true\n\
add=-5\nsub=5\nmul=0\nneg=0\nlt=false\nle=false\ngt=true\nge=true\neq=false\nne=true\nand=false\nor=true\nnot=true\n\
add=1\nsub=92681\nmul=-2147441940\nneg=-46341\nlt=false\nle=false\ngt=true\nge=true\neq=false\nne=true\nand=false\nor=true\nnot=true\n\
div=3\nmod=1\ndiv=-4\nmod=0\ndiv=-4\nmod=0\ndiv=3\nmod=0\ndiv=-1\nmod=0\ndiv=2147483647\nmod=0\nmod-neg=-1\nmod-neg2=1\nprec=12\nparen=-15",
      None,
    ),
    demo(
      "Vec of ints, bools, strings and objects; values chosen at run time",
      r#"class P(val x: int, val y: int) {}
class Main {
  function fill(v: Vec<int>, n: int): unit = if n == 0 { } else { let _ = v.push(n * 3 - 4); Main.fill(v, n - 1) }
  function sum(v: Vec<int>, i: int, acc: int): int = if i == v.length() { acc } else { Main.sum(v, i + 1, acc + v.get(i)) }
  function main(): unit = {
    let v = Vec.empty<int>();
    let _ = Main.fill(v, 5);
    let _ = Process.println(Str.fromInt(Main.sum(v, 0, 0)));
    let k = v.length() - 6;
    let _ = v.set(1, k * 1000);
    let _ = v.push(k);
    let _ = Process.println(Str.fromInt(v.get(1)) :: " " :: Str.fromInt(v.pop()) :: " " :: Str.fromInt(v.length()));
    let w = Vec.of<int>(v.get(0) - 2000);
    let _ = Process.println(Str.fromInt(w.get(0)));
    let many = if v.length() > 1 { "many" } else { "few" };
    let n = if v.length() > 5 { 10 } else { 20 };
    let _ = Process.println(many :: " " :: Str.fromInt(n));
    let b = Vec.empty<bool>();
    let _ = b.push(v.length() > 3);
    let _ = b.push(v.length() > 30);
    let _ = Process.println(if b.get(0) && !b.get(1) { "bools ok" } else { "bools wrong" });
    let s = Vec.of<Str>("x" :: Str.fromInt(n));
    let _ = s.push("y");
    let _ = Process.println(s.get(0) :: s.get(1) :: Str.fromInt(s.length()));
    let ps = Vec.of<P>(P.init(n, 2));
    let _ = ps.push(P.init(3, n + 1));
    let _ = Process.println(Str.fromInt(ps.get(0).x * 100 + ps.get(1).y));
    let _ = Process.println("before");
    let _ = v.get(7);
    let _ = Process.println("after");
  }
}"#,
      "25\n-1000 -1 5\n-1989\nmany 20\nbools ok\nx20y2\n2021\nbefore",
      Some("trap"),
    ),
    demo(
      "function values, closures and method references",
      r#"class Alpha {
  function inc(x: int): int = x + 1
  function dbl(x: int): int = x * 2
}
class Counter(val base: int) {
  method add(x: int): int = this.base + x
  method adder(): (int) -> int = (x) -> this.base + x
  method mix(x: int): int = Main.combine(x, this, this.base)
}
class Main {
  function until(f: (int) -> int, x: int): int = if x > 1000 { x } else { Main.until(f, f(f(x))) }
  function compose(f: (int) -> int, g: (int) -> int): (int) -> int = (x) -> g(f(x))
  function combine(n: int, c: Counter, m: int): int = if n > 1000000 { 1 + Main.combine(n - 1, c, m) } else { n * 100 + c.base + m }
  function main(): unit = {
    let _ = Process.println(Str.fromInt(Main.until(Alpha.inc, 3)));
    let _ = Process.println(Str.fromInt(Main.until(Alpha.dbl, 3)));
    let c = Counter.init(40);
    let m = c.add;
    let _ = Process.println(Str.fromInt(m(2)));
    let _ = Process.println(Str.fromInt(c.adder()(5)));
    let k = Main.until(Alpha.inc, 998);
    let h = Main.compose((x) -> x + k, Alpha.dbl);
    let _ = Process.println(Str.fromInt(h(1)));
    let mixer = c.mix;
    let _ = Process.println(Str.fromInt(mixer(7)) :: " " :: Str.fromInt(Main.until(mixer, 9)));
  }
}"#,
      "1001\n3072\n42\n45\n2006\n780 98080",
      None,
    ),
    demo(
      "enums, patterns and their layout",
      r#"class Color(Red, Green, Rgb(int, int, int)) {}
class Opt<T>(None, Some(T)) {}
class Nat(Z, S(Nat)) {
  method toInt(): int = match (this) { Z -> 0, S(n) -> 1 + n.toInt() }
}
class Wrap(Only(Nat)) {}
class P(val a: int, val b: int, val c: int) {}
class Main {
  function color(c: Color): Str = match (c) { Red -> "red", Green -> "green", Rgb(r, g, b) -> "rgb" :: Str.fromInt(r * 10000 + g * 100 + b) }
  function opt(o: Opt<Color>): Str = match (o) { None -> "none", Some(Red) -> "some red", Some(Green) -> "some other", Some(c) -> "some " :: Main.color(c) }
  function nested(o: Opt<Opt<int>>): int = match (o) { None -> 0 - 1, Some(None) -> 0 - 2, Some(Some(n)) -> n }
  function first(o: Opt<int>, p: Opt<int>): int = match ((o, p)) { (Some(a), _) -> a, (_, Some(b)) -> b + 100, (None, None) -> 0 - 1 }
  function main(): unit = {
    let _ = Process.println(Main.color(Color.Red()) :: " " :: Main.color(Color.Green()) :: " " :: Main.color(Color.Rgb(1, 2, 3)));
    let _ = Process.println(Main.opt(Opt.None<Color>()) :: ", " :: Main.opt(Opt.Some(Color.Red())) :: ", " :: Main.opt(Opt.Some(Color.Green())) :: ", " :: Main.opt(Opt.Some(Color.Rgb(9, 8, 7))));
    let _ = Process.println(Str.fromInt(Main.nested(Opt.None<Opt<int>>())) :: " " :: Str.fromInt(Main.nested(Opt.Some(Opt.None<int>()))) :: " " :: Str.fromInt(Main.nested(Opt.Some(Opt.Some(7)))));
    let _ = Process.println(Str.fromInt(Main.first(Opt.Some(1), Opt.Some(2))) :: " " :: Str.fromInt(Main.first(Opt.None<int>(), Opt.Some(2))) :: " " :: Str.fromInt(Main.first(Opt.None<int>(), Opt.None<int>())));
    let three = Nat.S(Nat.S(Nat.S(Nat.Z())));
    let _ = Process.println(Str.fromInt(three.toInt()) :: " " :: Str.fromInt(Nat.Z().toInt()));
    let Only(n) = Wrap.Only(three);
    let _ = Process.println(Str.fromInt(n.toInt()));
    let { c, b as _, a } = P.init(1, 2, 3);
    let (x, (y, z)) = (4, (5, 6));
    let _ = Process.println(Str.fromInt(c * 10 + a) :: " " :: Str.fromInt(x * 100 + y * 10 + z));
    let _ = Process.println(if let Some(v) = Opt.Some(three.toInt()) { Str.fromInt(v) } else { "nothing" });
  }
}"#,
      "red green rgb10203\nnone, some red, some other, some rgb90807\n-1 -2 7\n1 102 -1\n3 0\n3\n31 456\n3",
      None,
    ),
    demo(
      "tail calls and loops",
      r#"class Main {
  function alternate(a: int, b: int, n: int): int = if n == 0 { a } else { Main.alternate(b, a, n - 1) }
  function rotate(a: int, b: int, c: int, n: int): int = if n == 0 { a * 100 + b * 10 + c } else { Main.rotate(b, c, a, n - 1) }
  function fib(n: int, a: int, b: int): int = if n == 0 { a } else { Main.fib(n - 1, b, a + b) }
  function up(i: int, bound: int, acc: int): int = if i < bound { Main.up(i + 1, bound, acc + i) } else { acc }
  function upTo(i: int, bound: int, acc: int): int = if i <= bound { Main.upTo(i + 2, bound, acc + i * 3 + 1) } else { acc }
  function down(i: int, bound: int, acc: int): int = if i > bound { Main.down(i - 1, bound, acc + i) } else { acc }
  function downTo(i: int, bound: int, acc: int): int = if i >= bound { Main.downTo(i - 3, bound, acc + 1) } else { acc }
  function countUp(i: int, bound: int, acc: int): int = if i <= bound { Main.countUp(i + 2, bound, acc + 1) } else { acc }
  function countDown(i: int, bound: int, acc: int): int = if i > bound { Main.countDown(i - 1, bound, acc + 1) } else { acc }
  function countdown(n: int): unit = { let _ = Process.println(Str.fromInt(n)); if n <= 0 { } else { Main.countdown(n - 1) } }
  function scale(n: int, acc: int): int = if n == 0 { acc * 2 } else { let _ = Process.println(Str.fromInt(acc * 2)); Main.scale(n - 1, acc * 2) }
  function safeDiv(a: int, b: int): int = if b != 0 { a / b } else { 0 }
  function guardedLoop(i: int, b: int, acc: int): int = if i == 3 { acc } else { let _ = Process.println("i" :: Str.fromInt(i)); Main.guardedLoop(i + 1, b, acc + Main.safeDiv(12, b)) }
  function id(x: int): int = if x == 123456789 { Main.id(x - 1) } else { x }
  function main(): unit = {
    let _ = Process.println(Str.fromInt(Main.alternate(10, 20, 2)) :: " " :: Str.fromInt(Main.alternate(10, 20, 3)));
    let _ = Process.println(Str.fromInt(Main.rotate(1, 2, 3, 1)) :: " " :: Str.fromInt(Main.rotate(1, 2, 3, 2)));
    let _ = Process.println(Str.fromInt(Main.fib(10, 0, 1)));
    let _ = Process.println(Str.fromInt(Main.up(0, Main.id(10), 0)) :: " " :: Str.fromInt(Main.upTo(1, Main.id(10), 0)) :: " " :: Str.fromInt(Main.down(10, Main.id(0), 0)) :: " " :: Str.fromInt(Main.downTo(10, Main.id(1), 0)));
    let _ = Process.println(Str.fromInt(Main.up(5, 5, 7)) :: " " :: Str.fromInt(Main.countUp(2147483640, 2147483645, 0)) :: " " :: Str.fromInt(Main.countDown(0 - 2147483640, 0 - 2147483643, 0)));
    let _ = Main.countdown(2);
    let _ = Main.countdown(0);
    let _ = Process.println(Str.fromInt(Main.scale(1, 5)));
    let _ = Process.println(Str.fromInt(Main.safeDiv(7, Main.id(0))) :: " " :: Str.fromInt(Main.safeDiv(7, Main.id(2))));
    let _ = Process.println(Str.fromInt(Main.guardedLoop(0, Main.id(0), 0)) :: " " :: Str.fromInt(Main.guardedLoop(2, Main.id(4), 1)));
  }
}"#,
      "10 20\n231 312\n55\n45 80 55 4\n7 3 3\n2\n1\n0\n0\n10\n20\n0 3\ni0\ni1\ni2\ni2\n0 4",
      None,
    ),
    demo(
      "strings and panics",
      r#"class Main {
  function check(a: Str, b: Str): Str = if a == b { "same" } else if a != b { "different" } else { "neither" }
  function main(): unit = {
    let hello = "Hello World";
    let world = "World";
    let _ = Process.println(hello :: " / " :: world);
    let built = "Wor" :: "ld";
    let _ = Process.println(Main.check(world, built) :: " " :: Main.check(hello, world) :: " " :: Main.check("", ""));
    let _ = Process.println(Str.fromInt(0 - 2147483647) :: " " :: Str.fromInt("1234".toInt() + 1) :: " " :: Str.fromInt("-56".toInt()));
    let _ = Process.println("done: 100% (a+b) [x] {y} $z #tag 'q'");
    let _ = Process.panic<unit>("boom " :: Str.fromInt(6 * 7));
    let _ = Process.println("not reached");
  }
}"#,
      "Hello World / World\nsame different same\n-2147483647 1235 -56\ndone: 100% (a+b) [x] {y} $z #tag 'q'",
      Some("boom 42"),
    ),

    demo(
      "loops that leave during their first iteration",
      r#"class Main {
  function go(n: int): unit = { let _ = Process.println("go"); if n <= 0 { } else { Main.go(n - 1) } }
  function once(n: int): int = { let _ = Process.println("once"); if n <= 0 { 7 } else { Main.once(n - 1) } }
  function show(n: int): unit = { let _ = Process.println(Str.fromInt(n)); if n <= 0 { } else { Main.show(n - 1) } }
  function skip(n: int, acc: int): int = if n >= 10 { acc } else { let _ = Process.println("skip"); Main.skip(n + 1, acc + n) }
  function o6(n: int, flag: bool): int = if n == 0 { 1 } else if flag { 2 } else { Main.o6(n - 1, flag) }
  function o7(n: int, flag: bool): int = if n == 0 { let _ = Process.println("zero"); 1 } else if flag { let _ = Process.println("flag"); 2 } else { Main.o7(n - 1, flag) }
  function main(): unit = {
    let _ = Process.println(Str.fromInt(Main.o6("0".toInt(), true)) :: " " :: Str.fromInt(Main.o6("3".toInt(), true)));
    let _ = Process.println(Str.fromInt(Main.o7("0".toInt(), true) + Main.o7("4".toInt(), true)));
    let _ = Main.go(0);
    let _ = Main.once(0);
    let _ = Process.println(Str.fromInt(Main.once(0)));
    let _ = Main.show(0);
    let _ = Process.println(Str.fromInt(Main.skip(10, 5)));
    let _ = Process.println(Str.fromInt(Main.skip(9, 5)));
  }
}"#,
      "1 2\nzero\nflag\n3\ngo\nonce\nonce\n7\n0\n5\nskip\n14",
      None,
    ),

    demo(
      "enums whose payload is stored unboxed, methods as function values",
      r#"class Box(val v: int) {}
class Point(val x: int, val y: int) {}
class One(Only(Box)) {}
class Shape(Circle(Point), Rect(Point, Point)) {
  method area(): int = match (this) { Circle(p) -> p.x * p.y, Rect(a, b) -> (b.x - a.x) * (b.y - a.y) }
}
class Tree(Leaf(Box), Node(Tree, Tree), Empty) {
  method sum(): int = match (this) { Leaf(b) -> b.v, Node(l, r) -> l.sum() + r.sum(), Empty -> 0 }
}
class Flag(On, Off) {}
class Counter(val n: int) {
  method down(k: int): int = if k == 0 { this.n } else { this.down(k - 1) }
  method plus(k: int): int = this.n + k
}
class Main {
  function show(b: bool): unit = Process.println(if b { "T" } else { "F" })
  function twice(f: (int) -> int, x: int): int = f(f(x))
  function main(): unit = {
    let Only(b) = One.Only(Box.init(5));
    let _ = Process.println(Str.fromInt(b.v));
    let _ = Process.println(Str.fromInt(Shape.Circle(Point.init(3, 4)).area()) :: " " :: Str.fromInt(Shape.Rect(Point.init(1, 1), Point.init(4, 6)).area()));
    let t = Tree.Node(Tree.Leaf(Box.init(1)), Tree.Node(Tree.Empty(), Tree.Leaf(Box.init(41))));
    let _ = Process.println(Str.fromInt(t.sum()));
    let nt = !(9 > b.v);
    let _ = Main.show(nt);
    let _ = Main.show(nt == false);
    let c = Counter.init(9);
    let f = c.down;
    let g = c.plus;
    let _ = Process.println(Str.fromInt(f(3)) :: " " :: Str.fromInt(Main.twice(g, 1)) :: " " :: Str.fromInt(Main.twice(f, 2)));
    let v = Vec.empty<Flag>();
    let _ = v.push(Flag.On());
    let _ = v.push(Flag.Off());
    let _ = Process.println(Str.fromInt(v.length()) :: (match (v.get(1)) { On -> " on", Off -> " off" }));
  }
}"#,
      "5\n12 15\n42\nF\nT\n9 19 9\n2 off",
      None,
    ),

    demo(
      "evaluation order, short-circuit operators, calls whose result is discarded",
      r#"class Main {
  function say(s: Str, v: bool): bool = { let _ = Process.println(s); v }
  function num(s: Str, v: int): int = { let _ = Process.println(s); v }
  function drain(n: int): int = if n == 0 { 5 } else { let _ = Main.drain(n - 1); 0 }
  function count(n: int): int = if n == 0 { 0 } else { let r = Main.count(n - 1); r + 1 }
  function last(n: int): int = if n == 0 { 7 } else { Main.last(n - 1) }
  function show(b: bool): unit = Process.println(if b { "T" } else { "F" })
  function adder(label: Str, k: int): (int) -> int = { let _ = Process.println("make " :: label); (x) -> x + k }
  function main(): unit = {
    let _ = Process.println(Str.fromInt(Main.adder("f", 10)(Main.num("arg a", 1))));
    let _ = Process.println(Str.fromInt(Main.adder("g", 20)(Main.adder("h", 30)(Main.num("arg b", 2)))));
    let _ = Main.show({ let _ = Process.println("left operand evaluated"); false } && Main.say("not evaluated", true));
    let _ = Main.show({ let _ = Process.println("left true"); true } && Main.say("right evaluated", false));
    let _ = Main.show({ let _ = Process.println("left true again"); true } || Main.say("not evaluated either", false));
    let _ = Main.show({ let _ = Process.println("left false"); false } || Main.say("right evaluated too", true));
    let _ = Main.show(Main.say("a", false) && Main.say("b", true) || Main.say("c", true) && !Main.say("d", false));
    let _ = Main.show(Main.say("l1", false) && { let _ = Process.println("right operand must not run"); true });
    let _ = Main.show(Main.say("l2", true) || { let _ = Process.println("right operand must not run either"); false });
    let _ = Main.show(Main.say("l3", true) && { let _ = Process.println("right of and runs"); false });
    let _ = Main.show(Main.say("l4", false) || { let _ = Process.println("right of or runs"); true });
    let _ = Process.println(Str.fromInt(Main.num("x", 1) + Main.num("y", 2) * Main.num("z", 3)));
    let _ = Process.println(Str.fromInt(Main.drain(3)) :: " " :: Str.fromInt(Main.drain(0)) :: " " :: Str.fromInt(Main.count(4)) :: " " :: Str.fromInt(Main.last(4)));
    let _ = Main.num("discarded", 9);
    let t = (Main.num("first", 1), Main.num("second", 2));
    let _ = Process.println(Str.fromInt(t.e0 * 10 + t.e1));
  }
}"#,
      "make f\narg a\n11\nmake g\nmake h\narg b\n52\nleft operand evaluated\nF\nleft true\nright evaluated\nF\nleft true again\nT\nleft false\nright evaluated too\nT\na\nc\nd\nT\nl1\nF\nl2\nT\nl3\nright of and runs\nF\nl4\nright of or runs\nT\nx\ny\nz\n7\n0 5 4 7\ndiscarded\nfirst\nsecond\n12",
      None,
    ),

    demo(
      "generic classes: method references, bounded type parameters, interfaces",
      r#"interface Show { method show(): Str }
class Plain(val n: int) : Show { method show(): Str = "P" :: Str.fromInt(this.n) }
class Box<T>(val v: T) {
  method get(): T = this.v
  method <R> map(f: (T) -> R): Box<R> = Box.init(f(this.v))
}
class Main {
  function apply(f: () -> int): int = f() + 1
  function <T: Show> showIt(t: T): Str = t.show()
  function <T: Show> showBoth(a: T, b: T): Str = a.show() :: "/" :: b.show()
  function main(): unit = {
    let b = Box.init(3);
    let _ = Process.println(Str.fromInt(Main.apply(b.get)));
    let m = b.map<int>;
    let _ = Process.println(Str.fromInt(m((x) -> x * 2).get()));
    let s = Box.init("str").map((x) -> x :: "!");
    let _ = Process.println(s.get());
    let _ = Process.println(Main.showIt(Plain.init(1)) :: " " :: Main.showBoth(Plain.init(2), Plain.init(3)));
  }
}"#,
      "4\n6\nstr!\nP1 P2/P3",
      None,
    ),

    demo(
      "loops whose guard, strides and carried values meet the loop optimizations",
      r#"class Main {
  function show(b: bool): unit = Process.println(if b { "T" } else { "F" })
  function guardAgain(i: int, n: int): unit = if i >= n { } else { let _ = Main.show(i >= n); let _ = Process.println(Str.fromInt(i)); Main.guardAgain(i + 1, n) }
  function derived(i: int, n: int, a: int, b: int): unit = if i >= n { } else { let t = (i + 1) * b; let _ = Process.println(Str.fromInt(t)); Main.derived(i + a, n, a, b) }
  function carried(n: int, v: int): unit = if n <= 0 { } else { let _ = Process.println(Str.fromInt(v)); Main.carried(n - 1, v) }
  function countDownBy3(i: int, acc: int): int = if i <= 0 { acc } else { Main.countDownBy3(i - 1, (i - 1) * 3) }
  function upBy(i: int, n: int, s: int, acc: int): int = if i > n { acc } else { Main.upBy(i + s, n, s, acc + i * 2 + 1) }
  function id(x: int): int = if x == 123456789 { Main.id(x - 1) } else { x }
  function main(): unit = {
    let _ = Main.guardAgain(Main.id(0), Main.id(2));
    let _ = Main.derived(Main.id(0), Main.id(5), Main.id(2), Main.id(3));
    let one = Main.id(1);
    let x = one + 2;
    let _ = Main.carried(Main.id(2), x);
    let _ = Main.carried(2, 1 + 2);
    let _ = Process.println(Str.fromInt(Main.countDownBy3(Main.id(10), 30)) :: " " :: Str.fromInt(Main.countDownBy3(10, 30)));
    let _ = Process.println(Str.fromInt(Main.upBy(Main.id(0), Main.id(10), Main.id(2), 0)) :: " " :: Str.fromInt(Main.upBy(0, 10, 5, 0)) :: " " :: Str.fromInt(Main.upBy(1, 10, 3, 0)));
  }
}"#,
      "F\n0\nF\n1\n3\n9\n15\n3\n3\n3\n3\n0 0\n66 33 48",
      None,
    ),

    demo(
      "values that live only in loop variables, nested loops, mutual recursion, vector equality",
      r#"class Main {
  function again(i: int, n: int, s: Str): unit = if i >= n { } else { let _ = Process.println(s); Main.again(i + 1, n, "again") }
  function inner(j: int, m: int, a: int): int = if j >= m { a } else { Main.inner(j + 1, m, a + j) }
  function outer(i: int, n: int, seed: int): unit = if i >= n { } else { let _ = Process.println(Str.fromInt(Main.inner(0, i, seed))); Main.outer(i + 1, n, seed) }
  function chained(i: int, n: int, seed: int): unit = if i >= n { } else { let r = Main.inner(0, i, seed); let _ = Process.println(Str.fromInt(r)); Main.chained(i + 1, n, r) }
  function pick(n: int, s: Str): Str = if n <= 0 { s } else { Main.pick2(n - 1, s) }
  function pick2(n: int, s: Str): Str = if n <= 0 { s } else { Main.pick(n - 2, s) }
  function doubles(i: int, x: int): unit = if i >= 6 { } else { let _ = Process.println(Str.fromInt(x * 2 + 1)); Main.doubles(i + 1, x * 2 + 1) }
  function vec(n: int): Vec<int> = { let v = Vec.empty<int>(); let _ = Main.fill(v, 1, n); v }
  function fill(v: Vec<int>, i: int, n: int): unit = if i > n { } else { let _ = v.push(i); Main.fill(v, i + 1, n) }
  function say(label: Str, b: bool): unit = Process.println(label :: (if b { " eq" } else { " ne" }))
  function main(): unit = {
    let _ = Main.again(0, "3".toInt(), "first");
    let _ = Main.outer(0, "6".toInt(), "100".toInt());
    let _ = Main.chained(0, "6".toInt(), "100".toInt());
    let _ = Process.println(Main.pick("100".toInt(), "hello") :: " " :: Main.pick2("7".toInt(), "world"));
    let _ = Main.doubles(0, "0".toInt());
    let _ = Main.say("short long", Main.vec(2).eq(Main.vec(3)));
    let _ = Main.say("long short", Main.vec(3).eq(Main.vec(2)));
    let _ = Main.say("same", Main.vec(3).eq(Main.vec(3)));
    let _ = Main.say("empty", Main.vec(0).eq(Main.vec(0)));
    let _ = Main.say("empty short", Main.vec(0).eq(Main.vec(1)));
  }
}"#,
      "first\nagain\nagain\n100\n100\n101\n103\n106\n110\n100\n100\n101\n104\n110\n120\nhello world\n1\n3\n7\n15\n31\n63\nshort long ne\nlong short ne\nsame eq\nempty eq\nempty short ne",
      None,
    ),
    demo(
      "methods that are not inlined and hand `this` on: returned, out of an if-else or match, as a loop value, in a field, captured",
      r#"class Holder(val f: Foo, val n: int) {}
class Opt<T>(None, Some(T)) {}
class Log(val entries: Vec<Str>) {
  method add(n: int): Log = { let _ = this.entries.push(Str.fromInt(n)); this }
  method dump(i: int): unit = if i < this.entries.length() { let _ = Process.println(this.entries.get(i)); this.dump(i + 1) } else {  }
}
class Foo(val a: int) {
  method me(flag: bool): Foo = if flag { Foo.init(1) } else { this }
  method same(n: int): Foo = { let other = this; if n > 0 { other.same(n - 1) } else { other } }
  method boxed(n: int): Holder = Holder.init(this, n)
  method walk(n: int): Foo = if n == 0 { this } else { this.walk(n - 1) }
  method adder(k: int): (int) -> int = (x: int) -> x + this.a + k
  method some(n: int): Opt<Foo> = if n > 0 { Opt.Some(this) } else { Opt.None<Foo>() }
  method pick(o: Opt<Foo>): Foo = match o { None -> this, Some(v) -> v }
}
class Main {
  function main(): unit = {
    let log = Log.init(Vec.empty<Str>()).add(1).add(2).add(3);
    let _ = log.dump(0);
    let f = Foo.init(3);
    let h = f.me;
    let _ = Process.println(Str.fromInt(h("0".toInt() == 1).a));
    let g = f.same;
    let _ = Process.println(Str.fromInt(g(2).a));
    let b = f.boxed;
    let _ = Process.println(Str.fromInt(b(4).f.a + b(5).n));
    let w = f.walk;
    let _ = Process.println(Str.fromInt(w(3).a));
    let ad = f.adder;
    let _ = Process.println(Str.fromInt(ad(10)(100)));
    let so = f.some;
    let _ = Process.println(Str.fromInt(match so(1) { None -> 0, Some(v) -> v.a }));
    let pk = f.pick;
    let _ = Process.println(Str.fromInt(pk(Opt.None<Foo>()).a + pk(Opt.Some(Foo.init(20))).a));
  }
}"#,
      "1\n2\n3\n3\n3\n8\n3\n113\n3\n23",
      None,
    ),
    demo(
      "string constants that live only in a loop (as its exit value, as the start value of a loop inlined into its caller), an exit test behind a nested loop",
      r#"class Main {
  function countdown(i: int, n: int): Str = if i >= n { "liftoff" } else { Main.countdown(i + 1, n) }
  function repeat(i: int, n: int, acc: Str): Str = if i >= n { acc } else { Main.repeat(i + 1, n, acc :: "=") }
  function inner(j: int, m: int, s: int): int = if j >= m { s } else { Main.inner(j + 1, m, s + j) }
  function outer(i: int, acc: int): int = { let t = Main.inner(0, i, acc); if t > 20 { t } else { Main.outer(i + 1, t + 1) } }
  function flip(i: int, n: int, a: Str, b: Str): Str = if i >= n { a } else { Main.flip(i + 1, n, b, a) }
  function main(): unit = {
    let _ = Process.println(Main.flip(0, "3".toInt(), "ping", "pong"));
    let _ = Process.println(Main.countdown(0, "3".toInt()));
    let _ = Process.println(Main.repeat(0, "3".toInt(), ">"));
    let _ = Process.println(Str.fromInt(Main.outer("1".toInt(), 0)));
  }
}"#,
      "pong\nliftoff\n>===\n24",
      None,
    ),
    demo(
      "divisions whose operands do not change inside a loop: the loop never runs (5 / 0, MIN / -1 on run-time values and on constants that cannot be folded are never evaluated) or runs a few times",
      r#"class Main {
  function sumQuot(i: int, n: int, x: int, d: int, acc: int): int = if i >= n { acc } else { Main.sumQuot(i + 1, n, x, d, acc + x / d) }
  function sumNeg(i: int, n: int, x: int, acc: int): int = if i >= n { acc } else { Main.sumNeg(i + 1, n, x, acc + x / (0 - 1)) }
  function sumRem(i: int, n: int, x: int, acc: int): int = if i >= n { acc } else { Main.sumRem(i + 1, n, x, acc + x % 7 + x / 3) }
  function sumConst(i: int, n: int, acc: int): int = if i >= n { acc } else { Main.sumConst(i + 1, n, acc + ((0 - 2147483647) - 1) / (0 - 1)) }
  function sumZero(i: int, n: int, acc: int): int = if i >= n { acc } else { Main.sumZero(i + 1, n, acc + 7 / (1 - 1) + 7 % (2 - 2)) }
  function main(): unit = {
    let zero = "0".toInt();
    let min = (0 - 2147483647) - "1".toInt();
    let _ = Process.println(Str.fromInt(Main.sumQuot(0, zero, 5, zero, 1)));
    let _ = Process.println(Str.fromInt(Main.sumNeg(0, zero, min, 2)));
    let _ = Process.println(Str.fromInt(Main.sumRem(0, 3, 20, 0)));
    let _ = Process.println(Str.fromInt(Main.sumNeg(0, 2, 21, 0)));
    let _ = Process.println(Str.fromInt(Main.sumConst(0, zero, 3)));
    let _ = Process.println(Str.fromInt(Main.sumZero(0, zero, 4)));
  }
}"#,
      "1\n2\n36\n-42\n3\n4",
      None,
    ),
  ]
}

fn cases() -> Vec<Case> {
  let mut v = Vec::new();
  if let Some(c) = sample_case() {
    v.push(c);
  }
  v.extend(hand_written());
  v
}

fn configurations() -> Vec<(String, samlang_optimization::OptimizationConfiguration)> {
  let all = std::env::var("VERIF_TIER").map(|t| t == "thorough").unwrap_or(false);
  let mut v = Vec::new();
  for bits in 0u32..32 {
    let single = bits.count_ones() <= 1 || bits == 31 || bits == 0b10101 || bits == 0b01010;
    if !all && !single {
      continue;
    }
    v.push((
      format!(
        "lvn={} cse={} loop={} inline={} scalar={}",
        bits & 1 != 0,
        bits & 2 != 0,
        bits & 4 != 0,
        bits & 8 != 0,
        bits & 16 != 0
      ),
      samlang_optimization::OptimizationConfiguration {
        does_perform_local_value_numbering: bits & 1 != 0,
        does_perform_common_sub_expression_elimination: bits & 2 != 0,
        does_perform_loop_optimization: bits & 4 != 0,
        does_perform_inlining: bits & 8 != 0,
        does_perform_scalar_replacement: bits & 16 != 0,
      },
    ));
  }
  v
}

#[test]
fn verif_witness_search_exec_backends() {
  let Some(node) = find_node() else {
    println!("WITNESS-SEARCH: no violating history found (no node >= 22.6 found: nothing was executed)");
    return;
  };
  let w = Workdir::new("backends");
  let mut n = 0;
  for (name, modules, entry, _, _) in cases() {
    let mut p = match front_end(&modules, &entry) {
      Ok(p) => p,
      Err(e) => {
        println!("WITNESS-SEARCH-BROKEN: {name} is rejected: {}", e.lines().take(6).collect::<Vec<_>>().join(" "));
        return;
      }
    };
    let c = back_end(&mut p, Some(&samlang_optimization::ALL_ENABLED_CONFIGURATION));
    let ts = normalized(&run_ts(&node, &w, &p, &c));
    let wasm = normalized(&run_wasm(&node, &w, &p, &c));
    n += 1;
    if ts != wasm {
      println!("WITNESS: {name}: the emitted TypeScript and the emitted WebAssembly behave differently (TypeScript vs WebAssembly): {}", first_difference(&ts, &wasm));
      return;
    }
  }
  println!("WITNESS-SEARCH: no violating history found ({n} programs executed under both back ends)");
}

#[test]
fn verif_witness_search_exec_semantics() {
  let Some(node) = find_node() else {
    println!("WITNESS-SEARCH: no violating history found (no node >= 22.6 found: nothing was executed)");
    return;
  };
  let w = Workdir::new("semantics");
  let mut n = 0;
  for (name, modules, entry, expected, failure) in cases() {
    let Some(expected) = expected else { continue };
    let mut p = match front_end(&modules, &entry) {
      Ok(p) => p,
      Err(e) => {
        println!("WITNESS-SEARCH-BROKEN: {name} is rejected: {}", e.lines().take(6).collect::<Vec<_>>().join(" "));
        return;
      }
    };
    let c = back_end(&mut p, Some(&samlang_optimization::ALL_ENABLED_CONFIGURATION));
    let wasm = normalized(&run_wasm(&node, &w, &p, &c));
    let want = Outcome { lines: expected, failure: failure.map(expected_failure) };
    n += 1;
    if wasm != want {
      println!("WITNESS: {name}: the compiled WebAssembly does not behave as the source program prescribes (WebAssembly vs expected): {}", first_difference(&wasm, &want));
      return;
    }
  }
  println!("WITNESS-SEARCH: no violating history found ({n} programs executed and compared with their expected output)");
}

#[test]
fn verif_witness_search_exec_optimizer() {
  let Some(node) = find_node() else {
    println!("WITNESS-SEARCH: no violating history found (no node >= 22.6 found: nothing was executed)");
    return;
  };
  let w = Workdir::new("optimizer");
  let (mut n, mut skipped) = (0, 0);
  for (name, modules, entry, expected, failure) in cases() {
    let mut p = match front_end(&modules, &entry) {
      Ok(p) => p,
      Err(e) => {
        println!("WITNESS-SEARCH-BROKEN: {name} is rejected: {}", e.lines().take(6).collect::<Vec<_>>().join(" "));
        return;
      }
    };
    // what the program must do: its stated expected output, else what the unoptimized program does
    let reference = match expected {
      Some(lines) => Outcome { lines, failure: failure.map(expected_failure) },
      None => {
        let plain = back_end(&mut p, None);
        let r = run_wasm(&node, &w, &p, &plain);
        if r.failure.as_ref().is_some_and(|m| m.contains("CompileError")) {
          skipped += 1;
          continue;
        }
        normalized(&r)
      }
    };
    for (label, configuration) in configurations() {
      let c = back_end(&mut p, Some(&configuration));
      let r = run_wasm(&node, &w, &p, &c);
      // a module that does not validate is a failure like any other (before fix fe037dc some programs needed inlining to validate)
      let got = normalized(&r);
      n += 1;
      if got != reference {
        println!("WITNESS: {name}: optimized with [{label}] the program does not behave as the unoptimized program must (optimized vs required): {}", first_difference(&got, &reference));
        return;
      }
    }
  }
  println!("WITNESS-SEARCH: no violating history found ({n} optimized programs executed and compared with what the unoptimized program does; {skipped} not executable)");
}
