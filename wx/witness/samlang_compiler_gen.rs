// Bounded exploration by GENERATED programs (C01, C02, C04).  A seeded generator writes programs over ints, bools,
// strings and a few data types (a class with two fields and methods, an enum with tag-only and payload variants, a
// generic Opt<T> at int / enum / class / single-variant-enum payloads) — arithmetic with division and remainder by
// literals, comparisons, short-circuit operators, if-else, match and block expressions, destructuring, closures (of
// int and of data type), a method used as a function value, Vec<int> operations, calls of earlier functions,
// tail-recursive loops that carry ints or data values, and `p(label, v)` / `pb(label, v)`, which print their label and
// return v, at random places — together with what the language's evaluation rules make them print (a small interpreter
// of exactly this fragment: operands left to right, `&&` / `||` short-circuit, arguments before the call, one branch
// of an if-else, one arm of a match).  Shapes that are pinned findings (known_findings.json) are left out: loops that
// count down or multiply the counter by a negative literal, negative dividends under TypeScript, Vec<int> elements
// beyond 31 bits, strings with escapes or non-ASCII characters, classes with exactly one field.
// Programs whose evaluation leaves the 32-bit range are discarded (excluded by the properties).  The real pipeline
// compiles each program; node (>= 22.6) runs the outputs:
//   semantics (C01): the WebAssembly output prints the interpreter's lines;
//   backends  (C04): the TypeScript output prints what the WebAssembly output prints;
//   optimizer (C02): every optimizer configuration prints the interpreter's lines.
use super::*;
use samlang_heap::{Heap, ModuleReference};
use std::collections::HashMap;
use std::process::Command;

struct Rng(u64);
impl Rng {
  fn next(&mut self) -> u64 {
    self.0 ^= self.0 << 13;
    self.0 ^= self.0 >> 7;
    self.0 ^= self.0 << 17;
    self.0
  }
  fn below(&mut self, n: u64) -> u64 {
    self.next() % n
  }
}

/// the data types of the generated programs (declared in the program's prelude, see `PRELUDE`)
#[derive(Clone, Copy, PartialEq, Debug)]
enum T {
  Pair,
  Color,
  OptInt,
  OptColor,
  OptPair,
  Wrap,
  OptWrap,
  Str,
}
const DATA_TYPES: [T; 8] = [T::Pair, T::Color, T::OptInt, T::OptColor, T::OptPair, T::Wrap, T::OptWrap, T::Str];
fn type_text(t: T) -> &'static str {
  match t {
    T::Pair => "Pair",
    T::Color => "Color",
    T::OptInt => "Opt<int>",
    T::OptColor => "Opt<Color>",
    T::OptPair => "Opt<Pair>",
    T::Wrap => "Wrap",
    T::OptWrap => "Opt<Wrap>",
    T::Str => "Str",
  }
}
/// the payload type of an Opt type
fn payload(t: T) -> Option<T> {
  match t {
    T::OptColor => Some(T::Color),
    T::OptPair => Some(T::Pair),
    T::OptWrap => Some(T::Wrap),
    _ => None,
  }
}
const PRELUDE: &str = "interface Sized {\n  method size(): int\n}\nclass Pair(val a: int, val b: int) : Sized {\n  method size(): int = this.a - this.b\n  method sum(): int = this.a + this.b\n  method plus(x: int): int = this.a + x\n  method swap(): Pair = Pair.init(this.b, this.a)\n}\nclass Color(Red, Green, Rgb(int, int)) {}\nclass Opt<T>(None, Some(T)) {}\nclass Wrap(W(Pair)) {}\n";
/// string constants: plain ASCII only (escapes and other characters are a pinned finding of C04); one is a suffix of another
const STRINGS: [&str; 7] = ["", "a", "b", "ab", "World", "Hello World", "Hello"];

#[derive(Clone, PartialEq, Debug)]
enum V {
  Pair(i64, i64),
  Red,
  Green,
  Rgb(i64, i64),
  None,
  SomeI(i64),
  SomeD(Box<V>),
  W(Box<V>),
  Str(String),
}

#[derive(Clone)]
enum I {
  Lit(i64),
  Var(usize),
  Add(Box<I>, Box<I>),
  Sub(Box<I>, Box<I>),
  Mul(Box<I>, Box<I>),
  If(Box<B>, Box<I>, Box<I>),
  Let(Box<I>, Box<I>), // { let x<depth> = e1; e2 } — e2 may use the new variable as Var(n_vars)
  P(i64, Box<I>),
  Call(usize, Vec<I>),
  Loop(usize, Box<I>, Box<I>), // loop function k, bound n (small literal-ish), start accumulator
  /// a value the optimizer cannot know: printed as `"k".toInt()`
  Dyn(i64),
  /// { let _ = e1; e2 }: the first value is discarded, its effects are not
  Seq(Box<I>, Box<I>),
  /// rec function k applied to (n, a, b)
  Rec(usize, Box<I>, Box<I>, Box<I>),
  /// { let c = captured; let g = (y) -> body(c, y); Main.twice(g, arg) }: body over [c, y]
  Twice(Box<I>, Box<I>, Box<I>),
  /// e / k for a literal k other than 0 and -1; with `abs` the dividend is made non-negative first and k is positive
  /// (the TypeScript back end's floor division is a pinned finding of C04)
  Div(Box<I>, i64, bool),
  Mod(Box<I>, i64),
  /// { let d = e2; if d != 0 { e1 / d } else { 0 } }: a division that must stay behind its guard
  GuardedDiv(Box<I>, Box<I>),
  /// { let q = d; q.a } / q.b / q.sum() of a Pair
  Field(Box<D>, u8),
  /// match d { Red -> e1, Green -> e2, Rgb(x, y) -> e3 over [.., x, y] }
  MatchColor(Box<D>, Box<I>, Box<I>, Box<I>),
  /// match d { None -> e1, Some(v) -> e2 over [.., v] } of an Opt<int>
  MatchOptI(Box<D>, Box<I>, Box<I>),
  /// match d { None -> e1, Some(v) -> e2 with the data variable v } of an Opt<Color / Pair / Wrap>
  MatchOptD(Box<D>, T, Box<I>, Box<I>),
  /// match d { W(q) -> e with the data variable q: Pair }
  MatchWrap(Box<D>, Box<I>),
  /// { let q = d; let g = q.plus; Main.twice(g, e) }: a method of an object used as a function value
  MethodValue(Box<D>, Box<I>),
  /// { let { a as u, b as w } = d; e over [.., u, w] }
  Destructure(Box<D>, Box<I>),
  /// { let d = data; e with the data variable d }
  LetD(Box<D>, T, Box<I>),
  /// { let v = Vec.of<int>(e0); let _ = v.push(e1); let _ = v.set(0, e2); ((v.get(0) + v.get(1)) + (v.length() + v.pop())) }
  VecOps(Box<I>, Box<I>, Box<I>),
  /// Main.adder(e1)(e2) with adder(x) = (y) -> x + y: the callee expression is evaluated before the argument
  Curried(Box<I>, Box<I>),
  /// { let (t, u) = (e1, e2); body over [.., t, u] }
  TupleLet(Box<I>, Box<I>, Box<I>),
  /// (if let Some(v) = d { e1 over [.., v] } else { e2 }) of an Opt<int>
  IfLet(Box<D>, Box<I>, Box<I>),
  /// match d { Red | Green -> e1, Rgb(x, y) -> e2 over [.., x, y] }: an or-pattern
  OrMatch(Box<D>, Box<I>, Box<I>),
  /// Main.measure(d, e): a generic function whose type parameter is bounded by an interface that Pair implements: (a - b) + e
  Measure(Box<D>, Box<I>),
}
#[derive(Clone)]
enum B {
  Lit(bool),
  Lt(Box<I>, Box<I>),
  Le(Box<I>, Box<I>),
  Eq(Box<I>, Box<I>),
  Ne(Box<I>, Box<I>),
  And(Box<B>, Box<B>),
  Or(Box<B>, Box<B>),
  Not(Box<B>),
  PB(i64, Box<B>),
  /// { let _ = Main.p(label, 0); b }: a block with an effect as a boolean operand
  Blk(i64, Box<B>),
  /// (s1 == s2) / (s1 != s2) on strings
  StrEq(Box<D>, Box<D>),
  StrNe(Box<D>, Box<D>),
}
/// expressions of a data type; the type is fixed by the generator (`Gen::data`)
#[derive(Clone)]
enum D {
  Var(usize),
  Pair(Box<I>, Box<I>),
  Swap(Box<D>),
  Red,
  Green,
  Rgb(Box<I>, Box<I>),
  NoneOf(T),
  SomeI(Box<I>),
  SomeD(Box<D>),
  W(Box<D>),
  StrLit(usize),
  FromInt(Box<I>),
  Concat(Box<D>, Box<D>),
  If(Box<B>, Box<D>, Box<D>),
  /// { let _ = Main.p(label, 0); d }
  Eff(i64, Box<D>),
  /// Main.mk<k>(a, b)
  Mk(usize, Box<I>, Box<I>),
  /// Main.dloop<k>(0, n, acc)
  LoopD(usize, Box<I>, Box<D>),
  /// { let c = e1; let g = (y: int) -> body over [c, y]; g(e2) }: a closure that returns a data value
  Lam(Box<I>, Box<I>, Box<D>),
  /// match d { Red -> d1, Green -> d2, Rgb(x, y) -> d3 over [.., x, y] }
  MatchColor(Box<D>, Box<D>, Box<D>, Box<D>),
}

struct Program {
  /// plain functions: (number of parameters, body); a body may call functions with a smaller index
  functions: Vec<(usize, I)>,
  /// loop functions loop_k(i, n, acc) = if i >= n { acc } else { loop_k(i + 1, n, step(i, acc)) }: the step expression over (i, acc)
  loops: Vec<I>,
  /// rec_k(n, a, b) = if n >= 0 { base } else if cond { rec_k(n + 1, a1, b1) } else { [let _ =] rec_k(n + 1, a2, b2) [; last] }, all over [n, a, b];
  /// called with n = 0 - count. Counting up against a `<` guard and multiplying by non-negative literals only keeps the generated
  /// programs outside the pinned finding on induction-variable elimination (known_findings.json), which this exploration would
  /// otherwise re-report for every loop counting down
  recs: Vec<RecFn>,
  /// mk_k(a, b): T = body over the ints [a, b]
  makers: Vec<(T, D)>,
  /// dloop_k(a, n, acc: T): T = if a >= n { acc } else { dloop_k(a + 1, n, step over the int [a] and the data variable acc) }
  data_loops: Vec<(T, D)>,
  /// what main prints
  prints: Vec<Print>,
  /// main ends with `let _ = Vec.of<int>(7).get("k".toInt()); let _ = Process.println("end");`: for k other than 0 the
  /// program must stop there with a run-time error although the value read is not used
  last_index: i64,
}
enum Print {
  Int(I),
  Str(D),
}
struct RecFn {
  cond: B,
  base: I,
  arm1: (I, I),
  arm2: (I, I),
  /// Some(e): the second arm discards the result of its self call and yields e
  discard: Option<I>,
}

/// the variables an expression may use
#[derive(Clone)]
struct Scope {
  ints: usize,
  data: Vec<T>,
}
impl Scope {
  fn ints(n: usize) -> Scope {
    Scope { ints: n, data: Vec::new() }
  }
  fn with_ints(&self, n: usize) -> Scope {
    Scope { ints: self.ints + n, data: self.data.clone() }
  }
  fn with_data(&self, t: T) -> Scope {
    let mut data = self.data.clone();
    data.push(t);
    Scope { ints: self.ints, data }
  }
}

struct Gen<'a> {
  rng: &'a mut Rng,
  label: i64,
  n_functions: usize,
  n_loops: usize,
  n_recs: usize,
  makers: Vec<T>,
  data_loops: Vec<T>,
  /// literals become run-time values (main only)
  dynamic: bool,
  /// divisions keep to non-negative dividends and positive divisors (for the comparison of the two back ends)
  nonneg_div: bool,
}

impl<'a> Gen<'a> {
  fn any_data_type(&mut self) -> T {
    DATA_TYPES[self.rng.below(DATA_TYPES.len() as u64) as usize]
  }
  fn int(&mut self, depth: u32, sc: &Scope) -> I {
    let leaf = depth == 0 || self.rng.below(5) == 0;
    if leaf {
      return if sc.ints > 0 && self.rng.below(2) == 0 {
        I::Var(self.rng.below(sc.ints as u64) as usize)
      } else if self.dynamic && self.rng.below(2) == 0 {
        I::Dyn(self.rng.below(10) as i64)
      } else {
        I::Lit(self.rng.below(19) as i64 - 9)
      };
    }
    // a data variable in scope is looked at often: it is what carries structures through loops and closures
    if !sc.data.is_empty() && self.rng.below(3) == 0 {
      let v = self.rng.below(sc.data.len() as u64) as usize;
      return self.consume(D::Var(v), sc.data[v], depth, sc);
    }
    match self.rng.below(31) {
      11 => I::Seq(Box::new(self.int(depth - 1, sc)), Box::new(self.int(depth - 1, sc))),
      12 | 13 if self.n_recs > 0 => {
        let k = self.rng.below(self.n_recs as u64) as usize;
        let n = if self.dynamic { I::Dyn(self.rng.below(5) as i64) } else { I::Lit(self.rng.below(5) as i64) };
        I::Rec(k, Box::new(n), Box::new(self.int(depth - 1, sc)), Box::new(self.int(depth - 1, sc)))
      }
      14 => {
        let captured = self.int(depth - 1, sc);
        let arg = self.int(depth - 1, &sc.with_ints(1));
        let was = self.dynamic;
        self.dynamic = false;
        let body = self.int(2, &Scope::ints(2));
        self.dynamic = was;
        I::Twice(Box::new(captured), Box::new(arg), Box::new(body))
      }
      0 | 1 => I::Add(Box::new(self.int(depth - 1, sc)), Box::new(self.int(depth - 1, sc))),
      2 => I::Sub(Box::new(self.int(depth - 1, sc)), Box::new(self.int(depth - 1, sc))),
      3 => I::Mul(Box::new(self.int(depth - 1, sc)), Box::new(I::Lit(self.rng.below(4) as i64))),
      4 | 5 => I::If(Box::new(self.boolean(depth - 1, sc)), Box::new(self.int(depth - 1, sc)), Box::new(self.int(depth - 1, sc))),
      6 => I::Let(Box::new(self.int(depth - 1, sc)), Box::new(self.int(depth - 1, &sc.with_ints(1)))),
      7 | 8 => {
        self.label += 1;
        I::P(self.label, Box::new(self.int(depth - 1, sc)))
      }
      9 if self.n_functions > 0 => {
        let f = self.rng.below(self.n_functions as u64) as usize;
        I::Call(f, vec![self.int(depth - 1, sc), self.int(depth - 1, sc)])
      }
      10 if self.n_loops > 0 => {
        let k = self.rng.below(self.n_loops as u64) as usize;
        I::Loop(k, Box::new(I::Lit(self.rng.below(5) as i64)), Box::new(self.int(depth - 1, sc)))
      }
      15 => {
        const POSITIVE: [i64; 8] = [1, 2, 3, 4, 7, 8, 16, 65536];
        const ANY: [i64; 10] = [1, 2, 3, 4, 7, 8, 16, 65536, -2, -3];
        if self.nonneg_div {
          I::Div(Box::new(self.int(depth - 1, sc)), POSITIVE[self.rng.below(8) as usize], true)
        } else if self.rng.below(5) == 0 {
          // a quotient divided again: the two divisors must not be multiplied into one that wraps around
          I::Div(Box::new(I::Div(Box::new(self.int(depth - 1, sc)), 65536, false)), 65536, false)
        } else {
          I::Div(Box::new(self.int(depth - 1, sc)), ANY[self.rng.below(10) as usize], false)
        }
      }
      16 => {
        const ANY: [i64; 9] = [2, 3, 4, 7, 8, 16, 65536, -2, -3];
        I::Mod(Box::new(self.int(depth - 1, sc)), ANY[self.rng.below(9) as usize])
      }
      17 if !self.nonneg_div => I::GuardedDiv(Box::new(self.int(depth - 1, sc)), Box::new(self.int(depth - 1, sc))),
      26 => I::TupleLet(Box::new(self.int(depth - 1, sc)), Box::new(self.int(depth - 1, sc)), Box::new(self.int(depth - 1, &sc.with_ints(2)))),
      27 => {
        let d = self.data(T::OptInt, depth - 1, sc);
        I::IfLet(Box::new(d), Box::new(self.int(depth - 1, &sc.with_ints(1))), Box::new(self.int(depth - 1, sc)))
      }
      28 => {
        let d = self.data(T::Color, depth - 1, sc);
        I::OrMatch(Box::new(d), Box::new(self.int(depth - 1, sc)), Box::new(self.int(depth - 1, &sc.with_ints(2))))
      }
      29 => {
        let d = self.data(T::Pair, depth - 1, sc);
        I::Measure(Box::new(d), Box::new(self.int(depth - 1, sc)))
      }
      25 => I::Curried(Box::new(self.int(depth - 1, sc)), Box::new(self.int(depth - 1, sc))),
      18 => I::VecOps(Box::new(self.int(depth - 1, sc)), Box::new(self.int(depth - 1, sc)), Box::new(self.int(depth - 1, sc))),
      19 => {
        let t = self.any_data_type();
        let d = self.data(t, depth - 1, sc);
        I::LetD(Box::new(d), t, Box::new(self.int(depth - 1, &sc.with_data(t))))
      }
      20..=24 => {
        let t = self.any_data_type();
        let d = self.data(t, depth - 1, sc);
        self.consume(d, t, depth, sc)
      }
      _ => I::Add(Box::new(self.int(depth - 1, sc)), Box::new(I::Lit(1))),
    }
  }
  /// an int expression that looks at the data value d of type t
  fn consume(&mut self, d: D, t: T, depth: u32, sc: &Scope) -> I {
    let depth = depth.max(1);
    match t {
      T::Pair => match self.rng.below(5) {
        0 => I::MethodValue(Box::new(d), Box::new(self.int(depth - 1, sc))),
        1 => I::Destructure(Box::new(d), Box::new(self.int(depth - 1, &sc.with_ints(2)))),
        k => I::Field(Box::new(d), (k - 2) as u8),
      },
      T::Color => I::MatchColor(Box::new(d), Box::new(self.int(depth - 1, sc)), Box::new(self.int(depth - 1, sc)), Box::new(self.int(depth - 1, &sc.with_ints(2)))),
      T::OptInt => I::MatchOptI(Box::new(d), Box::new(self.int(depth - 1, sc)), Box::new(self.int(depth - 1, &sc.with_ints(1)))),
      T::OptColor | T::OptPair | T::OptWrap => {
        let inner = payload(t).unwrap();
        let inner_scope = sc.with_data(inner);
        // the Some arm looks at its payload most of the time
        let some = if self.rng.below(4) != 0 { self.consume(D::Var(inner_scope.data.len() - 1), inner, depth - 1, &inner_scope) } else { self.int(depth - 1, &inner_scope) };
        I::MatchOptD(Box::new(d), inner, Box::new(self.int(depth - 1, sc)), Box::new(some))
      }
      T::Wrap => {
        let inner_scope = sc.with_data(T::Pair);
        let arm = self.consume(D::Var(inner_scope.data.len() - 1), T::Pair, depth - 1, &inner_scope);
        I::MatchWrap(Box::new(d), Box::new(arm))
      }
      T::Str => {
        // often the other string has the same content but is another object
        let other = if self.rng.below(3) == 0 { D::Concat(Box::new(d.clone()), Box::new(D::StrLit(0))) } else { self.data(T::Str, depth - 1, sc) };
        let c = if self.rng.below(2) == 0 { B::StrEq(Box::new(d), Box::new(other)) } else { B::StrNe(Box::new(d), Box::new(other)) };
        I::If(Box::new(c), Box::new(self.int(depth - 1, sc)), Box::new(self.int(depth - 1, sc)))
      }
    }
  }
  fn data(&mut self, t: T, depth: u32, sc: &Scope) -> D {
    let candidates = sc.data.iter().enumerate().filter(|(_, x)| **x == t).map(|(i, _)| i).collect::<Vec<_>>();
    if !candidates.is_empty() && self.rng.below(if depth == 0 { 2 } else { 4 }) == 0 {
      return D::Var(candidates[self.rng.below(candidates.len() as u64) as usize]);
    }
    if depth > 0 {
      let makers = self.makers.iter().enumerate().filter(|(_, x)| **x == t).map(|(i, _)| i).collect::<Vec<_>>();
      let loops = self.data_loops.iter().enumerate().filter(|(_, x)| **x == t).map(|(i, _)| i).collect::<Vec<_>>();
      match self.rng.below(12) {
        0 | 1 => return D::If(Box::new(self.boolean(depth - 1, sc)), Box::new(self.data(t, depth - 1, sc)), Box::new(self.data(t, depth - 1, sc))),
        2 => {
          self.label += 1;
          return D::Eff(self.label, Box::new(self.data(t, depth - 1, sc)));
        }
        3 | 4 if !makers.is_empty() => {
          let k = makers[self.rng.below(makers.len() as u64) as usize];
          return D::Mk(k, Box::new(self.int(depth - 1, sc)), Box::new(self.int(depth - 1, sc)));
        }
        5 | 6 if !loops.is_empty() => {
          let k = loops[self.rng.below(loops.len() as u64) as usize];
          return D::LoopD(k, Box::new(I::Lit(self.rng.below(5) as i64)), Box::new(self.data(t, depth - 1, sc)));
        }
        7 => {
          let captured = self.int(depth - 1, sc);
          let arg = self.int(depth - 1, &sc.with_ints(1));
          let was = self.dynamic;
          self.dynamic = false;
          let body = self.data(t, 2, &Scope::ints(2));
          self.dynamic = was;
          return D::Lam(Box::new(captured), Box::new(arg), Box::new(body));
        }
        8 => {
          let c = self.data(T::Color, depth - 1, sc);
          return D::MatchColor(Box::new(c), Box::new(self.data(t, depth - 1, sc)), Box::new(self.data(t, depth - 1, sc)), Box::new(self.data(t, depth - 1, &sc.with_ints(2))));
        }
        _ => {}
      }
    }
    let d = depth.saturating_sub(1);
    match t {
      T::Pair => {
        if depth > 0 && self.rng.below(4) == 0 {
          D::Swap(Box::new(self.data(T::Pair, d, sc)))
        } else {
          D::Pair(Box::new(self.int(d, sc)), Box::new(self.int(d, sc)))
        }
      }
      T::Color => match self.rng.below(4) {
        0 => D::Red,
        1 => D::Green,
        _ => D::Rgb(Box::new(self.int(d, sc)), Box::new(self.int(d, sc))),
      },
      T::OptInt => {
        if self.rng.below(3) == 0 { D::NoneOf(t) } else { D::SomeI(Box::new(self.int(d, sc))) }
      }
      T::OptColor | T::OptPair | T::OptWrap => {
        if self.rng.below(3) == 0 { D::NoneOf(t) } else { D::SomeD(Box::new(self.data(payload(t).unwrap(), d, sc))) }
      }
      T::Wrap => D::W(Box::new(self.data(T::Pair, d, sc))),
      T::Str => match self.rng.below(if depth == 0 { 2 } else { 4 }) {
        0 => D::StrLit(self.rng.below(STRINGS.len() as u64) as usize),
        1 => D::FromInt(Box::new(self.int(d, sc))),
        _ => D::Concat(Box::new(self.data(T::Str, d, sc)), Box::new(self.data(T::Str, d, sc))),
      },
    }
  }
  fn boolean(&mut self, depth: u32, sc: &Scope) -> B {
    if depth == 0 {
      return B::Lit(self.rng.below(2) == 0);
    }
    match self.rng.below(13) {
      10 | 11 => {
        self.label += 1;
        B::Blk(self.label, Box::new(if self.rng.below(2) == 0 { B::Lit(self.rng.below(2) == 0) } else { self.boolean(depth - 1, sc) }))
      }
      12 => {
        let a = self.data(T::Str, depth - 1, sc);
        let b = if self.rng.below(3) == 0 { D::Concat(Box::new(D::StrLit(0)), Box::new(a.clone())) } else { self.data(T::Str, depth - 1, sc) };
        if self.rng.below(2) == 0 { B::StrEq(Box::new(a), Box::new(b)) } else { B::StrNe(Box::new(a), Box::new(b)) }
      }
      0 => B::Lt(Box::new(self.int(depth - 1, sc)), Box::new(self.int(depth - 1, sc))),
      1 => B::Le(Box::new(self.int(depth - 1, sc)), Box::new(self.int(depth - 1, sc))),
      2 => B::Eq(Box::new(self.int(depth - 1, sc)), Box::new(self.int(depth - 1, sc))),
      3 => B::Ne(Box::new(self.int(depth - 1, sc)), Box::new(self.int(depth - 1, sc))),
      4 | 5 => B::And(Box::new(self.boolean(depth - 1, sc)), Box::new(self.boolean(depth - 1, sc))),
      6 | 7 => B::Or(Box::new(self.boolean(depth - 1, sc)), Box::new(self.boolean(depth - 1, sc))),
      8 => B::Not(Box::new(self.boolean(depth - 1, sc))),
      _ => {
        self.label += 1;
        B::PB(self.label, Box::new(self.boolean(depth - 1, sc)))
      }
    }
  }
}

fn generate(rng: &mut Rng, nonneg_div: bool) -> Program {
  let mut g = Gen { rng, label: 0, n_functions: 0, n_loops: 0, n_recs: 0, makers: Vec::new(), data_loops: Vec::new(), dynamic: false, nonneg_div };
  let mut functions = Vec::new();
  let mut loops = Vec::new();
  let mut recs = Vec::new();
  let mut makers = Vec::new();
  let mut data_loops = Vec::new();
  for k in 0..16 {
    if k % 8 == 1 || k % 8 == 5 {
      let t = g.any_data_type();
      let body = g.data(t, 3, &Scope::ints(2));
      makers.push((t, body));
      g.makers.push(t);
    } else if k % 8 == 6 {
      let t = g.any_data_type();
      let step = g.data(t, 3, &Scope::ints(1).with_data(t));
      data_loops.push((t, step));
      g.data_loops.push(t);
    } else if k % 4 == 2 {
      let step = g.int(2, &Scope::ints(2));
      loops.push(step);
      g.n_loops = loops.len();
    } else if k % 4 == 3 {
      let sc = Scope::ints(3);
      let cond = g.boolean(2, &sc);
      let base = g.int(2, &sc);
      let arm1 = (g.int(2, &sc), g.int(2, &sc));
      // often the two accumulators change places
      let arm2 = if g.rng.below(2) == 0 { (I::Var(2), I::Var(1)) } else { (g.int(2, &sc), g.int(2, &sc)) };
      let discard = if g.rng.below(3) == 0 { Some(g.int(1, &sc)) } else { None };
      recs.push(RecFn { cond, base, arm1, arm2, discard });
      g.n_recs = recs.len();
    } else {
      let body = g.int(3, &Scope::ints(2));
      functions.push((2, body));
      g.n_functions = functions.len();
    }
  }
  g.dynamic = true;
  let prints = (0..24)
    .map(|k| if k % 6 == 5 { Print::Str(g.data(T::Str, 3, &Scope::ints(0))) } else { Print::Int(g.int(4, &Scope::ints(0))) })
    .collect();
  let last_index = g.rng.below(3) as i64;
  Program { functions, loops, recs, makers, data_loops, prints, last_index }
}

// ---- the text
struct Names {
  ints: Vec<String>,
  data: Vec<String>,
  fresh: usize,
}
impl Names {
  fn of(ints: &[&str], data: &[&str], fresh: usize) -> Names {
    Names { ints: ints.iter().map(|s| s.to_string()).collect(), data: data.iter().map(|s| s.to_string()).collect(), fresh }
  }
  fn fresh(&mut self) -> usize {
    self.fresh += 1;
    self.fresh
  }
}
// ---- single faults (C06): a position that must hold an int (an operand of + - * % < <=, an argument of a function or a
// constructor) or a bool (a condition, an operand of && || !) can be given something that is not one; whatever the fault
// is, the program is ill-typed or ill-formed there and must be rejected
#[derive(Default)]
struct FaultState {
  /// (site, which fault) to plant while the text is written
  target: Option<(usize, usize)>,
  seen: usize,
  planted: Option<String>,
}
thread_local! {
  static FAULT: std::cell::RefCell<FaultState> = std::cell::RefCell::new(FaultState::default());
}
/// faults for a position that must hold an int; `{}` is the well-typed text of the position
const INT_FAULTS: [(&str, &str); 43] = [
  ("a bool where an int is required", "true"),
  ("a string where an int is required", "\"s\""),
  ("an enum value where an int is required", "Color.Red()"),
  ("an object where an int is required", "Pair.init({}, 1)"),
  ("a function value where an int is required", "Main.adder({})"),
  ("a lambda where an int is required", "((y9: int) -> {})"),
  ("an unbound variable", "zz9"),
  ("an unknown function of a known class", "Main.nope({})"),
  ("an unknown class", "Missing9.make({})"),
  ("a call with too few arguments", "Main.p({})"),
  ("a call with too many arguments", "Main.p(1, {}, 2)"),
  ("an argument of the wrong type", "Main.p(true, {})"),
  ("an unknown field", "Pair.init({}, 1).c"),
  ("an unknown method", "Pair.init({}, 1).missing()"),
  ("a method called with too few arguments", "Pair.init({}, 1).plus()"),
  ("an else-if branch of another type", "(if false { 0 } else if true { true } else { {} })"),
  ("a match without the arm of a payload variant", "(match Color.Red() { Red -> {}, Green -> 0 })"),
  ("a match without the arm of a tag-only variant", "(match Opt.Some({}) { Some(v9) -> v9 })"),
  ("a match with an arm of an unknown variant", "(match Color.Red() { Red -> {}, Green -> 0, Rgb(r9, s9) -> r9, Blue -> 1 })"),
  ("a variant pattern with too many bindings", "(match Color.Rgb({}, 1) { Red -> 0, Green -> 0, Rgb(r9, s9, t9) -> r9 })"),
  ("an unknown class in a parameter annotation", "{ let g9 = (y9: Missing9) -> 1; {} }"),
  ("a tuple pattern on an int", "{ let (a9, b9) = {}; a9 }"),
  ("an object pattern naming an unknown field", "{ let { a as a9, c as c9 } = Pair.init({}, 1); a9 }"),
  ("a call of something that is not a function", "{ let n9 = {}; n9(1) }"),
  ("an else-if branch of another type, nothing expected", "{ let q9 = (if false { 0 } else if true { true } else { {} }); 1 }"),
  ("if-else branches of different types, nothing expected", "{ let q9 = (if false { \"s\" } else { {} }); 1 }"),
  ("match arms of different types, nothing expected", "{ let q9 = (match Color.Red() { Red -> {}, Green -> true, Rgb(r9, s9) -> 0 }); 1 }"),
  ("a literal beyond the 32-bit range", "({} + 2147483648)"),
  ("a literal beyond the 32-bit range", "({} + 4294967296)"),
  ("a negative literal beyond the 32-bit range", "({} + -2147483649)"),
  ("a literal beyond the 64-bit range", "({} + 99999999999999999999)"),
  ("a pattern variable of if-let used in the else branch", "(if let Some(v9) = Opt.Some({}) { v9 } else { v9 })"),
  ("an unknown class as an explicit type argument", "(match Opt.None<Missing9>() { None -> {}, Some(v9) -> 0 })"),
  ("an unknown class as the result of a function type annotation", "{ let g9 = (f9: (int) -> Missing9) -> 1; {} }"),
  ("too many type arguments", "(match Opt.None<int, int>() { None -> {}, Some(v9) -> 0 })"),
  ("a value that does not satisfy the bound of a type parameter", "Sorter9.first(Pair.init({}, 1), Pair.init(1, 2))"),
  ("class objects where instances that satisfy a bound are required", "{ let n9 = {}; Sorter9.first(Boxed9, Boxed9) }"),
  ("a private function of a class of another module", "({} + Helper9.hid9())"),
  ("a private method of a class of another module that has the name of this class", "({} + Factory9.get9().secret9())"),
  ("a private field read outside its class", "({} + Secret9.make9().hidden)"),
  ("an else-if chain of another type than the first branch", "(if false { {} } else if true { \"a\" } else { \"b\" })"),
  ("a generic function used as a value at a type that violates its bound", "{ let h9: (Pair, Pair) -> int = Sorter9.first; {} }"),
  ("a class object where the bound of the type parameter is that class", "{ let n9 = {}; Sorter9.same(Boxed9) }"),
];
/// a module of its own that only declares an interface and imports nothing, naming an unknown class
const INTERFACE_ONLY_MODULE: &str = "interface Lonely9 { method m(): Missing9 }\n";
/// declarations that are ill-formed on their own: appended to an accepted program
const DECL_FAULTS: [(&str, &str); 18] = [
  ("an unbounded type parameter passed where a bound is required", "class Bad9 { function <T> pass(a: T, b: T): int = Sorter9.first(a, b) }"),
  ("a class that does not implement a method of its interface", "class Bad9 : Cmp9<Bad9> { }"),
  ("a method whose signature differs from the interface's", "class Bad9 : Cmp9<Bad9> { method cmp(other: int): int = 0 }"),
  ("an interface that names an unknown class", "interface Bad9 { method m(): Missing9 }"),
  ("an interface that extends another with too many type arguments", "interface Bad9 : Cmp9<int, int> { }"),
  ("an interface that extends an unknown interface", "interface Bad9 : Missing9 { }"),
  ("a function whose body has another type than declared", "class Bad9 { function f(x: int): bool = x }"),
  ("a function that returns a value of a type parameter's type from a literal", "class Bad9<T> { function <T> f(): T = 1 }"),
  ("two members of the same name", "class Bad9 { function f(): int = 1 function f(): int = 2 }"),
  ("two variants of the same name", "class Bad9(A9(int), A9(bool)) { }"),
  ("a local that takes the name of another", "class Bad9 { function f(): int = { let x9 = 1; let x9 = 2; x9 } }"),
  ("a private function used from another class", "class Bad9 { private function hid(): int = 1 } class Use9 { function g(): int = Bad9.hid() }"),
  ("a class of a name that is already taken", "class Pair(val z: int) { }"),
  ("an object pattern with a refutable sub-pattern in front of another field", "class Item9(val tag: Opt<int>, val weight: int) { function total(item: Item9): int = { let { tag as Some(n9), weight } = item; n9 + weight } }"),
  ("an object pattern with a refutable sub-pattern behind another field", "class Item9(val tag: Opt<int>, val weight: int) { function total(item: Item9): int = { let { weight, tag as Some(n9) } = item; n9 + weight } }"),
  ("a match over object patterns, fields in different orders, that leaves a case out", "class Range9(val lo: Opt<int>, val hi: Opt<int>) { function bound(r: Range9): int = match r { { lo as Some(a9), hi as _ } -> a9, { hi as None, lo as _ } -> 0 } }"),
  ("a match over tuples that leaves a case out", "class Bad9 { function f(a: Opt<int>, b: Color): int = match (a, b) { (Some(x9), _) -> x9, (None, Red) -> 0, (None, Green) -> 1 } }"),
  ("a member of a generic interface inherited at two instantiations, implemented at one", "interface Source9<T> { method get(): T } interface Counter9 : Source9<int> { method bump(): int } interface Meter9 : Source9<Str> { method label(): Str } class Gauge9(val v: int) : Counter9, Meter9 { method get(): int = this.v method bump(): int = this.v + 1 method label(): Str = \"kg\" }"),
];
/// faults the pinned tree is known to accept (known_findings.json): reported apart from the verdict, as PINNED-FINDING lines
const PINNED_DECL_FAULTS: [(&str, &str, &str); 1] = [(
  "a_type_parameter_given_type_arguments",
  "a type parameter used with type arguments, which it does not take",
  "class Bad9 { function <T> f(a: T<int>): int = 1 }",
)];
/// import lines that are wrong on their own: put in front of an accepted program
const IMPORT_FAULTS: [(&str, &str); 4] = [
  ("an import of a class the module does not have", "import { Missing9 } from Lib;"),
  ("an import from a module that does not exist", "import { Helper9 } from Nowhere9;"),
  ("a second import line from the same module naming a class it does not have", "import { Secret9 } from Lib;\nimport { Missing9 } from Lib;"),
  ("an import of a private class", "import { Hidden9 } from Lib;"),
];
/// the other module of every program of the rejection search
const LIB_MODULE: &str = "class Helper9 {\n  function pub9(): int = 1\n  private function hid9(): int = 2\n}\nclass Main(val k: int) {\n  private method secret9(): int = this.k\n  function make9(): Main = Main.init(7)\n}\nclass Factory9 {\n  function get9(): Main = Main.make9()\n}\nclass Secret9(private val hidden: int) {\n  function make9(): Secret9 = Secret9.init(3)\n}\nprivate class Hidden9 {\n  function f(): int = 1\n}\n";
/// what the rejection search puts in front of / behind the generated program (all well-formed)
const REJECTS_IMPORTS: &str = "import { Helper9, Factory9, Secret9 } from Lib;\n";
const REJECTS_DECLARATIONS: &str = "interface Cmp9<T> { method cmp(other: T): int }\nclass Boxed9(val v: int) : Cmp9<Boxed9> {\n  method cmp(other: Boxed9): int = this.v - other.v\n}\nclass Sorter9 {\n  function <C: Cmp9<C>> first(a: C, b: C): int = a.cmp(b)\n  function <B: Boxed9> same(x: B): int = 1\n  function use9(): int = Sorter9.same(Boxed9.init(5)) + Sorter9.first(Boxed9.init(1), Boxed9.init(2)) + Helper9.pub9() + Factory9.get9().k\n}\n";
const BOOL_FAULTS: [(&str, &str); 5] = [
  ("an int where a bool is required", "1"),
  ("a string where a bool is required", "\"s\""),
  ("an unbound variable", "zz9"),
  ("a comparison of an int with a bool", "(1 == ({}))"),
  ("an ordering of bools", "(({}) < true)"),
];
fn site(text: String, faults: &[(&str, &str)]) -> String {
  FAULT.with(|f| {
    let mut f = f.borrow_mut();
    let k = f.seen;
    f.seen += 1;
    match f.target {
      Some((at, which)) if at == k => {
        let (what, template) = faults[which % faults.len()];
        f.planted = Some(format!("{what}: `{}`", template.replace("{}", "..")));
        template.replace("{}", &text)
      }
      _ => text,
    }
  })
}
fn strict_int(e: &I, n: &mut Names) -> String {
  let text = int_text(e, n);
  site(text, &INT_FAULTS)
}
fn strict_bool(e: &B, n: &mut Names) -> String {
  let text = bool_text(e, n);
  site(text, &BOOL_FAULTS)
}
/// the number of fault sites of a program
fn count_sites(p: &Program) -> usize {
  FAULT.with(|f| *f.borrow_mut() = FaultState::default());
  let _ = program_text(p);
  FAULT.with(|f| std::mem::take(&mut *f.borrow_mut()).seen)
}
/// the program with one fault planted, and what the fault is
fn program_text_with_fault(p: &Program, at: usize, which: usize) -> (String, String) {
  FAULT.with(|f| *f.borrow_mut() = FaultState { target: Some((at, which)), seen: 0, planted: None });
  let text = program_text(p);
  let state = FAULT.with(|f| std::mem::take(&mut *f.borrow_mut()));
  (text, state.planted.expect("the site exists"))
}

fn int_text(e: &I, n: &mut Names) -> String {
  match e {
    I::Lit(k) => if *k < 0 { format!("(0 - {})", -k) } else { k.to_string() },
    I::Dyn(k) => format!("\"{k}\".toInt()"),
    I::Var(v) => n.ints[*v].clone(),
    I::Add(a, b) => format!("({} + {})", strict_int(a, n), strict_int(b, n)),
    I::Sub(a, b) => format!("({} - {})", strict_int(a, n), strict_int(b, n)),
    I::Mul(a, b) => format!("({} * {})", strict_int(a, n), strict_int(b, n)),
    I::If(c, t, f) => format!("(if {} {{ {} }} else {{ {} }})", strict_bool(c, n), int_text(t, n), int_text(f, n)),
    I::Let(v, body) => {
      let value = int_text(v, n);
      let name = format!("x{}", n.fresh());
      n.ints.push(name.clone());
      let inner = int_text(body, n);
      n.ints.pop();
      format!("{{ let {name} = {value}; {inner} }}")
    }
    I::Seq(a, b) => format!("{{ let _ = {}; {} }}", int_text(a, n), int_text(b, n)),
    I::P(l, v) => format!("Main.p({l}, {})", strict_int(v, n)),
    I::Call(f, args) => format!("Main.f{f}({})", args.iter().map(|a| strict_int(a, n)).collect::<Vec<_>>().join(", ")),
    I::Loop(k, bound, acc) => format!("Main.loop{k}(0, {}, {})", strict_int(bound, n), strict_int(acc, n)),
    I::Rec(k, count, a, b) => format!("Main.rec{k}((0 - {}), {}, {})", strict_int(count, n), strict_int(a, n), strict_int(b, n)),
    I::Twice(captured, arg, body) => {
      let c_text = int_text(captured, n);
      let id = n.fresh();
      let (c, g, y) = (format!("c{id}"), format!("g{id}"), format!("y{id}"));
      n.ints.push(c.clone());
      let arg_text = int_text(arg, n);
      n.ints.pop();
      let mut inner = Names { ints: vec![c.clone(), y.clone()], data: Vec::new(), fresh: n.fresh };
      let body_text = int_text(body, &mut inner);
      n.fresh = inner.fresh;
      format!("{{ let {c} = {c_text}; let {g} = ({y}: int) -> {body_text}; Main.twice({g}, {arg_text}) }}")
    }
    I::Div(a, k, abs) => {
      let divisor = if *k < 0 { format!("(0 - {})", -k) } else { k.to_string() };
      if *abs {
        let name = format!("m{}", n.fresh());
        format!("{{ let {name} = {}; ((if {name} < 0 {{ 0 - {name} }} else {{ {name} }}) / {divisor}) }}", int_text(a, n))
      } else {
        format!("({} / {divisor})", int_text(a, n))
      }
    }
    I::Mod(a, k) => format!("({} % {})", strict_int(a, n), if *k < 0 { format!("(0 - {})", -k) } else { k.to_string() }),
    I::GuardedDiv(a, d) => {
      let d_text = int_text(d, n);
      let name = format!("d{}", n.fresh());
      n.ints.push(name.clone());
      let a_text = int_text(a, n);
      n.ints.pop();
      format!("{{ let {name} = {d_text}; (if {name} != 0 {{ ({a_text} / {name}) }} else {{ 0 }}) }}")
    }
    I::Field(d, k) => {
      let d_text = data_text(d, n);
      let name = format!("q{}", n.fresh());
      format!("{{ let {name} = {d_text}; {name}.{} }}", ["a", "b", "sum()"][*k as usize])
    }
    I::MatchColor(d, red, green, rgb) => {
      let d_text = data_text(d, n);
      let (r, g) = (int_text(red, n), int_text(green, n));
      let id = n.fresh();
      let (x, y) = (format!("r{id}"), format!("s{id}"));
      n.ints.push(x.clone());
      n.ints.push(y.clone());
      let b = int_text(rgb, n);
      n.ints.pop();
      n.ints.pop();
      format!("(match {d_text} {{ Red -> {r}, Green -> {g}, Rgb({x}, {y}) -> {b} }})")
    }
    I::MatchOptI(d, none, some) => {
      let d_text = data_text(d, n);
      let none_text = int_text(none, n);
      let v = format!("v{}", n.fresh());
      n.ints.push(v.clone());
      let some_text = int_text(some, n);
      n.ints.pop();
      format!("(match {d_text} {{ None -> {none_text}, Some({v}) -> {some_text} }})")
    }
    I::MatchOptD(d, _, none, some) => {
      let d_text = data_text(d, n);
      let none_text = int_text(none, n);
      let v = format!("w{}", n.fresh());
      n.data.push(v.clone());
      let some_text = int_text(some, n);
      n.data.pop();
      format!("(match {d_text} {{ None -> {none_text}, Some({v}) -> {some_text} }})")
    }
    I::MatchWrap(d, arm) => {
      let d_text = data_text(d, n);
      let v = format!("u{}", n.fresh());
      n.data.push(v.clone());
      let arm_text = int_text(arm, n);
      n.data.pop();
      format!("(match {d_text} {{ W({v}) -> {arm_text} }})")
    }
    I::MethodValue(d, x) => {
      let d_text = data_text(d, n);
      let id = n.fresh();
      let x_text = int_text(x, n);
      format!("{{ let q{id} = {d_text}; let h{id} = q{id}.plus; Main.twice(h{id}, {x_text}) }}")
    }
    I::Destructure(d, body) => {
      let d_text = data_text(d, n);
      let id = n.fresh();
      let (u, w) = (format!("j{id}"), format!("k{id}"));
      n.ints.push(u.clone());
      n.ints.push(w.clone());
      let b = int_text(body, n);
      n.ints.pop();
      n.ints.pop();
      format!("{{ let {{ a as {u}, b as {w} }} = {d_text}; {b} }}")
    }
    I::LetD(d, _, body) => {
      let d_text = data_text(d, n);
      let name = format!("e{}", n.fresh());
      n.data.push(name.clone());
      let b = int_text(body, n);
      n.data.pop();
      format!("{{ let {name} = {d_text}; {b} }}")
    }
    I::Curried(a, b) => format!("Main.adder({})({})", int_text(a, n), int_text(b, n)),
    I::TupleLet(a, b, body) => {
      let (ta, tb) = (int_text(a, n), int_text(b, n));
      let id = n.fresh();
      let (t, u) = (format!("t{id}"), format!("o{id}"));
      n.ints.push(t.clone());
      n.ints.push(u.clone());
      let inner = int_text(body, n);
      n.ints.pop();
      n.ints.pop();
      format!("{{ let ({t}, {u}) = ({ta}, {tb}); {inner} }}")
    }
    I::IfLet(d, some, none) => {
      let d_text = data_text(d, n);
      let v = format!("i{}", n.fresh());
      n.ints.push(v.clone());
      let some_text = int_text(some, n);
      n.ints.pop();
      let none_text = int_text(none, n);
      format!("(if let Some({v}) = {d_text} {{ {some_text} }} else {{ {none_text} }})")
    }
    I::OrMatch(d, plain, rgb) => {
      let d_text = data_text(d, n);
      let p = int_text(plain, n);
      let id = n.fresh();
      let (x, y) = (format!("r{id}"), format!("s{id}"));
      n.ints.push(x.clone());
      n.ints.push(y.clone());
      let b = int_text(rgb, n);
      n.ints.pop();
      n.ints.pop();
      format!("(match {d_text} {{ Red | Green -> {p}, Rgb({x}, {y}) -> {b} }})")
    }
    I::Measure(d, k) => format!("Main.measure({}, {})", data_text(d, n), strict_int(k, n)),
    I::VecOps(e0, e1, e2) => {
      let (t0, t1, t2) = (int_text(e0, n), int_text(e1, n), int_text(e2, n));
      let v = format!("z{}", n.fresh());
      format!("{{ let {v} = Vec.of<int>({t0}); let _ = {v}.push({t1}); let _ = {v}.set(0, {t2}); (({v}.get(0) + {v}.get(1)) + ({v}.length() + {v}.pop())) }}")
    }
  }
}
fn bool_text(e: &B, n: &mut Names) -> String {
  match e {
    B::Lit(b) => b.to_string(),
    B::Lt(a, b) => format!("({} < {})", strict_int(a, n), strict_int(b, n)),
    B::Le(a, b) => format!("({} <= {})", strict_int(a, n), strict_int(b, n)),
    B::Eq(a, b) => format!("({} == {})", int_text(a, n), int_text(b, n)),
    B::Ne(a, b) => format!("({} != {})", int_text(a, n), int_text(b, n)),
    B::And(a, b) => format!("({} && {})", strict_bool(a, n), strict_bool(b, n)),
    B::Or(a, b) => format!("({} || {})", strict_bool(a, n), strict_bool(b, n)),
    B::Not(a) => format!("!({})", strict_bool(a, n)),
    B::PB(l, v) => format!("Main.pb({l}, {})", bool_text(v, n)),
    B::Blk(l, v) => format!("{{ let _ = Main.p({l}, 0); {} }}", bool_text(v, n)),
    B::StrEq(a, b) => format!("({} == {})", data_text(a, n), data_text(b, n)),
    B::StrNe(a, b) => format!("({} != {})", data_text(a, n), data_text(b, n)),
  }
}
fn data_text(e: &D, n: &mut Names) -> String {
  match e {
    D::Var(v) => n.data[*v].clone(),
    D::Pair(a, b) => format!("Pair.init({}, {})", strict_int(a, n), strict_int(b, n)),
    D::Swap(d) => {
      let d_text = data_text(d, n);
      let name = format!("q{}", n.fresh());
      format!("{{ let {name} = {d_text}; {name}.swap() }}")
    }
    D::Red => "Color.Red()".to_string(),
    D::Green => "Color.Green()".to_string(),
    D::Rgb(a, b) => format!("Color.Rgb({}, {})", strict_int(a, n), strict_int(b, n)),
    D::NoneOf(t) => format!("Opt.None<{}>()", payload(*t).map(type_text).unwrap_or("int")),
    D::SomeI(a) => format!("Opt.Some({})", int_text(a, n)),
    D::SomeD(d) => format!("Opt.Some({})", data_text(d, n)),
    D::W(d) => format!("Wrap.W({})", data_text(d, n)),
    D::StrLit(k) => format!("\"{}\"", STRINGS[*k]),
    D::FromInt(a) => format!("Str.fromInt({})", strict_int(a, n)),
    D::Concat(a, b) => format!("({} :: {})", data_text(a, n), data_text(b, n)),
    D::If(c, t, f) => format!("(if {} {{ {} }} else {{ {} }})", bool_text(c, n), data_text(t, n), data_text(f, n)),
    D::Eff(l, d) => format!("{{ let _ = Main.p({l}, 0); {} }}", data_text(d, n)),
    D::Mk(k, a, b) => format!("Main.mk{k}({}, {})", strict_int(a, n), strict_int(b, n)),
    D::LoopD(k, bound, acc) => format!("Main.dloop{k}(0, {}, {})", int_text(bound, n), data_text(acc, n)),
    D::Lam(captured, arg, body) => {
      let c_text = int_text(captured, n);
      let id = n.fresh();
      let (c, g, y) = (format!("c{id}"), format!("g{id}"), format!("y{id}"));
      n.ints.push(c.clone());
      let arg_text = int_text(arg, n);
      n.ints.pop();
      let mut inner = Names { ints: vec![c.clone(), y.clone()], data: Vec::new(), fresh: n.fresh };
      let body_text = data_text(body, &mut inner);
      n.fresh = inner.fresh;
      format!("{{ let {c} = {c_text}; let {g} = ({y}: int) -> {body_text}; {g}({arg_text}) }}")
    }
    D::MatchColor(d, red, green, rgb) => {
      let d_text = data_text(d, n);
      let (r, g) = (data_text(red, n), data_text(green, n));
      let id = n.fresh();
      let (x, y) = (format!("r{id}"), format!("s{id}"));
      n.ints.push(x.clone());
      n.ints.push(y.clone());
      let b = data_text(rgb, n);
      n.ints.pop();
      n.ints.pop();
      format!("(match {d_text} {{ Red -> {r}, Green -> {g}, Rgb({x}, {y}) -> {b} }})")
    }
  }
}
fn program_text(p: &Program) -> String {
  let mut fresh = 0usize;
  let mut s = String::from(PRELUDE);
  s.push_str("class Main {\n  function p(label: int, v: int): int = { let _ = Process.println(\"p\" :: Str.fromInt(label)); v }\n  function pb(label: int, v: bool): bool = { let _ = Process.println(\"b\" :: Str.fromInt(label)); v }\n  function twice(g: (int) -> int, x: int): int = g(g(x))\n  function adder(x: int): (int) -> int = (y: int) -> x + y\n  function <S: Sized> measure(x: S, k: int): int = x.size() + k\n");
  let mut text_of = |ints: &[&str], data: &[&str], f: &dyn Fn(&mut Names) -> String| {
    let mut n = Names::of(ints, data, fresh);
    let t = f(&mut n);
    fresh = n.fresh;
    t
  };
  for (k, (_, body)) in p.functions.iter().enumerate() {
    let t = text_of(&["a", "b"], &[], &|n| int_text(body, n));
    s.push_str(&format!("  function f{k}(a: int, b: int): int = {t}\n"));
  }
  for (k, step) in p.loops.iter().enumerate() {
    let t = text_of(&["a", "b"], &[], &|n| int_text(step, n));
    s.push_str(&format!("  function loop{k}(a: int, n: int, b: int): int = if a >= n {{ b }} else {{ Main.loop{k}(a + 1, n, {t}) }}\n"));
  }
  for (k, r) in p.recs.iter().enumerate() {
    let nab = ["n", "a", "b"];
    let (a2, b2) = (text_of(&nab, &[], &|n| int_text(&r.arm2.0, n)), text_of(&nab, &[], &|n| int_text(&r.arm2.1, n)));
    let second = match &r.discard {
      None => format!("Main.rec{k}(n + 1, {a2}, {b2})"),
      Some(last) => format!("let _ = Main.rec{k}(n + 1, {a2}, {b2}); {}", text_of(&nab, &[], &|n| int_text(last, n))),
    };
    let base = text_of(&nab, &[], &|n| int_text(&r.base, n));
    let cond = text_of(&nab, &[], &|n| bool_text(&r.cond, n));
    let (a1, b1) = (text_of(&nab, &[], &|n| int_text(&r.arm1.0, n)), text_of(&nab, &[], &|n| int_text(&r.arm1.1, n)));
    s.push_str(&format!("  function rec{k}(n: int, a: int, b: int): int = if n >= 0 {{ {base} }} else if {cond} {{ Main.rec{k}(n + 1, {a1}, {b1}) }} else {{ {second} }}\n"));
  }
  for (k, (t, body)) in p.makers.iter().enumerate() {
    let text = text_of(&["a", "b"], &[], &|n| data_text(body, n));
    s.push_str(&format!("  function mk{k}(a: int, b: int): {} = {text}\n", type_text(*t)));
  }
  for (k, (t, step)) in p.data_loops.iter().enumerate() {
    let text = text_of(&["a"], &["acc"], &|n| data_text(step, n));
    s.push_str(&format!("  function dloop{k}(a: int, n: int, acc: {ty}): {ty} = if a >= n {{ acc }} else {{ Main.dloop{k}(a + 1, n, {text}) }}\n", ty = type_text(*t)));
  }
  s.push_str("  function main(): unit = {\n");
  for e in &p.prints {
    match e {
      Print::Int(e) => {
        let t = text_of(&[], &[], &|n| int_text(e, n));
        s.push_str(&format!("    let _ = Process.println(Str.fromInt({t}));\n"));
      }
      Print::Str(d) => {
        let t = text_of(&[], &[], &|n| data_text(d, n));
        s.push_str(&format!("    let _ = Process.println(\"s=\" :: {t});\n"));
      }
    }
  }
  s.push_str(&format!("    let _ = Vec.of<int>(7).get(\"{}\".toInt());\n    let _ = Process.println(\"end\");\n", p.last_index));
  s.push_str("  }\n}\n");
  s
}

// ---- what the program must print
struct Run<'a> {
  p: &'a Program,
  out: Vec<String>,
  fuel: u32,
}
#[derive(Default)]
struct Env {
  ints: Vec<i64>,
  data: Vec<V>,
}
impl Env {
  fn of(ints: Vec<i64>, data: Vec<V>) -> Env {
    Env { ints, data }
  }
}
fn in_range(v: i64) -> Option<i64> {
  if v < i32::MIN as i64 || v > i32::MAX as i64 { None } else { Some(v) }
}
fn eval_rec(r: &mut Run, k: usize, n: i64, a: i64, b: i64) -> Option<i64> {
  if r.fuel == 0 {
    return None;
  }
  r.fuel -= 1;
  let f = &r.p.recs[k];
  let mut env = Env::of(vec![n, a, b], Vec::new());
  if n >= 0 {
    return eval_int(r, &f.base, &mut env);
  }
  if eval_bool(r, &f.cond, &mut env)? {
    let a1 = eval_int(r, &f.arm1.0, &mut env)?;
    let b1 = eval_int(r, &f.arm1.1, &mut env)?;
    eval_rec(r, k, n + 1, a1, b1)
  } else {
    let a2 = eval_int(r, &f.arm2.0, &mut env)?;
    let b2 = eval_int(r, &f.arm2.1, &mut env)?;
    let result = eval_rec(r, k, n + 1, a2, b2)?;
    match &f.discard {
      None => Some(result),
      Some(last) => eval_int(r, last, &mut env),
    }
  }
}
fn with_ints<X>(env: &mut Env, values: &[i64], f: impl FnOnce(&mut Env) -> X) -> X {
  env.ints.extend_from_slice(values);
  let x = f(env);
  env.ints.truncate(env.ints.len() - values.len());
  x
}
fn with_data<X>(env: &mut Env, value: V, f: impl FnOnce(&mut Env) -> X) -> X {
  env.data.push(value);
  let x = f(env);
  env.data.pop();
  x
}
/// None: the evaluation leaves the 32-bit range (or the 31 bits of a Vec element), or runs too long — the program is discarded
fn eval_int(r: &mut Run, e: &I, env: &mut Env) -> Option<i64> {
  if r.fuel == 0 {
    return None;
  }
  r.fuel -= 1;
  let v = match e {
    I::Lit(n) | I::Dyn(n) => *n,
    I::Var(v) => env.ints[*v],
    I::Add(a, b) => eval_int(r, a, env)? + eval_int(r, b, env)?,
    I::Sub(a, b) => eval_int(r, a, env)? - eval_int(r, b, env)?,
    I::Mul(a, b) => eval_int(r, a, env)? * eval_int(r, b, env)?,
    I::If(c, t, f) => {
      if eval_bool(r, c, env)? { eval_int(r, t, env)? } else { eval_int(r, f, env)? }
    }
    I::Let(v, body) => {
      let x = eval_int(r, v, env)?;
      with_ints(env, &[x], |env| eval_int(r, body, env))?
    }
    I::Seq(a, b) => {
      eval_int(r, a, env)?;
      eval_int(r, b, env)?
    }
    I::P(l, v) => {
      let x = eval_int(r, v, env)?;
      r.out.push(format!("p{l}"));
      x
    }
    I::Call(f, args) => {
      let mut values = Vec::new();
      for a in args {
        values.push(eval_int(r, a, env)?);
      }
      let body = &r.p.functions[*f].1;
      eval_int(r, body, &mut Env::of(values, Vec::new()))?
    }
    I::Loop(k, n, acc) => {
      let n = eval_int(r, n, env)?;
      let mut acc = eval_int(r, acc, env)?;
      let mut i = 0i64;
      while i < n {
        let step = &r.p.loops[*k];
        acc = eval_int(r, step, &mut Env::of(vec![i, acc], Vec::new()))?;
        i += 1;
      }
      acc
    }
    I::Rec(k, n, a, b) => {
      let n = eval_int(r, n, env)?;
      let a = eval_int(r, a, env)?;
      let b = eval_int(r, b, env)?;
      eval_rec(r, *k, -n, a, b)?
    }
    I::Twice(captured, arg, body) => {
      let c = eval_int(r, captured, env)?;
      let x = with_ints(env, &[c], |env| eval_int(r, arg, env))?;
      let once = eval_int(r, body, &mut Env::of(vec![c, x], Vec::new()))?;
      eval_int(r, body, &mut Env::of(vec![c, once], Vec::new()))?
    }
    I::Div(a, k, abs) => {
      let x = eval_int(r, a, env)?;
      let x = if *abs { in_range(x.abs())? } else { x };
      x / k // Rust's division of integers truncates, like the language's
    }
    I::Mod(a, k) => eval_int(r, a, env)? % k,
    I::GuardedDiv(a, d) => {
      let d = eval_int(r, d, env)?;
      if d != 0 { with_ints(env, &[d], |env| eval_int(r, a, env))? / d } else { 0 }
    }
    I::Field(d, k) => match eval_data(r, d, env)? {
      V::Pair(a, b) => match k {
        0 => a,
        1 => b,
        _ => a + b,
      },
      other => panic!("generator: Field of {other:?}"),
    },
    I::MatchColor(d, red, green, rgb) => match eval_data(r, d, env)? {
      V::Red => eval_int(r, red, env)?,
      V::Green => eval_int(r, green, env)?,
      V::Rgb(x, y) => with_ints(env, &[x, y], |env| eval_int(r, rgb, env))?,
      other => panic!("generator: MatchColor of {other:?}"),
    },
    I::MatchOptI(d, none, some) => match eval_data(r, d, env)? {
      V::None => eval_int(r, none, env)?,
      V::SomeI(v) => with_ints(env, &[v], |env| eval_int(r, some, env))?,
      other => panic!("generator: MatchOptI of {other:?}"),
    },
    I::MatchOptD(d, _, none, some) => match eval_data(r, d, env)? {
      V::None => eval_int(r, none, env)?,
      V::SomeD(v) => with_data(env, *v, |env| eval_int(r, some, env))?,
      other => panic!("generator: MatchOptD of {other:?}"),
    },
    I::MatchWrap(d, arm) => match eval_data(r, d, env)? {
      V::W(v) => with_data(env, *v, |env| eval_int(r, arm, env))?,
      other => panic!("generator: MatchWrap of {other:?}"),
    },
    I::MethodValue(d, x) => match eval_data(r, d, env)? {
      V::Pair(a, _) => {
        let x = eval_int(r, x, env)?;
        a + in_range(a + x)?
      }
      other => panic!("generator: MethodValue of {other:?}"),
    },
    I::Destructure(d, body) => match eval_data(r, d, env)? {
      V::Pair(a, b) => with_ints(env, &[a, b], |env| eval_int(r, body, env))?,
      other => panic!("generator: Destructure of {other:?}"),
    },
    I::LetD(d, _, body) => {
      let v = eval_data(r, d, env)?;
      with_data(env, v, |env| eval_int(r, body, env))?
    }
    I::Curried(a, b) => eval_int(r, a, env)? + eval_int(r, b, env)?,
    I::TupleLet(a, b, body) => {
      let (x, y) = (eval_int(r, a, env)?, eval_int(r, b, env)?);
      with_ints(env, &[x, y], |env| eval_int(r, body, env))?
    }
    I::IfLet(d, some, none) => match eval_data(r, d, env)? {
      V::SomeI(v) => with_ints(env, &[v], |env| eval_int(r, some, env))?,
      V::None => eval_int(r, none, env)?,
      other => panic!("generator: IfLet of {other:?}"),
    },
    I::OrMatch(d, plain, rgb) => match eval_data(r, d, env)? {
      V::Red | V::Green => eval_int(r, plain, env)?,
      V::Rgb(x, y) => with_ints(env, &[x, y], |env| eval_int(r, rgb, env))?,
      other => panic!("generator: OrMatch of {other:?}"),
    },
    I::Measure(d, k) => match eval_data(r, d, env)? {
      V::Pair(a, b) => {
        let k = eval_int(r, k, env)?;
        in_range(a - b)? + k
      }
      other => panic!("generator: Measure of {other:?}"),
    },
    I::VecOps(e0, e1, e2) => {
      let (v0, v1, v2) = (eval_int(r, e0, env)?, eval_int(r, e1, env)?, eval_int(r, e2, env)?);
      // a Vec<int> element keeps 31 bits in the WebAssembly output (a pinned finding): such programs are left out
      for v in [v0, v1, v2] {
        if !(-(1 << 30)..(1 << 30)).contains(&v) {
          return None;
        }
      }
      in_range(v2 + v1)? + (2 + v1)
    }
  };
  in_range(v)
}
fn eval_bool(r: &mut Run, e: &B, env: &mut Env) -> Option<bool> {
  Some(match e {
    B::Lit(b) => *b,
    B::Lt(a, b) => eval_int(r, a, env)? < eval_int(r, b, env)?,
    B::Le(a, b) => eval_int(r, a, env)? <= eval_int(r, b, env)?,
    B::Eq(a, b) => eval_int(r, a, env)? == eval_int(r, b, env)?,
    B::Ne(a, b) => eval_int(r, a, env)? != eval_int(r, b, env)?,
    B::And(a, b) => eval_bool(r, a, env)? && eval_bool(r, b, env)?,
    B::Or(a, b) => eval_bool(r, a, env)? || eval_bool(r, b, env)?,
    B::Not(a) => !eval_bool(r, a, env)?,
    B::PB(l, v) => {
      let x = eval_bool(r, v, env)?;
      r.out.push(format!("b{l}"));
      x
    }
    B::Blk(l, v) => {
      r.out.push(format!("p{l}"));
      eval_bool(r, v, env)?
    }
    B::StrEq(a, b) => eval_data(r, a, env)? == eval_data(r, b, env)?,
    B::StrNe(a, b) => eval_data(r, a, env)? != eval_data(r, b, env)?,
  })
}
fn eval_data(r: &mut Run, e: &D, env: &mut Env) -> Option<V> {
  if r.fuel == 0 {
    return None;
  }
  r.fuel -= 1;
  Some(match e {
    D::Var(v) => env.data[*v].clone(),
    D::Pair(a, b) => V::Pair(eval_int(r, a, env)?, eval_int(r, b, env)?),
    D::Swap(d) => match eval_data(r, d, env)? {
      V::Pair(a, b) => V::Pair(b, a),
      other => panic!("generator: Swap of {other:?}"),
    },
    D::Red => V::Red,
    D::Green => V::Green,
    D::Rgb(a, b) => V::Rgb(eval_int(r, a, env)?, eval_int(r, b, env)?),
    D::NoneOf(_) => V::None,
    D::SomeI(a) => V::SomeI(eval_int(r, a, env)?),
    D::SomeD(d) => V::SomeD(Box::new(eval_data(r, d, env)?)),
    D::W(d) => V::W(Box::new(eval_data(r, d, env)?)),
    D::StrLit(k) => V::Str(STRINGS[*k].to_string()),
    D::FromInt(a) => V::Str(eval_int(r, a, env)?.to_string()),
    D::Concat(a, b) => match (eval_data(r, a, env)?, eval_data(r, b, env)?) {
      (V::Str(a), V::Str(b)) => {
        if a.len() + b.len() > 4000 {
          return None;
        }
        V::Str(a + &b)
      }
      other => panic!("generator: Concat of {other:?}"),
    },
    D::If(c, t, f) => {
      if eval_bool(r, c, env)? { eval_data(r, t, env)? } else { eval_data(r, f, env)? }
    }
    D::Eff(l, d) => {
      r.out.push(format!("p{l}"));
      eval_data(r, d, env)?
    }
    D::Mk(k, a, b) => {
      let (a, b) = (eval_int(r, a, env)?, eval_int(r, b, env)?);
      let body = &r.p.makers[*k].1;
      eval_data(r, body, &mut Env::of(vec![a, b], Vec::new()))?
    }
    D::LoopD(k, n, acc) => {
      let n = eval_int(r, n, env)?;
      let mut acc = eval_data(r, acc, env)?;
      let mut i = 0i64;
      while i < n {
        let step = &r.p.data_loops[*k].1;
        acc = eval_data(r, step, &mut Env::of(vec![i], vec![acc]))?;
        i += 1;
      }
      acc
    }
    D::Lam(captured, arg, body) => {
      let c = eval_int(r, captured, env)?;
      let x = with_ints(env, &[c], |env| eval_int(r, arg, env))?;
      eval_data(r, body, &mut Env::of(vec![c, x], Vec::new()))?
    }
    D::MatchColor(d, red, green, rgb) => match eval_data(r, d, env)? {
      V::Red => eval_data(r, red, env)?,
      V::Green => eval_data(r, green, env)?,
      V::Rgb(x, y) => with_ints(env, &[x, y], |env| eval_data(r, rgb, env))?,
      other => panic!("generator: MatchColor of {other:?}"),
    },
  })
}
fn expected_output(p: &Program) -> Option<Vec<String>> {
  let mut r = Run { p, out: Vec::new(), fuel: 200_000 };
  for e in &p.prints {
    match e {
      Print::Int(e) => {
        let v = eval_int(&mut r, e, &mut Env::default())?;
        r.out.push(v.to_string());
      }
      Print::Str(d) => match eval_data(&mut r, d, &mut Env::default())? {
        V::Str(s) => r.out.push(format!("s={s}")),
        other => panic!("generator: Print of {other:?}"),
      },
    }
  }
  if p.last_index == 0 {
    r.out.push("end".to_string());
  } else {
    r.out.push(RUNTIME_ERROR.to_string());
  }
  Some(r.out)
}
/// the last expected line of a program that must stop with a run-time error
const RUNTIME_ERROR: &str = "<run-time error>";

// ---- compiling and running
fn node_version_ok(path: &str) -> bool {
  let Ok(out) = Command::new(path).arg("--version").output() else { return false };
  let v = String::from_utf8_lossy(&out.stdout).trim().trim_start_matches('v').to_string();
  let mut parts = v.split('.').map(|p| p.parse::<u32>().unwrap_or(0));
  let (major, minor) = (parts.next().unwrap_or(0), parts.next().unwrap_or(0));
  major > 22 || (major == 22 && minor >= 6)
}
fn find_node() -> Option<String> {
  let mut candidates = Vec::new();
  if let Ok(p) = std::env::var("VERIF_NODE") {
    candidates.push(p);
  }
  candidates.push("node".to_string());
  for home in [std::env::var("HOME").unwrap_or_default(), "/root".to_string()] {
    if let Ok(rd) = std::fs::read_dir(format!("{home}/.nvm/versions/node")) {
      let mut v = rd.filter_map(|e| e.ok()).map(|e| e.path().join("bin/node").to_string_lossy().to_string()).collect::<Vec<_>>();
      v.sort();
      v.reverse();
      candidates.extend(v);
    }
  }
  candidates.push("/usr/local/bin/node".to_string());
  candidates.push("/usr/bin/node".to_string());
  candidates.into_iter().find(|c| node_version_ok(c))
}
fn run_node(node: &str, dir: &std::path::Path, args: &[&str]) -> (Vec<String>, Option<String>) {
  let out = Command::new("timeout").arg("120").arg(node).args(args).current_dir(dir).output().expect("spawn node");
  let lines = String::from_utf8_lossy(&out.stdout).lines().map(|l| l.to_string()).collect();
  let failure = if out.status.success() {
    None
  } else {
    Some(String::from_utf8_lossy(&out.stderr).lines().map(|l| l.trim().to_string()).find(|l| l.contains("Error")).unwrap_or_else(|| format!("exit status {:?}", out.status.code())))
  };
  (lines, failure)
}
struct Workdir(std::path::PathBuf);
impl Workdir {
  fn new(tag: &str) -> Workdir {
    let d = std::env::temp_dir().join(format!("samlang-wx-gen-{}-{tag}", std::process::id()));
    let _ = std::fs::remove_dir_all(&d);
    std::fs::create_dir_all(&d).unwrap();
    Workdir(d)
  }
}
impl Drop for Workdir {
  fn drop(&mut self) {
    let _ = std::fs::remove_dir_all(&self.0);
  }
}

struct Front {
  heap: Heap,
  checked: HashMap<ModuleReference, samlang_ast::source::Module<std::sync::Arc<samlang_checker::type_::Type>>>,
  entry: ModuleReference,
  loader: String,
  wasm_js: String,
}
fn front_end(text: &str) -> Result<Front, String> {
  let mut heap = Heap::new();
  let entry = heap.alloc_module_reference_from_string_vec(vec!["Demo".to_string()]);
  let mut sources = HashMap::from([(entry, text.to_string())]);
  for (m, s) in samlang_parser::builtin_std_raw_sources(&mut heap) {
    sources.insert(m, s);
  }
  let full = compile_sources(&mut heap, sources.clone(), vec![entry], false)?;
  let loader = full.text_code_results["__samlang_loader__.js"].clone();
  let wasm_js = full.text_code_results["Demo.wasm.js"].clone();
  let mut error_set = samlang_errors::ErrorSet::new();
  let mut parsed = HashMap::new();
  for (m, s) in &sources {
    parsed.insert(*m, samlang_parser::parse_source_module_from_text(s, *m, &mut heap, &mut error_set));
  }
  let checked = samlang_checker::type_check_sources(&parsed, &mut error_set).0;
  Ok(Front { heap, checked, entry, loader, wasm_js })
}
fn back_end(f: &mut Front, configuration: Option<&samlang_optimization::OptimizationConfiguration>) -> (String, Vec<u8>) {
  let heap = &mut f.heap;
  let mir = compile_sources_to_mir(heap, &f.checked);
  let mir = match configuration {
    None => mir,
    Some(c) => samlang_optimization::optimize_sources(heap, mir, c),
  };
  let mut lir_sources = compile_mir_to_lir(heap, mir);
  let common_ts_code = lir_sources.pretty_print(heap);
  let mut main_fn_name = String::new();
  samlang_ast::mir::FunctionName { type_name: lir_sources.symbol_table.create_main_type_name(f.entry), fn_name: samlang_heap::PStr::MAIN_FN }
    .write_encoded(&mut main_fn_name, heap, &lir_sources.symbol_table);
  let ts = format!("{common_ts_code}\n{main_fn_name}();\n");
  let (_, wasm) = compile_lir_to_wasm(heap, lir_sources);
  (ts, wasm)
}
fn run_wasm(node: &str, w: &Workdir, f: &Front, wasm: &[u8]) -> (Vec<String>, Option<String>) {
  std::fs::write(w.0.join("__samlang_loader__.js"), &f.loader).unwrap();
  std::fs::write(w.0.join("__all__.wasm"), wasm).unwrap();
  std::fs::write(w.0.join("Demo.wasm.js"), &f.wasm_js).unwrap();
  run_node(node, &w.0, &["Demo.wasm.js"])
}
fn run_ts(node: &str, w: &Workdir, ts: &str) -> (Vec<String>, Option<String>) {
  std::fs::write(w.0.join("Demo.ts"), ts).unwrap();
  run_node(node, &w.0, &["--experimental-strip-types", "--no-warnings", "Demo.ts"])
}

fn programs(count: usize, nonneg_div: bool) -> Vec<(String, Vec<String>)> {
  let seed = std::env::var("VERIF_SEED").ok().and_then(|s| s.parse::<u64>().ok()).unwrap_or(0);
  let mut rng = Rng(0x9E3779B97F4A7C15 ^ seed.wrapping_mul(0x2545F4914F6CDD1D) ^ 0x5851F42D4C957F2D);
  let mut out = Vec::new();
  let mut attempts = 0;
  while out.len() < count && attempts < count * 40 {
    attempts += 1;
    let p = generate(&mut rng, nonneg_div);
    if let Some(expected) = expected_output(&p) {
      if let Ok(dir) = std::env::var("VERIF_GEN_DUMP") {
        let _ = std::fs::write(format!("{dir}/gen_{}.sam", out.len()), program_text(&p));
        let _ = std::fs::write(format!("{dir}/gen_{}.expected", out.len()), expected.join("\n"));
      }
      out.push((program_text(&p), expected));
    }
  }
  out
}
/// the failure of an index outside a Vec: a thrown Error in the TypeScript prolog, an `unreachable` trap in libsam.wat
fn is_vec_trap(failure: &Option<String>) -> bool {
  failure.as_ref().is_some_and(|m| m.contains("Error: Vec index out of bounds") || m.contains("throw Error('Vec index out of bounds')") || m.contains("RuntimeError: unreachable"))
}
/// the printed lines, followed by the marker of a run-time error if the run ended with one
fn observed(got: &(Vec<String>, Option<String>)) -> Vec<String> {
  let mut lines = got.0.clone();
  if is_vec_trap(&got.1) {
    lines.push(RUNTIME_ERROR.to_string());
  }
  lines
}
fn difference(what: &str, text: &str, got: &(Vec<String>, Option<String>), want: &[String]) -> Option<String> {
  if (got.1.is_none() || is_vec_trap(&got.1)) && observed(got) == want {
    return None;
  }
  let got = &(observed(got), got.1.clone());
  let at = got.0.iter().zip(want.iter()).position(|(a, b)| a != b).unwrap_or(got.0.len().min(want.len()));
  Some(format!(
    "{what}: line {} is {:?}, expected {:?} ({} of {} lines printed{}); program: {}",
    at + 1,
    got.0.get(at),
    want.get(at),
    got.0.len(),
    want.len(),
    got.1.as_ref().map(|m| format!(", ends with {m}")).unwrap_or_default(),
    text.replace('\n', " ")
  ))
}
fn count_for_tier(quick: usize, thorough: usize) -> usize {
  if std::env::var("VERIF_TIER").map(|t| t == "thorough").unwrap_or(false) { thorough } else { quick }
}

#[test]
fn verif_witness_search_gen_semantics() {
  let Some(node) = find_node() else {
    println!("WITNESS-SEARCH: no violating history found (no node >= 22.6 found: nothing was executed)");
    return;
  };
  let w = Workdir::new("semantics");
  let mut n = 0;
  for (text, expected) in programs(count_for_tier(20, 60), false) {
    let mut f = match front_end(&text) {
      Ok(f) => f,
      Err(e) => {
        println!("WITNESS-SEARCH-BROKEN: a generated program is rejected: {} -- {}", e.lines().take(5).collect::<Vec<_>>().join(" "), text.replace('\n', " "));
        return;
      }
    };
    let (_, wasm) = back_end(&mut f, Some(&samlang_optimization::ALL_ENABLED_CONFIGURATION));
    let got = run_wasm(&node, &w, &f, &wasm);
    n += 1;
    if let Some(d) = difference("the compiled WebAssembly does not print what the evaluation rules prescribe", &text, &got, &expected) {
      println!("WITNESS: {d}");
      return;
    }
  }
  println!("WITNESS-SEARCH: no violating history found ({n} generated programs, each printing 24 expressions with effects, executed and compared with an interpreter of the fragment)");
}

#[test]
fn verif_witness_search_gen_backends() {
  let Some(node) = find_node() else {
    println!("WITNESS-SEARCH: no violating history found (no node >= 22.6 found: nothing was executed)");
    return;
  };
  let w = Workdir::new("backends");
  let mut n = 0;
  for (text, _) in programs(count_for_tier(12, 40), true) {
    let Ok(mut f) = front_end(&text) else {
      println!("WITNESS-SEARCH-BROKEN: a generated program is rejected: {}", text.replace('\n', " "));
      return;
    };
    let (ts, wasm) = back_end(&mut f, Some(&samlang_optimization::ALL_ENABLED_CONFIGURATION));
    let from_wasm = run_wasm(&node, &w, &f, &wasm);
    let from_ts = run_ts(&node, &w, &ts);
    n += 1;
    let other_failure = |o: &(Vec<String>, Option<String>)| o.1.is_some() && !is_vec_trap(&o.1);
    if observed(&from_ts) != observed(&from_wasm) || other_failure(&from_ts) || other_failure(&from_wasm) {
      let d = difference("the emitted TypeScript does not print what the emitted WebAssembly prints", &text, &from_ts, &observed(&from_wasm)).unwrap_or_else(|| format!("one output fails: {:?} vs {:?}", from_ts.1, from_wasm.1));
      println!("WITNESS: {d}");
      return;
    }
  }
  println!("WITNESS-SEARCH: no violating history found ({n} generated programs executed under both back ends)");
}

#[test]
fn verif_witness_search_gen_optimizer() {
  let Some(node) = find_node() else {
    println!("WITNESS-SEARCH: no violating history found (no node >= 22.6 found: nothing was executed)");
    return;
  };
  let w = Workdir::new("optimizer");
  let all = std::env::var("VERIF_TIER").map(|t| t == "thorough").unwrap_or(false);
  let mut n = 0;
  for (text, expected) in programs(count_for_tier(6, 16), false) {
    let Ok(mut f) = front_end(&text) else {
      println!("WITNESS-SEARCH-BROKEN: a generated program is rejected: {}", text.replace('\n', " "));
      return;
    };
    for bits in 0u32..32 {
      if !all && !(bits.count_ones() <= 1 || bits == 31 || bits == 0b10101 || bits == 0b01010) {
        continue;
      }
      let configuration = samlang_optimization::OptimizationConfiguration {
        does_perform_local_value_numbering: bits & 1 != 0,
        does_perform_common_sub_expression_elimination: bits & 2 != 0,
        does_perform_loop_optimization: bits & 4 != 0,
        does_perform_inlining: bits & 8 != 0,
        does_perform_scalar_replacement: bits & 16 != 0,
      };
      let (_, wasm) = back_end(&mut f, Some(&configuration));
      let got = run_wasm(&node, &w, &f, &wasm);
      n += 1;
      if let Some(d) = difference(&format!("optimized with [lvn={} cse={} loop={} inline={} scalar={}] the program does not print what the evaluation rules prescribe", bits & 1 != 0, bits & 2 != 0, bits & 4 != 0, bits & 8 != 0, bits & 16 != 0), &text, &got, &expected) {
        println!("WITNESS: {d}");
        return;
      }
    }
  }
  println!("WITNESS-SEARCH: no violating history found ({n} optimized generated programs executed and compared with an interpreter of the fragment)");
}

/// Ok(()) if the two-module program (Demo = text, Lib) compiles, Err(the diagnostics) otherwise
fn compile_with_lib(text: &str, third_module: Option<&str>) -> Result<(), String> {
  let mut heap = Heap::new();
  let entry = heap.alloc_module_reference_from_string_vec(vec!["Demo".to_string()]);
  let lib = heap.alloc_module_reference_from_string_vec(vec!["Lib".to_string()]);
  let mut sources = HashMap::from([(entry, text.to_string()), (lib, LIB_MODULE.to_string())]);
  if let Some(third) = third_module {
    sources.insert(heap.alloc_module_reference_from_string_vec(vec!["Ifaces".to_string()]), third.to_string());
  }
  for (m, s) in samlang_parser::builtin_std_raw_sources(&mut heap) {
    sources.insert(m, s);
  }
  compile_sources(&mut heap, sources, vec![entry], false).map(|_| ())
}

#[test]
fn verif_witness_search_gen_rejects() {
  let seed = std::env::var("VERIF_SEED").ok().and_then(|s| s.parse::<u64>().ok()).unwrap_or(0);
  let mut rng = Rng(0xD1B54A32D192ED03 ^ seed.wrapping_mul(0x2545F4914F6CDD1D));
  let (n_programs, per_program) = (count_for_tier(6, 24), count_for_tier(60, 120));
  let (mut programs_done, mut mutants) = (0, 0);
  let mut kinds = std::collections::BTreeSet::new();
  while programs_done < n_programs {
    let p = generate(&mut rng, false);
    if expected_output(&p).is_none() {
      continue;
    }
    programs_done += 1;
    let framed = |body: &str, imports: &str, declarations: &str| format!("{REJECTS_IMPORTS}{imports}{REJECTS_DECLARATIONS}{declarations}{body}");
    let accepted = framed(&program_text(&p), "", "");
    if let Err(e) = compile_with_lib(&accepted, None) {
      println!("WITNESS-SEARCH-BROKEN: a generated program is rejected: {} -- {}", e.lines().take(8).collect::<Vec<_>>().join(" "), accepted.replace('\n', " "));
      return;
    }
    let sites = count_sites(&p);
    let mut candidates = Vec::new();
    for _ in 0..per_program {
      let (at, which) = (rng.below(sites as u64) as usize, rng.below(100_000) as usize);
      let (text, what) = program_text_with_fault(&p, at, which);
      candidates.push((framed(&text, "", ""), format!("{what}, fault site {at} of {sites}")));
    }
    // every declaration fault and import fault once per program
    let plain = program_text(&p);
    for (what, declaration) in DECL_FAULTS {
      candidates.push((framed(&plain, "", &format!("{declaration}\n")), format!("{what}: `{declaration}`")));
    }
    for (what, import) in IMPORT_FAULTS {
      candidates.push((framed(&plain, &format!("{import}\n"), ""), format!("{what}: `{}`", import.replace('\n', " "))));
    }
    if programs_done == 1 {
      for (slug, what, declaration) in PINNED_DECL_FAULTS {
        let text = framed(&plain, "", &format!("{declaration}\n"));
        if compile_with_lib(&text, None).is_ok() {
          println!("PINNED-FINDING: {slug}: a program with one fault is accepted and compiled ({what}: `{declaration}`)");
        }
      }
    }
    if programs_done == 1 {
      mutants += 1;
      match compile_with_lib(&accepted, Some(INTERFACE_ONLY_MODULE)) {
        Err(e) if e.contains("Ifaces.sam") => {}
        other => {
          println!("WITNESS: a program with a module that only declares an interface naming an unknown class (`{}`) is not rejected with an error in that module: {:?}", INTERFACE_ONLY_MODULE.trim(), other.err().map(|e| e.lines().take(4).collect::<Vec<_>>().join(" ")));
          return;
        }
      }
    }
    for (text, what) in candidates {
      mutants += 1;
      kinds.insert(what.split(':').next().unwrap_or("").to_string());
      match compile_with_lib(&text, None) {
        Err(e) if e.contains("Demo.sam") => {}
        Err(e) => {
          println!("WITNESS: a program with one fault ({what}) is rejected without an error in its own module: {} -- program: {}", e.lines().take(4).collect::<Vec<_>>().join(" "), text.replace('\n', " "));
          return;
        }
        Ok(()) => {
          println!("WITNESS: a program with one fault is accepted and compiled ({what}); program: {}", text.replace('\n', " "));
          return;
        }
      }
    }
  }
  println!("WITNESS-SEARCH: no violating history found ({mutants} single-fault mutants of {programs_done} generated two-module programs, {} kinds of fault, all rejected with an error in their own module)", kinds.len());
}

// ---- damaged programs (C05): one token of a generated program deleted, doubled, exchanged with its neighbour or replaced by
// another token of the program; most results are rejected, some still compile — the whole driver must neither panic nor hang
fn tokens_of(text: &str) -> Vec<String> {
  let chars = text.chars().collect::<Vec<_>>();
  let mut out = Vec::new();
  let mut i = 0;
  while i < chars.len() {
    let c = chars[i];
    let start = i;
    if c.is_whitespace() {
      i += 1;
      continue;
    } else if c.is_alphanumeric() || c == '_' {
      while i < chars.len() && (chars[i].is_alphanumeric() || chars[i] == '_') {
        i += 1;
      }
    } else if c == '"' {
      i += 1;
      while i < chars.len() && chars[i] != '"' {
        i += 1;
      }
      i = (i + 1).min(chars.len());
    } else if i + 1 < chars.len() && ["->", "::", "==", "!=", "<=", ">=", "&&", "||"].contains(&chars[i..i + 2].iter().collect::<String>().as_str()) {
      i += 2;
    } else {
      i += 1;
    }
    out.push(chars[start..i].iter().collect());
  }
  out
}

#[test]
fn verif_witness_search_gen_nocrash() {
  let seed = std::env::var("VERIF_SEED").ok().and_then(|s| s.parse::<u64>().ok()).unwrap_or(0);
  let mut rng = Rng(0xA0761D6478BD642F ^ seed.wrapping_mul(0x2545F4914F6CDD1D));
  let (n_programs, per_program) = (count_for_tier(4, 10), count_for_tier(45, 120));
  let (mut programs_done, mut damaged, mut still_compiled) = (0, 0, 0);
  std::panic::set_hook(Box::new(|_| {}));
  while programs_done < n_programs {
    let p = generate(&mut rng, false);
    if expected_output(&p).is_none() {
      continue;
    }
    programs_done += 1;
    let text = format!("{REJECTS_IMPORTS}{REJECTS_DECLARATIONS}{}", program_text(&p));
    let tokens = tokens_of(&text);
    for _ in 0..per_program {
      let at = rng.below(tokens.len() as u64 - 1) as usize;
      let mut t = tokens.clone();
      const SNIPPETS: [&str; 24] = ["/*", "/**", "*/", "/**/", "/***/", "//", "\u{00A0}", "\u{2003}", "é", "→", "\"", "\\", "#", "@", "`", "$", "'", "0x", "1e9", ".", "..", "2147483648", "-", "\t"];
      let what = match rng.below(6) {
        0 => {
          t.remove(at);
          "deleted"
        }
        4 => {
          t.insert(at, SNIPPETS[rng.below(SNIPPETS.len() as u64) as usize].to_string());
          "preceded by a stray piece of text"
        }
        5 => {
          let piece = SNIPPETS[rng.below(SNIPPETS.len() as u64) as usize];
          t[at] = format!("{}{piece}", t[at]);
          "followed at once by a stray piece of text"
        }
        1 => {
          let again = t[at].clone();
          t.insert(at, again);
          "doubled"
        }
        2 => {
          t.swap(at, at + 1);
          "exchanged with the next one"
        }
        _ => {
          t[at] = tokens[rng.below(tokens.len() as u64) as usize].clone();
          "replaced by another token of the program"
        }
      };
      // now and then the damaged text sits on one long line behind two-byte characters, so that diagnostics must cut it
      let mutant = if rng.below(8) == 0 { format!("/* {} */ {}", "é".repeat(100 + rng.below(60) as usize), t.join(" ")) } else { t.join(" ") };
      damaged += 1;
      let started = std::time::Instant::now();
      let (sender, receiver) = std::sync::mpsc::channel();
      let for_thread = mutant.clone();
      std::thread::Builder::new().stack_size(64 << 20).spawn(move || {
        let mutant = for_thread;
        let outcome = std::panic::catch_unwind(|| {
        let compiled = compile_with_lib(&mutant, None).is_ok();
        // the other renderer of diagnostics
        let heap = &mut Heap::new();
        let mod_ref = heap.alloc_module_reference_from_string_vec(vec!["Demo".to_string()]);
        let mut error_set = samlang_errors::ErrorSet::new();
        let parsed = samlang_parser::parse_source_module_from_text(&mutant, mod_ref, heap, &mut error_set);
        let _ = samlang_checker::type_check_sources(&HashMap::from([(mod_ref, parsed)]), &mut error_set);
        let sources = HashMap::from([(mod_ref, mutant.clone())]);
        for e in error_set.errors() {
          let _ = e.to_ide_format(heap, &sources);
        }
        compiled
        });
        let _ = sender.send(outcome.map_err(|e| e.downcast_ref::<String>().cloned().or_else(|| e.downcast_ref::<&str>().map(|s| s.to_string())).unwrap_or_default()));
      }).unwrap();
      match receiver.recv_timeout(std::time::Duration::from_secs(45)) {
        Err(_) => {
          println!("WITNESS: the compiler does not terminate within 45 s on a generated program with token {at} (`{}`) {what}: {}", tokens[at], mutant);
          return;
        }
        Ok(Err(message)) => {
          println!("WITNESS: the compiler panicked ({}) on a generated program with token {at} (`{}`) {what}: {}", message.replace('\n', " "), tokens[at], mutant);
          return;
        }
        Ok(Ok(compiled)) => {
          if compiled {
            still_compiled += 1;
          }
          if started.elapsed().as_secs() > 60 {
            println!("WITNESS: the compiler needed {} s for a generated program with token {at} (`{}`) {what}: {}", started.elapsed().as_secs(), tokens[at], mutant);
            return;
          }
        }
      }
    }
  }
  println!("WITNESS-SEARCH: no violating history found ({damaged} generated programs with one token deleted / doubled / exchanged / replaced or a stray piece of text (comment marks, non-ASCII white space and letters, quotes, odd numerals) put next to a token went through parsing, checking, both diagnostic renderers and compilation without a panic; {still_compiled} of them still compiled)");
}
