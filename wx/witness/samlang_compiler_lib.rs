// Witness search for unit `errgate` (C06).  NOT a deciding check: it runs only after Verus reported a failed
// obligation or could not process the changed code, and looks for a program with a static error that the REAL
// compile_sources compiles anyway (returns Ok).
use super::*;
use samlang_heap::Heap;
use std::collections::HashMap;

#[test]
fn verif_witness_search_errors() {
  let programs: [(&str, &str); 18] = [
    ("operand of the wrong type", "class Main { function main(): unit = { let _ = 1 + true; } }"),
    ("wrong number of arguments", "class Main { function f(a: int): int = a function main(): unit = { let _ = Main.f(1, 2); } }"),
    ("unresolved variable", "class Main { function main(): unit = { let _ = nope; } }"),
    ("unresolved class", "class Main { function main(): unit = { let _ = Nope.f(); } }"),
    ("unresolved module", "import { A } from Missing\nclass Main { function main(): unit = {} }"),
    ("integer literal out of range", "class Main { function main(): unit = { let _ = 2147483648; } }"),
    ("integer literal out of range in a sum", "class Main { function main(): unit = { let _ = 1 + 2147483648; } }"),
    ("non-exhaustive match", "class O(A, B) { function f(o: O): int = match o { A -> 1 } } class Main { function main(): unit = {} }"),
    ("syntax error", "class Main { function main(): unit = { let = ; } }"),
    ("violated type-parameter bound (inferred, type parameter as argument)", "interface Comparable<T> { method compare(other: T): int } class Cmp { function <C: Comparable<C>> compare(v1: C, v2: C): int = v1.compare(v2) } class Pair<T>(val v1: T, val v2: T) { method r(): int = Cmp.compare(this.v1, this.v2) } class Main { function main(): unit = {} }"),
    ("violated type-parameter bound (explicit type argument)", "interface Comparable<T> { method compare(other: T): int } class Cmp { function <C: Comparable<C>> compare(v1: C, v2: C): int = v1.compare(v2) } class Pair<T>(val v1: T, val v2: T) { method r(): int = Cmp.compare<T>(this.v1, this.v2) } class Main { function main(): unit = {} }"),
    ("violated type-parameter bound (concrete class)", "interface Comparable<T> { method compare(other: T): int } class Cmp { function <C: Comparable<C>> compare(v1: C, v2: C): int = v1.compare(v2) } class A(val i: int) { } class Main { function main(): unit = { let _ = Cmp.compare(A.init(1), A.init(2)); } }"),
    ("argument of the wrong type", "class Main { function f(a: int): int = a function main(): unit = { let _ = Main.f(true); } }"),
    ("wrong return type", "class Main { function f(): int = true function main(): unit = {} }"),
    ("if-let pattern variable used in the else branch", "class Opt(Some(int), None) { method f(): int = if let Some(x) = this { 0 } else { x } } class Main { function main(): unit = {} }"),
    ("if-let pattern variable used in a nested else-if", "class Opt(Some(int), None) { method f(b: bool): int = if let Some(x) = this { 0 } else if b { x } else { 0 } } class Main { function main(): unit = {} }"),
    ("match-arm variable used in another arm", "class Opt(Some(int), None) { method f(): int = match this { Some(x) -> 0, None -> x } } class Main { function main(): unit = {} }"),
    ("block-local variable used after the block", "class Main { function f(): int = { let _ = { let y = 1; y }; y } function main(): unit = {} }"),
  ];
  let lib = "class Account(private val balance: int) {\n  function open(): Account = Account.init(42)\n  private method secret(): int = this.balance\n  method visible(): int = this.secret()\n}\nclass Bank {\n  function account(): Account = Account.open()\n}\nprivate class Hidden { function f(): int = 1 }";
  let two_modules: [(&str, &str); 4] = [
    ("private method of a class of another module, used from a class with the same name", "import { Bank } from Lib\nclass Account { function peek(): int = Bank.account().secret() }\nclass Main { function main(): unit = {} }"),
    ("private field of a class of another module, used from a class with the same name", "import { Bank } from Lib\nclass Account { function peek(): int = Bank.account().balance }\nclass Main { function main(): unit = {} }"),
    ("private method of a class of another module", "import { Bank } from Lib\nclass Main { function main(): unit = { let _ = Bank.account().secret(); } }"),
    ("private class of another module", "import { Hidden } from Lib\nclass Main { function main(): unit = { let _ = Hidden.f(); } }"),
  ];
  let shapes = "interface Container<T> { method get(): T }\ninterface Shape : Container<int, int> { method area(): Missing }";
  let mut all: Vec<(&str, Vec<(&str, &str)>)> = programs.iter().map(|(w, t)| (*w, vec![("Demo", *t)])).collect();
  all.push(("unresolved name and wrong arity in a module that only declares interfaces", vec![("Lib", shapes), ("Demo", "import { Shape } from Lib\nclass Main { function main(): unit = {} }")]));
  for (w, t) in two_modules {
    all.push((w, vec![("Lib", lib), ("Demo", t)]));
  }
  for (what, modules) in all.iter() {
    let heap = &mut Heap::new();
    let mut sources = HashMap::new();
    let mut entry = None;
    for (name, text) in modules {
      let mod_ref = heap.alloc_module_reference_from_string_vec(vec![name.to_string()]);
      sources.insert(mod_ref, text.to_string());
      entry = Some(mod_ref);
    }
    for (m, s) in samlang_parser::builtin_std_raw_sources(heap) {
      sources.insert(m, s);
    }
    if compile_sources(heap, sources, vec![entry.unwrap()], false).is_ok() {
      println!("WITNESS: a program with a static error ({what}) is compiled: {}", modules.iter().map(|(n, t)| format!("[{n}.sam] {}", t.replace('\n', " "))).collect::<Vec<_>>().join(" "));
      return;
    }
  }
  println!("WITNESS-SEARCH: no violating history found (23 erroneous programs)");
}

// Witness search for the C06 use-site units (`usegates`, `ssanames`, and the gates above): single-fault mutants of
// accepted programs.  Every entry is (kind of fault, accepted program, text to replace, replacement): the accepted
// program must compile, the mutant must parse without syntax errors and must be rejected.
#[test]
fn verif_witness_search_single_fault_mutants() {
  let base = SINGLE_FAULT_BASE;
  let mutants: [(&str, &str, &str); 65] = [
    // operands and arguments of the wrong type
    ("operand of + is a bool", "let a = Main.add(1, 2);", "let a = Main.add(1, 2) + true;"),
    ("operand of ! is an int", "!e.isNone()", "!3"),
    ("operand of && is an int", "o.isNone() && ", "1 && "),
    ("operand of unary - is a bool", "0 - 1 }", "-true }"),
    ("operand of :: is an int", "\"n=\" :: ", "7 :: "),
    ("operands of == have different types", "a == 0", "a == \"0\""),
    ("operand of < is a string", "if a < 0 {", "if a < \"0\" {"),
    ("condition of if is an int", "if a < 0 {", "if a {"),
    ("argument of a function is a bool", "Main.sign(y)", "Main.sign(true)"),
    ("argument of a method is a string", "s.area()", "s.compare(\"x\")"),
    ("argument of a constructor is a bool", "Sq.init(2)", "Sq.init(false)"),
    ("argument of a variant constructor disagrees with the annotation", "let e = Opt.None<int>();", "let e: Opt<int> = Opt.Some(true);"),
    ("argument of a function value is a string", "f(1, 2)", "f(1, \"2\")"),
    ("argument of a generic function disagrees with the other argument", "Main.first(a, x)", "Main.first(a, \"x\")"),
    ("a lambda's body has the wrong type for its expected function type", "(x) -> x + 1", "(x) -> x && true"),
    ("function value of the wrong type", "let f: (int, int) -> int = Main.add;", "let f: (int, int) -> int = Main.sign;"),
    // results of the wrong type
    ("function body of the wrong type", "function add(a: int, b: int): int = a + b", "function add(a: int, b: int): int = a < b"),
    ("else branch of the wrong type", "else { 1 }", "else { \"positive\" }"),
    ("else-if branch of the wrong type", "else if a == 0 { 0 } else { 1 }", "else if a == 0 { \"zero\" } else { \"positive\" }"),
    ("else-if branch of the wrong type (middle only)", "else if a == 0 { 0 }", "else if a == 0 { \"zero\" }"),
    ("match arm of the wrong type", "None -> 0, Some(s) -> s.area()", "None -> false, Some(s) -> s.area()"),
    ("declared type disagrees with the initialiser", "let a = Main.add(1, 2);", "let a: bool = Main.add(1, 2);"),
    ("method body of the wrong type", "method area(): int = this.side * this.side", "method area(): int = this.side == this.side"),
    // wrong number of arguments / type arguments
    ("too many arguments", "Main.sign(y)", "Main.sign(y, y)"),
    ("too few arguments", "Main.add(1, 2);", "Main.add(1);"),
    ("no argument where one is needed", "Main.sign(y)", "Main.sign()"),
    ("too few arguments of a generic function", "Main.first(a, x)", "Main.first(a)"),
    ("too few arguments of a constructor", "Item.init(e, 3)", "Item.init(e)"),
    ("too few arguments of a method", "a.compare(b)", "a.compare()"),
    ("too few arguments of a function value", "f(1, 2)", "f(1)"),
    ("too many arguments of a variant constructor", "Opt.Some(a)", "Opt.Some(a, a)"),
    ("too many type arguments in an annotation", "function size(o: Opt<Sq>)", "function size(o: Opt<Sq, Sq>)"),
    ("missing type arguments in an annotation", "function size(o: Opt<Sq>)", "function size(o: Opt)"),
    ("too many explicit type arguments of a member", "Opt.None<int>()", "Opt.None<int, int>()"),
    ("type arguments for a class that has none", "val tag: Opt<int>, val weight: int", "val tag: Opt<int>, val weight: int, val s: Sq<int>"),
    // unresolved names
    ("unresolved variable", "Main.sign(y)", "Main.sign(yy)"),
    ("unresolved class", "Sq.init(3)", "Sqq.init(3)"),
    ("unresolved function of a class", "Main.sign(y)", "Main.sgn(y)"),
    ("unresolved method", "s.area()", "s.aria()"),
    ("unresolved field", "this.side - other.side", "this.side - other.sidee"),
    ("unresolved class in a parameter annotation", "function size(o: Opt<Sq>)", "function size(o: Opt<Sqq>)"),
    ("unresolved class in a return annotation", "method swap(): Pair<B, A>", "method swap(): Pairr<B, A>"),
    ("unresolved class in a let annotation", "let e = Opt.None<int>();", "let e: Opt<Intt> = Opt.None();"),
    ("unresolved class in explicit type arguments", "Opt.None<int>()", "Opt.None<Intt>()"),
    ("unresolved class in explicit type arguments, value used only through its methods", "Opt.None<bool>()", "Opt.None<Booll>()"),
    ("unresolved class in explicit type arguments inside a generic class", "Opt.None<R>()", "Opt.None<RR>()"),
    ("unresolved class in a lambda parameter annotation", "(x) -> x + 1", "(x: Intt) -> 1"),
    ("unresolved class in a field annotation", "val weight: int", "val weight: Intt"),
    ("unresolved interface in an extends list", "class Sq(val side: int) : Shape, Comparable<Sq>", "class Sq(val side: int) : Shapee, Comparable<Sq>"),
    ("unresolved variant in a pattern", "None -> 0, Some(s) -> s.area()", "Nothing -> 0, Some(s) -> s.area()"),
    ("unresolved field in an object pattern", "let { tag as _, weight } = item;", "let { tagg as _, weight } = item;"),
    // interface conformance and bounds
    ("missing interface member", "method area(): int = this.side * this.side\n", "\n"),
    ("mistyped interface member", "method area(): int = this.side * this.side", "method area(): bool = true"),
    ("violated type-parameter bound", "Cmp.max(Sq.init(2), Sq.init(3))", "Cmp.max(Opt.Some(2), Opt.Some(3))"),
    ("violated type-parameter bound, type arguments solved from the expected function type", "let g: (Sq, Sq) -> Sq = Cmp.max;", "let g: (Sq, Sq) -> Sq = Cmp.max; let g2: (Opt<int>, Opt<int>) -> Opt<int> = Cmp.max;"),
    ("class objects passed where instances are expected", "Cmp.max(Sq.init(2), Sq.init(3))", "Cmp.max(Sq, Sq)"),
    ("class objects passed where instances that satisfy a bound are expected", "Cmp.order(Sq.init(7), Sq.init(8))", "Cmp.order(Sq, Sq)"),
    ("interface member inherited at two instantiations, implemented at one", "class Range(val lo", "class Gauge(val v: int) : Counter, Meter { method get(): int = this.v }\nclass Range(val lo"),
    ("unresolved class in a second import line from the same module", "import { Triple } from std.tuples", "import { Triple } from std.tuples\nimport { Missing } from std.tuples"),
    ("match over an object pattern with fields out of order, one case missing", ", { hi as Some(b), lo as None } -> b }", " }"),
    // matches that do not cover every case
    ("match without the None case", "None -> 0, Some(s) -> s.area()", "Some(s) -> s.area()"),
    ("match over an object pattern without the None case of its first field", ", { tag as None, weight } -> weight", ""),
    ("match over an object pattern without the None case, other field first", "{ first as Some(n), second } -> n, { first as None, second } -> 0", "{ second, first as Some(n) } -> n"),
    ("refutable object pattern in a let", "let { tag as _, weight } = item; weight", "let { tag as Some(n), weight } = item; weight + n"),
    ("refutable tuple pattern in a let", "let p = Pair.init(o, true).swap().swap();", "let p = Pair.init(o, true).swap().swap(); let (Some(q), r) = (o, 1);"),
  ];
  let compile = |text: &str| -> (bool, bool) {
    let heap = &mut Heap::new();
    let mod_ref = heap.alloc_module_reference_from_string_vec(vec!["Demo".to_string()]);
    let mut syntax_errors = samlang_errors::ErrorSet::new();
    let _ = samlang_parser::parse_source_module_from_text(text, mod_ref, heap, &mut syntax_errors);
    let mut sources = HashMap::from([(mod_ref, text.to_string())]);
    for (m, s) in samlang_parser::builtin_std_raw_sources(heap) {
      sources.insert(m, s);
    }
    let r = compile_sources(heap, sources, vec![mod_ref], false);
    if std::env::var("VERIF_WITNESS_VERBOSE").is_ok() && let Err(e) = &r {
      println!("      {}", e.lines().filter(|l| l.starts_with("Error")).collect::<Vec<_>>().join(" | "));
    }
    (r.is_ok(), syntax_errors.has_errors())
  };
  if !compile(base).0 {
    println!("WITNESS-SEARCH-BROKEN: the accepted program of the single-fault corpus is rejected");
    return;
  }
  for (what, from, to) in mutants.iter() {
    if base.matches(from).count() != 1 {
      println!("WITNESS-SEARCH-BROKEN: the text to replace for `{what}` occurs {} times", base.matches(from).count());
      return;
    }
    let mutant = base.replacen(from, to, 1);
    if std::env::var("VERIF_WITNESS_VERBOSE").is_ok() {
      println!("  -- {what}");
    }
    let (accepted, syntax) = compile(&mutant);
    if syntax {
      println!("WITNESS-SEARCH-BROKEN: the mutant for `{what}` has a syntax error");
      return;
    }
    if accepted {
      println!("WITNESS: a single-fault mutant of an accepted program ({what}) is compiled: `{from}` replaced by `{to}` in [Demo.sam] {}", base.replace('\n', " "));
      return;
    }
  }
  println!("WITNESS-SEARCH: no violating history found ({} single-fault mutants of an accepted program)", mutants.len());
}

const SINGLE_FAULT_BASE: &str = r#"import { Triple } from std.tuples
interface Shape { method area(): int }
interface Comparable<T> { method compare(other: T): int }
interface Source<T> { method get(): T }
interface Counter : Source<int> {}
interface Meter : Source<Str> {}
class Dial(val v: int) : Counter { method get(): int = this.v }
class Range(val lo: Opt<int>, val hi: Opt<int>) {}
class Opt<T>(None, Some(T)) {
  method isNone(): bool = match (this) { None -> true, Some(_) -> false }
  method <R> map(f: (T) -> R): Opt<R> = match (this) { None -> Opt.None<R>(), Some(v) -> Opt.Some(f(v)) }
}
class Pair<A, B>(val first: A, val second: B) {
  method swap(): Pair<B, A> = Pair.init(this.second, this.first)
}
class Sq(val side: int) : Shape, Comparable<Sq> {
  method area(): int = this.side * this.side
  method compare(other: Sq): int = this.side - other.side
}
class Cmp {
  function <C: Comparable<C>> max(a: C, b: C): C = if a.compare(b) < 0 { b } else { a }
  function <C: Comparable<C>> order(p: C, q: C): int = p.compare(q)
}
class Item(val tag: Opt<int>, val weight: int) {}
class Main {
  function add(a: int, b: int): int = a + b
  function <T> first(a: T, b: T): T = a
  function sign(a: int): int = if a < 0 { 0 - 1 } else if a == 0 { 0 } else { 1 }
  function total(item: Item): int = match (item) { { tag as Some(n), weight } -> n + weight, { tag as None, weight } -> weight }
  function weigh(item: Item): int = { let { tag as _, weight } = item; weight }
  function size(o: Opt<Sq>): int = match (o) { None -> 0, Some(s) -> s.area() }
  function both(p: Pair<Opt<int>, bool>): int = match (p) { { first as Some(n), second } -> n, { first as None, second } -> 0 }
  function apply(f: (int, int) -> int): int = f(1, 2)
  function bound(r: Range): int = match (r) { { lo as Some(a), hi as _ } -> a, { hi as None, lo as _ } -> 0, { hi as Some(b), lo as None } -> b }
  function main(): unit = {
    let ordered = Cmp.order(Sq.init(7), Sq.init(8));
    let g: (Sq, Sq) -> Sq = Cmp.max;
    let t3 = Triple.init(1, Dial.init(2).get(), Main.bound(Range.init(Opt.Some(1), Opt.Some(3)))).e0 + g(Sq.init(5), Sq.init(6)).side;
    let a = Main.add(1, 2);
    let o = Opt.Some(a).map((x) -> x + 1);
    let e = Opt.None<int>();
    let n = Opt.None<bool>();
    let p = Pair.init(o, true).swap().swap();
    let (x, y) = (1, 2);
    let big = Cmp.max(Sq.init(2), Sq.init(3));
    let f: (int, int) -> int = Main.add;
    let s = "n=" :: Str.fromInt(Main.first(a, x) + t3 + ordered + Main.sign(y) + Main.total(Item.init(e, 3)) + Main.both(p) + Main.apply(f));
    let _ = Process.println(if o.isNone() && !e.isNone() || n.isNone() { s } else { Str.fromInt(Main.size(Opt.Some(big)) + Main.weigh(Item.init(o, 4))) });
  }
}"#;

// Bounded exploration for C05 (no crash on any input): the front end and the compiler driver must return — with
// diagnostics or with code — and never panic, on every prefix of an accepted program (cut every few characters),
// on the program with any one of its tokens deleted, and with any one of its tokens doubled.
#[test]
fn verif_witness_search_no_crash() {
  let base = SINGLE_FAULT_BASE;
  let mut inputs: Vec<(String, String)> = Vec::new();
  let boundaries: Vec<usize> = base.char_indices().map(|(i, _)| i).collect();
  for (k, cut) in boundaries.iter().enumerate() {
    if k % 9 == 0 {
      inputs.push((format!("the first {cut} bytes of the accepted program"), base[..*cut].to_string()));
    }
  }
  let tokens: Vec<&str> = base.split_inclusive(|c: char| c.is_whitespace() || "(){}<>,;:.".contains(c)).collect();
  for k in 0..tokens.len() {
    if k % 3 == 0 {
      let mut t = tokens.clone();
      let removed = t.remove(k);
      inputs.push((format!("the accepted program without its token #{k} `{}`", removed.trim()), t.concat()));
    }
    if k % 5 == 0 {
      let mut t = tokens.clone();
      t.insert(k, tokens[k]);
      inputs.push((format!("the accepted program with its token #{k} `{}` doubled", tokens[k].trim()), t.concat()));
    }
  }
  // programs that once crashed a phase, and shapes next to them
  let wrap = |body: &str| format!("class Opt(None, Some(int)) {{}}\nclass P(val a: int, val b: int) {{}}\nclass Main {{\n  function f(p: P, o: Opt, a: int, b: int): int = {body}\n  function main(): unit = {{}}\n}}");
  for body in [
    "{ let x = (a + b,); 1 }",
    "{ let x = (a,); 1 }",
    "{ let x = (a, b,); 1 }",
    "{ let x = (a,a,a,a,a,a,a,a,a,a,a,a,a,a,a,a,a,a,a,a,a,a,a,a); 1 }",
    "{ let x = (1,1,1,1,1,1,1,1,1,1,1,1,1,1,1,1,1,1,1,1,1,1,1,1); 1 }",
    "{ let x = (a + 1,2,3,4,5,6,7,8,9,10,11,12,13,14,15,16,17); 1 }",
    "{ let x = (a.b,2,3,4,5,6,7,8,9,10,11,12,13,14,15,16,17,18); 1 }",
    "{ let x = (a,b,3,4,5,6,7,8,9,10,11,12,13,14,15,16,17,18); 1 }",
    "{ let x = (1,); 1 }",
    "match p { (x, y) -> 1, (x, y, z) -> 2 }",
    "match p { (x, y, z) -> 1, (x, y) -> 2 }",
    "match p { (x) -> 1, (x, y) -> 2, (x, y, z) -> 3 }",
    "match o { Some(x) -> 1, Some(x, y) -> 2, None -> 3 }",
    "match o { Some(x, y) -> 1, Some(x) -> 2, None -> 3 }",
    "match o { None(x) -> 1, Some -> 2 }",
    "{ let (x, y) = 1; let g = () -> x; g() }",
    "{ let (x, y) = a; let g = () -> x + y; g() }",
    "{ let { a as x, c as y } = p; let g = () -> x + y; g() }",
    "{ let Some(x) = a; let g = () -> x; g() }",
    "{ let { q } = o; let g = (z) -> z + q; g(1) }",
    "{ let g = (x, y) -> x + y; g(1) }",
    "{ let g = () -> nope; g() }",
    "match a { Some(x) -> x, None -> 0 }",
    "match p { Some(x) -> x, None -> 0 }",
    "if let Some(x) = p { x } else { 0 }",
    "if let (x, y, z) = p { x } else { 0 }",
  ] {
    inputs.push((format!("a program with the function body `{body}`"), wrap(body)));
  }
  // a diagnostic on a long line of two-byte characters, in both alignments, so that any byte index used to cut the
  // line for the code frame falls inside a character in one of them
  for pad in ["", "x"] {
    let long = "é".repeat(400);
    inputs.push((
      format!("a type error on a line of {} bytes of two-byte characters", 800 + pad.len()),
      wrap(&format!("{{ let s = \"{pad}{long}\" + 1; 1 }}")),
    ));
    inputs.push((
      format!("a syntax error after a comment of {} bytes of two-byte characters", 800 + pad.len()),
      wrap(&format!("{{ /* {pad}{long} */ let = ; 1 }}")),
    ));
  }
  std::panic::set_hook(Box::new(|_| {}));
  let mut n = 0usize;
  for (what, text) in inputs.iter() {
    let outcome = std::panic::catch_unwind(|| {
      let heap = &mut Heap::new();
      let mod_ref = heap.alloc_module_reference_from_string_vec(vec!["Demo".to_string()]);
      let mut sources = HashMap::from([(mod_ref, text.to_string())]);
      for (m, s) in samlang_parser::builtin_std_raw_sources(heap) {
        sources.insert(m, s);
      }
      // the driver (parse, check, render for the terminal, compile) ..
      let compiled = compile_sources(heap, sources.clone(), vec![mod_ref], false).is_ok();
      // .. and the other renderer: every diagnostic in the IDE format
      let mut error_set = samlang_errors::ErrorSet::new();
      let mut parsed = HashMap::new();
      for (m, s) in &sources {
        parsed.insert(*m, samlang_parser::parse_source_module_from_text(s, *m, heap, &mut error_set));
      }
      let syntax_errors = error_set.has_errors();
      let _ = samlang_checker::type_check_sources(&parsed, &mut error_set);
      for e in error_set.errors() {
        let _ = e.to_ide_format(heap, &sources);
      }
      (compiled, syntax_errors)
    });
    n += 1;
    match outcome {
      Err(e) => {
        let message = e.downcast_ref::<String>().cloned().or_else(|| e.downcast_ref::<&str>().map(|s| s.to_string())).unwrap_or_default();
        println!("WITNESS: the compiler panicked ({}) on {what}: {}", message.replace('\n', " "), text.chars().take(700).collect::<String>().replace('\n', " "));
        return;
      }
      Ok((compiled, syntax_errors)) => {
        // a text that stops inside a class, or lost one of its brackets, cannot be parsed without skipping or inventing tokens
        if !syntax_errors && open_brackets(text) != 0 {
          println!("WITNESS: no syntax error is reported (compiled: {compiled}) for {what}, whose brackets do not balance: {}", text.chars().take(700).collect::<String>().replace('\n', " "));
          return;
        }
      }
    }
  }
  println!("WITNESS-SEARCH: no violating history found ({n} damaged or ill-formed programs went through parsing, checking, both renderers and the compiler without a panic; unbalanced ones got a syntax error)");
}

/// opening minus closing round / curly brackets outside string literals and comments (the accepted program has none
/// inside its strings); non-zero means the text cannot be a complete program
fn open_brackets(text: &str) -> i64 {
  let mut depth = 0i64;
  let mut in_string = false;
  let mut previous = ' ';
  for c in text.chars() {
    if in_string {
      if c == '"' && previous != '\\' {
        in_string = false;
      }
    } else {
      match c {
        '"' => in_string = true,
        '(' | '{' => depth += 1,
        ')' | '}' => depth -= 1,
        _ => {}
      }
    }
    previous = c;
  }
  depth
}

// Witness search for unit `loopvars` (C01): self tail calls that permute or shift their parameters; the
// emitted TypeScript loop (the WebAssembly loop has the same assignments in the same order) may not read a
// loop variable after overwriting it.
#[test]
fn verif_witness_search_loopvars() {
  let programs: [(&str, &str); 6] = [
    ("swap", "function f(a: int, b: int, n: int): int = if n == 0 { a } else { Main.f(b, a, n - 1) }"),
    ("rotate", "function f(a: int, b: int, c: int, n: int): int = if n == 0 { a } else { Main.f(b, c, a, n - 1) }"),
    ("shift", "function f(a: int, b: int, n: int): int = if n == 0 { b } else { Main.f(n, a, n - 1) }"),
    ("swap of strings", "function f(a: Str, b: Str, n: int): Str = if n == 0 { a } else { Main.f(b, a, n - 1) }"),
    ("duplicate", "function f(a: int, b: int, c: int, n: int): int = if n == 0 { c } else { Main.f(b, a, a, n - 1) }"),
    ("swap of enum values with a tag-only variant", "function f(a: Opt, b: Opt, n: int): Opt = if n == 0 { a } else { Main.f(b, a, n - 1) }"),
  ];
  for (what, member) in programs {
    let heap = &mut Heap::new();
    let mod_ref = heap.alloc_module_reference_from_string_vec(vec!["Demo".to_string()]);
    let args = if member.contains("a: Opt") { "Opt.None(), Opt.Some(1), \"3\".toInt()" } else if member.contains("a: Str") { "\"x\", \"y\", \"3\".toInt()" } else if member.contains("c: int") { "\"1\".toInt(), \"2\".toInt(), \"3\".toInt(), \"4\".toInt()" } else { "\"1\".toInt(), \"2\".toInt(), \"3\".toInt()" };
    let print = if member.contains("a: Opt") { format!("Main.f({args}).show()") } else if member.contains("a: Str") { format!("Main.f({args})") } else { format!("Str.fromInt(Main.f({args}))") };
    let text = format!("class Opt(None, Some(int)) {{ method show(): Str = match this {{ None -> \"none\", Some(v) -> \"some\" }} }}\nclass Main {{\n  {member}\n  function main(): unit = {{ let _ = Process.println({print}); }}\n}}");
    let mut sources = HashMap::from([(mod_ref, text.clone())]);
    for (m, s) in samlang_parser::builtin_std_raw_sources(heap) {
      sources.insert(m, s);
    }
    let Ok(result) = compile_sources(heap, sources, vec![mod_ref], false) else {
      println!("WITNESS-SEARCH: program `{what}` does not compile: {text}");
      continue;
    };
    let ts = result.text_code_results.get("Demo.ts").unwrap();
    let Some(rest) = ts.split("while (true) {").nth(1) else { continue };
    let body = rest.split("\n  }\n").next().unwrap();
    let mut assigned: Vec<&str> = Vec::new();
    let mut declared_in_body: Vec<&str> = Vec::new();
    for line in body.lines().map(|l| l.trim()) {
      if let Some(decl) = line.strip_prefix("let ") {
        declared_in_body.push(decl.split([':', ' ', '=']).next().unwrap_or(""));
        continue;
      }
      if line.starts_with("if ") || line == "}" || line == "break;" {
        assigned.clear();
        continue;
      }
      if let Some((lhs, rhs)) = line.trim_end_matches(';').split_once(" = ") {
        // reading a loop variable (not a temporary of the body) after it was given its next value
        if assigned.contains(&rhs) && !declared_in_body.contains(&rhs) {
          println!(
            "WITNESS: tail call `{what}` ({member}): the emitted loop executes `{line}` after `{rhs}` was overwritten, so the parameter values of the next iteration are not the arguments of the call; loop body: {}",
            body.replace('\n', " ")
          );
          return;
        }
        if !declared_in_body.contains(&lhs) {
          assigned.push(lhs);
        }
      }
    }
    // a saved copy must be a plain copy: a checked cast of the saved value can trap (an enum value may be an i31)
    if let Some(wat) = compile_sources_wat_text_for_witness(&text) {
      let mut prev = "";
      for line in body.lines().map(|l| l.trim()) {
        // `let T: ty = ..; T = v;` (plain copy) or `let T = v as unknown as ty;` (cast) at the end of the loop body
        let cast_copy = line.strip_prefix("let ").filter(|l| l.contains(" as unknown as ")).and_then(|l| l.split(' ').next());
        let plain_copy = match (prev.strip_prefix("let "), line.trim_end_matches(';').split_once(" = ")) {
          (Some(decl), Some((lhs, _))) if decl.starts_with(lhs) && decl.contains(':') => Some(lhs),
          _ => None,
        };
        if let Some(lhs) = cast_copy.or(plain_copy) {
          {
            let needle = format!("(local.set ${lhs} ");
            if let Some(l) = wat.lines().find(|l| l.contains(&needle)) {
              if l.contains("ref.cast") {
                println!("WITNESS: tail call `{what}` ({member}): the saved copy of a loop variable is emitted as a checked cast, which traps when the value is an unboxed variant: {}", l.trim());
                return;
              }
            }
          }
        }
        prev = line;
      }
    }
  }
  println!("WITNESS-SEARCH: no violating history found (6 tail-recursive functions)");
}

fn compile_demo(text: &str) -> Option<(String, String)> {
  let heap = &mut Heap::new();
  let mod_ref = heap.alloc_module_reference_from_string_vec(vec!["Demo".to_string()]);
  let mut sources = HashMap::from([(mod_ref, text.to_string())]);
  for (m, s) in samlang_parser::builtin_std_raw_sources(heap) {
    sources.insert(m, s);
  }
  let result = compile_sources(heap, sources, vec![mod_ref], false).ok()?;
  let ts = result.text_code_results.get("Demo.ts")?.clone();
  let wat = compile_sources_wat_text_for_witness(text)?;
  Some((ts, wat))
}

/// the WebAssembly text of the same program (compile_sources only returns the binary)
fn compile_sources_wat_text_for_witness(text: &str) -> Option<String> {
  let heap = &mut Heap::new();
  let mod_ref = heap.alloc_module_reference_from_string_vec(vec!["Demo".to_string()]);
  let mut sources = HashMap::from([(mod_ref, text.to_string())]);
  for (m, s) in samlang_parser::builtin_std_raw_sources(heap) {
    sources.insert(m, s);
  }
  let mut error_set = samlang_errors::ErrorSet::new();
  let mut parsed = HashMap::new();
  for (m, s) in &sources {
    parsed.insert(*m, samlang_parser::parse_source_module_from_text(s, *m, heap, &mut error_set));
  }
  let checked = samlang_checker::type_check_sources(&parsed, &mut error_set).0;
  if error_set.has_errors() {
    return None;
  }
  let mir = compile_sources_to_mir(heap, &checked);
  let mir = samlang_optimization::optimize_sources(heap, mir, &samlang_optimization::ALL_ENABLED_CONFIGURATION);
  let lir = compile_mir_to_lir(heap, mir);
  Some(compile_lir_to_wasm(heap, lir).0)
}

// Witness search for units `wasmlower` / `oparms` (C01, C04): every source operator applied to a run-time
// value and a constant (also powers of two) must come out as its own WebAssembly instruction and its own
// TypeScript template, operands in source order.
#[test]
fn verif_witness_search_operators() {
  let ops: [(&str, &str, &str); 11] = [
    ("+", "i32.add", "{a} + {b}"), ("-", "i32.add", "{a} + -{b}"), ("*", "i32.mul", "{a} * {b}"),
    ("/", "i32.div_s", "Math.floor({a} / {b})"), ("%", "i32.rem_s", "{a} % {b}"),
    ("<", "i32.lt_s", "Number({a} < {b})"), ("<=", "i32.le_s", "Number({a} <= {b})"),
    (">", "i32.gt_s", "Number({a} > {b})"), (">=", "i32.ge_s", "Number({a} >= {b})"),
    ("==", "i32.eq", "Number({a} == {b})"), ("!=", "i32.ne", "Number({a} != {b})"),
  ];
  let mut checked = 0usize;
  for (op, instr, template) in ops {
    for c in [3, 4, 7, 8, 1024] {
      let is_cmp = template.starts_with("Number");
      let shown = if is_cmp { format!("if x {op} {c} {{ 1 }} else {{ 0 }}") } else { format!("x {op} {c}") };
      let text = format!(
        "class Main {{\n  function main(): unit = {{ let x = \"9\".toInt(); let _ = Process.println(Str.fromInt({shown})); }}\n}}"
      );
      let Some((ts, wat)) = compile_demo(&text) else { continue };
      checked += 1;
      let konst = if op == "-" { format!("-{c}") } else { c.to_string() };
      let wat_ok = wat.lines().any(|l| l.contains(&format!("({instr} (local.get ")) && l.contains(&format!("(i32.const {konst}))")));
      if !wat_ok {
        println!("WITNESS: `x {op} {c}` (x known only at run time): the emitted WebAssembly has no `({instr} (local.get ..) (i32.const {konst}))`; main: {}",
          wat.split("(func $_Demo_Main$main").nth(1).unwrap_or("").split("\n)\n").next().unwrap_or("").replace('\n', " "));
        return;
      }
      let tail = template.replace("{a}", "").replace("{b}", &c.to_string());
      let tail = tail.trim_start_matches("Math.floor(").trim_start_matches("Number(");
      let ts_ok = ts.lines().any(|l| l.contains(tail) && (template.starts_with("Math.floor") == l.contains("Math.floor(")) && (is_cmp == l.contains("Number(")));
      if !ts_ok {
        println!("WITNESS: `x {op} {c}` (x known only at run time): the emitted TypeScript has no line of the form `{}`; main: {}",
          template.replace("{a}", "x").replace("{b}", &c.to_string()),
          ts.split("function _Demo_Main$main").nth(1).unwrap_or("").split("\n}\n").next().unwrap_or("").replace('\n', " "));
        return;
      }
    }
  }
  println!("WITNESS-SEARCH: no violating history found ({checked} operator / constant pairs)");
}

fn wat_bytes(s: &str) -> Vec<u8> {
  let cs: Vec<char> = s.chars().collect();
  let mut out = Vec::new();
  let mut i = 0;
  while i < cs.len() {
    if cs[i] == '\\' && i + 2 < cs.len() {
      out.push(u8::from_str_radix(&cs[i + 1..i + 3].iter().collect::<String>(), 16).unwrap_or(b'?'));
      i += 3;
    } else {
      // a character written as itself stands for its UTF-8 encoding (WebAssembly text format, string literals)
      let mut buffer = [0u8; 4];
      out.extend_from_slice(cs[i].encode_utf8(&mut buffer).as_bytes());
      i += 1;
    }
  }
  out
}

// Witness search for unit `strconst` (C04): plain ASCII string constants (substrings, prefixes, duplicates,
// the empty string) must denote the same text in the TypeScript literal and in the WebAssembly data segment
// at the recorded offset and length.
#[test]
fn verif_witness_search_string_constants() {
  let lists: [&[&str]; 5] = [
    &["h\u{e9}llo w\u{f6}rld", "prix: 5 \u{20ac} / 5", "\u{e9}", "plain ascii", "\u{4e2d}\u{6587}"],
    &["Hello World", "World", "Hello", "", "lo W"],
    &["abc", "abc1", "bc", "c", "abcabc"],
    &["x", "xx", "xxx", "y x"],
    &["The quick brown fox", "quick", "fox", "The"],
  ];
  let mut checked = 0usize;
  for list in lists {
    let prints = list.iter().map(|s| format!("let _ = Process.println(\"{s}\");")).collect::<Vec<_>>().join(" ");
    let text = format!("class Main {{\n  function main(): unit = {{ {prints} }}\n}}");
    let Some((ts, wat)) = compile_demo(&text) else { continue };
    let data = wat.lines().find_map(|l| l.strip_prefix("(data $d2 \"").and_then(|r| r.strip_suffix("\")"))).map(wat_bytes).unwrap_or_default();
    for line in ts.lines() {
      let Some(rest) = line.strip_prefix("const GLOBAL_STRING_") else { continue };
      let Some((idx, rest)) = rest.split_once(": _Str = [0, `") else { continue };
      let Some(ts_text) = rest.strip_suffix("` as unknown as number];") else { continue };
      let needle = format!("(global.set $GLOBAL_STRING_{idx} (array.new_data $_Str $d2 (i32.const ");
      let Some(init) = wat.lines().find(|l| l.contains(&needle)) else {
        println!("WITNESS: string constant {idx} ({ts_text:?}) has no WebAssembly initialiser");
        return;
      };
      let nums: Vec<usize> = init.split("(i32.const ").skip(1).filter_map(|p| p.split(')').next().and_then(|n| n.trim().parse().ok())).collect();
      checked += 1;
      // compared byte for byte (the UTF-8 bytes of the TypeScript literal against the data at offset / length)
      let same_bytes = nums.len() == 2 && nums[0] + nums[1] <= data.len() && &data[nums[0]..nums[0] + nums[1]] == ts_text.as_bytes();
      let wasm_text = if nums.len() == 2 && nums[0] + nums[1] <= data.len() {
        String::from_utf8_lossy(&data[nums[0]..nums[0] + nums[1]]).to_string()
      } else {
        format!("<offset/length {nums:?} outside the {} data bytes>", data.len())
      };
      if !same_bytes {
        println!("WITNESS: string constant {idx}: the TypeScript literal is {ts_text:?}, the WebAssembly data at {nums:?} is {wasm_text:?}; constants of the program: {list:?}");
        return;
      }
    }
  }
  println!("WITNESS-SEARCH: no violating history found ({checked} string constants)");
}

// Witness search for unit `enumlayout` (C01): a variant whose payload can itself be an unboxed value (a tag-only
// variant of another enum, or the enum being defined) must stay boxed, otherwise two different values share one
// representation.  Looks at the emitted TypeScript type definitions: a boxed variant has a `$_Sub` tuple type.
#[test]
fn verif_witness_search_enum_layout() {
  let programs: [(&str, &str, &str); 3] = [
    (
      "payload enum with a tag-only variant",
      "class Shape(Dot, Circle(int)) { method show(): Str = match this { Dot -> \"dot\", Circle(r) -> \"circle\" } }\nclass Opt<T>(None, Some(T)) { function <T> some(t: T): Opt<T> = Opt.Some(t) function <T> none(): Opt<T> = Opt.None<T>() }\nclass Main {\n  function describe(o: Opt<Shape>): Str = match o { None -> \"none\", Some(s) -> s.show() }\n  function main(): unit = { let _ = Process.println(Main.describe(Opt.some(Shape.Dot()))); let _ = Process.println(Main.describe(Opt.none<Shape>())); }\n}",
      "type Demo_Opt__Demo_Shape$_Sub",
    ),
    (
      "payload enum with only tag-only variants",
      "class Color(Red, Green) { method show(): Str = match this { Red -> \"red\", Green -> \"green\" } }\nclass Opt<T>(None, Some(T)) { function <T> some(t: T): Opt<T> = Opt.Some(t) function <T> none(): Opt<T> = Opt.None<T>() }\nclass Main {\n  function describe(o: Opt<Color>): Str = match o { None -> \"none\", Some(s) -> s.show() }\n  function main(): unit = { let _ = Process.println(Main.describe(Opt.some(Color.Red()))); let _ = Process.println(Main.describe(Opt.none<Color>())); }\n}",
      "type Demo_Opt__Demo_Color$_Sub",
    ),
    (
      "recursive enum",
      "class Nat(Z, S(Nat)) { method toInt(): int = match this { Z -> 0, S(n) -> 1 + n.toInt() } }\nclass Main { function main(): unit = { let _ = Process.println(Str.fromInt(Nat.S(Nat.S(Nat.Z())).toInt())); } }",
      "type Demo_Nat$_Sub",
    ),
  ];
  for (what, text, needed) in programs {
    let Some((ts, _)) = compile_demo(text) else {
      println!("WITNESS-SEARCH: program `{what}` does not compile");
      continue;
    };
    if !ts.lines().any(|l| l.starts_with(needed)) {
      println!(
        "WITNESS: {what}: the variant with a payload is stored unboxed (no `{needed}..` tuple type is emitted), so a payload that is itself an unboxed value cannot be told from the enum's own tag-only variant; emitted types: {}",
        ts.lines().filter(|l| l.starts_with("type Demo_")).collect::<Vec<_>>().join(" ")
      );
      return;
    }
  }
  println!("WITNESS-SEARCH: no violating history found (3 enum layouts)");
}
