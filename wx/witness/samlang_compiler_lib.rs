// Witness search for unit `errgate` (C06).  NOT a deciding check: it runs only after Verus reported a failed
// obligation or could not process the changed code, and looks for a program with a static error that the REAL
// compile_sources compiles anyway (returns Ok).
use super::*;
use samlang_heap::Heap;
use std::collections::HashMap;

#[test]
fn verif_witness_search() {
  let programs: [(&str, &str); 9] = [
    ("operand of the wrong type", "class Main { function main(): unit = { let _ = 1 + true; } }"),
    ("wrong number of arguments", "class Main { function f(a: int): int = a function main(): unit = { let _ = Main.f(1, 2); } }"),
    ("unresolved variable", "class Main { function main(): unit = { let _ = nope; } }"),
    ("unresolved class", "class Main { function main(): unit = { let _ = Nope.f(); } }"),
    ("unresolved module", "import { A } from Missing\nclass Main { function main(): unit = {} }"),
    ("integer literal out of range", "class Main { function main(): unit = { let _ = 2147483648; } }"),
    ("integer literal out of range in a sum", "class Main { function main(): unit = { let _ = 1 + 2147483648; } }"),
    ("non-exhaustive match", "class O(A, B) { function f(o: O): int = match o { A -> 1 } } class Main { function main(): unit = {} }"),
    ("syntax error", "class Main { function main(): unit = { let = ; } }"),
  ];
  for (what, text) in programs {
    let heap = &mut Heap::new();
    let mod_ref = heap.alloc_module_reference_from_string_vec(vec!["Demo".to_string()]);
    let mut sources = HashMap::from([(mod_ref, text.to_string())]);
    for (m, s) in samlang_parser::builtin_std_raw_sources(heap) {
      sources.insert(m, s);
    }
    if compile_sources(heap, sources, vec![mod_ref], false).is_ok() {
      println!("WITNESS: a program with a static error ({what}) is compiled: {text}");
      return;
    }
  }
  println!("WITNESS-SEARCH: no violating history found (9 erroneous programs)");
}
