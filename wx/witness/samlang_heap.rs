// Witness search for unit `heap` (C17).  NOT a deciding check: it runs only after Verus has reported a
// failed obligation (or lost proof anchors) and looks for a concrete history of operations on the
// REAL heap that violates a contract clause, so that the violation can be replayed.  Spliced under
// cfg(test) as a child module of crates/samlang-heap/src/lib.rs in a scratch copy.
use super::*;

#[derive(Clone, PartialEq, Debug)]
enum Slot {
  Perm(String),
  Temp(String, bool),
  Dead,
}

fn snapshot(h: &Heap) -> Vec<Slot> {
  h.str_pointer_table
    .iter()
    .map(|s| match s {
      StringStoredInHeap::Permanent(s) => Slot::Perm(s.to_string()),
      StringStoredInHeap::Temporary(s, m) => Slot::Temp(s.clone(), *m),
      StringStoredInHeap::Deallocated(_) => Slot::Dead,
    })
    .collect()
}

fn content(s: &Slot) -> Option<&str> {
  match s {
    Slot::Perm(s) | Slot::Temp(s, _) => Some(s),
    Slot::Dead => None,
  }
}

/// executable version of Heap::wf of the Verus unit
fn wf(h: &Heap) -> Result<(), String> {
  let t = snapshot(h);
  if h.sweep_index > t.len() {
    return Err(format!("wf: sweep_index {} > len {}", h.sweep_index, t.len()));
  }
  for (i, s) in t.iter().enumerate() {
    match s {
      Slot::Temp(s, _) => {
        if s.len() <= 15 {
          return Err(format!("wf: temporary slot {i} holds an inline-able string"));
        }
        if h.interned_string.get(s.as_str()) != Some(&(i as u32)) {
          return Err(format!("wf: temporary slot {i} ({s:?}) is not interned under its own text"));
        }
        if h.interned_static_str.contains_key(s.as_str()) {
          return Err(format!("wf: text of temporary slot {i} is also a static key"));
        }
      }
      Slot::Perm(s) => {
        if s.len() > 15 && h.interned_static_str.get(s.as_str()) != Some(&(i as u32)) {
          return Err(format!("wf: permanent slot {i} ({s:?}) is not interned under its own text"));
        }
      }
      Slot::Dead => {}
    }
  }
  if h.interned_string.len() != t.iter().filter(|s| matches!(s, Slot::Temp(..))).count() {
    return Err("wf: interned_string has a key without a temporary slot".to_string());
  }
  for (k, id) in h.interned_static_str.iter() {
    match t.get(*id as usize) {
      Some(Slot::Perm(s)) if s == k => {}
      _ => return Err(format!("wf: static key {k:?} does not point at a permanent slot with its text")),
    }
  }
  for parts in h.module_reference_pointer_table.iter() {
    for p in parts.iter() {
      if let Some(id) = p.0.as_heap_id() {
        if !matches!(t.get(id as usize), Some(Slot::Perm(_))) {
          return Err(format!("wf: module-reference part with id {id} is not permanent"));
        }
      }
    }
  }
  Ok(())
}

fn read(h: &Heap, p: PStr) -> Option<String> {
  match p.0.as_inline_str() {
    Ok(s) => Some(s.to_string()),
    Err(id) => match h.str_pointer_table.get(id as usize) {
      Some(StringStoredInHeap::Permanent(s)) => Some(s.to_string()),
      Some(StringStoredInHeap::Temporary(s, _)) => Some(s.clone()),
      _ => None,
    },
  }
}

/// frame shared by every operation except sweep (Heap::preserves of the Verus unit)
fn preserves(before: &[Slot], after: &[Slot]) -> Result<(), String> {
  if after.len() < before.len() {
    return Err("frame: table shrank".to_string());
  }
  for i in 0..before.len() {
    if content(&after[i]) != content(&before[i]) {
      return Err(format!("frame: slot {i} changed its text or was reclaimed: {:?} -> {:?}", before[i], after[i]));
    }
    if matches!(before[i], Slot::Perm(_)) && !matches!(after[i], Slot::Perm(_)) {
      return Err(format!("frame: permanent slot {i} stopped being permanent"));
    }
    if matches!(before[i], Slot::Temp(_, true)) && !matches!(after[i], Slot::Temp(_, true) | Slot::Perm(_)) {
      return Err(format!("frame: mark bit of slot {i} was cleared outside a sweep"));
    }
  }
  Ok(())
}

const LONG: [&str; 3] =
  ["a_string_that_is_intentionally_long_1", "a_string_that_is_intentionally_long_2", "another_quite_long_interned_string"];
const SHORT: [&str; 4] = ["", "short", "exactly15bytes_", "seeded_modul_\u{e9}"];

#[derive(Clone, Copy, Debug)]
enum Op {
  AllocString(usize),   // index into LONG ++ SHORT
  AllocStatic(usize),   // index into LONG ++ SHORT
  Mark(usize),          // index into handles produced so far
  MakePermanent(usize), // idem
  ModRef(usize),        // module reference with one part: handle
  Sweep(usize),
  AddUnmarked,
  PopUnmarked,
  TempStr,
}

fn text(i: usize) -> &'static str {
  if i < LONG.len() { LONG[i] } else { SHORT[i - LONG.len()] }
}

/// runs one history on a fresh real heap; Err = (index of the failing op, violated clause)
fn run(ops: &[Op]) -> Result<(), (usize, String)> {
  let mut h = Heap::new();
  let mut handles: Vec<(PStr, String)> = Vec::new();
  // (handle, text) pairs that must stay readable: permanent / module-reference parts
  let mut protected: Vec<(PStr, String)> = Vec::new();
  for (n, op) in ops.iter().enumerate() {
    let before = snapshot(&h);
    let gate_closed = !h.unmarked_module_references.is_empty();
    let cursor = h.sweep_index;
    let fail = |m: String| Err((n, m));
    match *op {
      Op::AllocString(i) | Op::AllocStatic(i) => {
        let s = text(i);
        let is_static = matches!(op, Op::AllocStatic(_));
        let p = if is_static { h.alloc_str_for_test(s) } else { h.alloc_string(s.to_string()) };
        let after = snapshot(&h);
        if read(&h, p).as_deref() != Some(s) {
          return fail(format!("alloc: reads_back_exact_string: got {:?}, want {s:?}", read(&h, p)));
        }
        if p.0.as_heap_id().is_none() != (s.len() <= 15) {
          return fail("alloc: inline_iff_short".to_string());
        }
        if let Err(m) = preserves(&before, &after) {
          return fail(format!("alloc: {m}"));
        }
        if after.len() > before.len() + 1 {
          return fail("alloc: table_grows_by_at_most_one".to_string());
        }
        if let Some(id) = p.0.as_heap_id() {
          if is_static && !matches!(after[id as usize], Slot::Perm(_)) {
            return fail("alloc_str_internal: result_is_permanent".to_string());
          }
          if is_static {
            protected.push((p, s.to_string()));
          }
        }
        // equal handles <=> equal strings, against every live earlier handle
        for (q, t) in handles.iter() {
          if read(&h, *q).is_some() && ((*q == p) != (t == s)) {
            return fail(format!("equal_handles_iff_equal_strings: {t:?} vs {s:?}"));
          }
        }
        handles.push((p, s.to_string()));
      }
      Op::Mark(k) => {
        if let Some((p, _)) = handles.get(k) {
          h.mark(*p);
          let after = snapshot(&h);
          if let Err(m) = preserves(&before, &after) {
            return fail(format!("mark: {m}"));
          }
          if let Some(id) = p.0.as_heap_id() {
            if matches!(before[id as usize], Slot::Temp(..)) && !matches!(after[id as usize], Slot::Temp(_, true)) {
              return fail("mark: mark_bit_set".to_string());
            }
          }
        }
      }
      Op::MakePermanent(k) => {
        if let Some((p, t)) = handles.get(k) {
          let live = read(&h, *p).is_some();
          h.make_string_permanent(*p);
          let after = snapshot(&h);
          if let Err(m) = preserves(&before, &after) {
            return fail(format!("make_string_permanent: {m}"));
          }
          if let (true, Some(id)) = (live, p.0.as_heap_id()) {
            if !matches!(after[id as usize], Slot::Perm(_)) {
              return fail("make_string_permanent: live_handle_becomes_permanent".to_string());
            }
            protected.push((*p, t.clone()));
          }
        }
      }
      Op::ModRef(k) => {
        if let Some((p, t)) = handles.get(k) {
          if read(&h, *p).is_some() {
            h.alloc_module_reference(vec![*p]);
            let after = snapshot(&h);
            if let Err(m) = preserves(&before, &after) {
              return fail(format!("alloc_module_reference: {m}"));
            }
            if let Some(id) = p.0.as_heap_id() {
              if !matches!(after[id as usize], Slot::Perm(_)) {
                return fail("alloc_module_reference: every_part_permanent".to_string());
              }
            }
            protected.push((*p, t.clone()));
          }
        }
      }
      Op::Sweep(w) => {
        h.sweep(w);
        let after = snapshot(&h);
        if after.len() != before.len() {
          return fail("sweep: len_unchanged".to_string());
        }
        let end = std::cmp::min(cursor.saturating_add(w), before.len());
        for i in 0..before.len() {
          let in_window = !gate_closed && cursor <= i && i < end;
          let ok = match (&before[i], &after[i]) {
            (Slot::Perm(a), Slot::Perm(b)) => a == b,
            (Slot::Dead, Slot::Dead) => true,
            (Slot::Temp(a, true), Slot::Temp(b, m)) => a == b && *m == !in_window,
            (Slot::Temp(a, false), Slot::Temp(b, false)) => a == b && !in_window,
            (Slot::Temp(a, false), Slot::Dead) => in_window && !h.interned_string.contains_key(a.as_str()),
            _ => false,
          };
          if !ok {
            return fail(format!(
              "sweep(work_unit={w}, cursor={cursor}, gate_closed={gate_closed}): slot {i}: {:?} -> {:?}",
              before[i], after[i]
            ));
          }
        }
        let want_cursor = if gate_closed { cursor } else if cursor.saturating_add(w) >= before.len() { 0 } else { cursor + w };
        if h.sweep_index != want_cursor {
          return fail(format!("sweep: cursor {} want {want_cursor}", h.sweep_index));
        }
      }
      Op::AddUnmarked => {
        // one of three module references, chosen by the position in the history: several modules can wait to be marked
        let m = [ModuleReference::DUMMY, ModuleReference::ROOT, ModuleReference::STD_TUPLES][n % 3];
        let waiting_before = h.unmarked_module_references.clone();
        h.add_unmarked_module_reference(m);
        if snapshot(&h) != before {
          return fail("add_unmarked_module_reference: table_unchanged".to_string());
        }
        let mut want = waiting_before;
        want.insert(m);
        if h.unmarked_module_references != want {
          return fail("add_unmarked_module_reference: the waiting set is the old one plus the module".to_string());
        }
      }
      Op::PopUnmarked => {
        let waiting_before = h.unmarked_module_references.clone();
        let popped = h.pop_unmarked_module_reference();
        if snapshot(&h) != before {
          return fail("pop_unmarked_module_reference: table_unchanged".to_string());
        }
        // exactly the module handed out leaves the waiting set (the sweep gate stays closed while any module waits)
        let ok = match popped {
          None => waiting_before.is_empty() && h.unmarked_module_references.is_empty(),
          Some(m) => {
            let mut want = waiting_before.clone();
            waiting_before.contains(&m) && want.remove(&m) && h.unmarked_module_references == want
          }
        };
        if !ok {
          return fail(format!(
            "pop_unmarked_module_reference: {} module(s) were waiting, {} are left after one was handed out",
            waiting_before.len(),
            h.unmarked_module_references.len()
          ));
        }
      }
      Op::TempStr => {
        h.alloc_temp_str();
        if let Err(m) = preserves(&before, &snapshot(&h)) {
          return fail(format!("alloc_temp_str: {m}"));
        }
      }
    }
    if let Err(m) = wf(&h) {
      return Err((n, format!("wf_preserved: {m}")));
    }
    for (p, t) in protected.iter() {
      if read(&h, *p).as_deref() != Some(t.as_str()) {
        return Err((n, format!("permanent / module-reference string {t:?} was reclaimed or changed")));
      }
    }
  }
  Ok(())
}

fn alphabet(n_handles: usize) -> Vec<Op> {
  let mut v = Vec::new();
  for i in 0..(LONG.len() + SHORT.len()) {
    v.push(Op::AllocString(i));
  }
  for i in [0usize, 1, 3, 5, 6] {
    v.push(Op::AllocStatic(i));
  }
  for k in 0..n_handles {
    v.push(Op::Mark(k));
    v.push(Op::MakePermanent(k));
    v.push(Op::ModRef(k));
  }
  for w in [0usize, 1, 2, 3, 1000, usize::MAX] {
    v.push(Op::Sweep(w));
  }
  v.extend([Op::AddUnmarked, Op::PopUnmarked, Op::TempStr]);
  v
}

fn report(ops: &[Op], at: usize, why: &str) -> ! {
  println!("WITNESS: history {:?} violates at step {at}: {why}", &ops[..=at]);
  panic!("contract violated on the real heap");
}

struct Rng(u64);
impl Rng {
  fn next(&mut self) -> u64 {
    self.0 ^= self.0 << 13;
    self.0 ^= self.0 >> 7;
    self.0 ^= self.0 << 17;
    self.0
  }
}

#[test]
fn verif_witness_search() {
  // 1. every history of length <= 3 over the alphabet (handles refer to earlier allocations)
  let alpha = alphabet(2);
  for a in alpha.iter() {
    for b in alpha.iter() {
      for c in alpha.iter() {
        let ops = [*a, *b, *c];
        if let Err((at, why)) = run(&ops) {
          report(&ops, at, &why);
        }
      }
    }
  }
  // 2. random longer histories (seeded)
  let seed: u64 = std::env::var("VERIF_SEED").ok().and_then(|s| s.parse().ok()).unwrap_or(0);
  let mut rng = Rng(0x9E3779B97F4A7C15 ^ seed.wrapping_mul(0xD1B54A32D192ED03) | 1);
  let alpha = alphabet(5);
  for _ in 0..20000 {
    let len = 4 + (rng.next() % 12) as usize;
    let ops: Vec<Op> = (0..len).map(|_| alpha[(rng.next() % alpha.len() as u64) as usize]).collect();
    if let Err((at, why)) = run(&ops) {
      report(&ops, at, &why);
    }
  }
  // 3. collector-focused histories: a few long strings first, then marks / sweeps / gate operations
  for _ in 0..40000 {
    let k = 2 + (rng.next() % 3) as usize;
    let mut ops: Vec<Op> = (0..k).map(|i| Op::AllocString(i % LONG.len())).collect();
    if k > LONG.len() {
      ops[LONG.len()] = Op::AllocStatic(0);
    }
    let len = 3 + (rng.next() % 8) as usize;
    for _ in 0..len {
      let r = rng.next();
      ops.push(match r % 10 {
        0..=3 => Op::Mark((r >> 8) as usize % k),
        4..=7 => Op::Sweep([0usize, 1, 2, 3, 1000, usize::MAX][(r >> 8) as usize % 6]),
        8 => Op::MakePermanent((r >> 8) as usize % k),
        _ => [Op::AddUnmarked, Op::PopUnmarked, Op::AllocString((r >> 8) as usize % LONG.len())][(r >> 16) as usize % 3],
      });
    }
    if let Err((at, why)) = run(&ops) {
      report(&ops, at, &why);
    }
  }
  println!("WITNESS-SEARCH: no violating history found");
}
