// Witness search for unit `ccpbin` (C02).  NOT a deciding check: it runs only after Verus reported a
// failed obligation or could not process the changed code, and looks for a concrete statement
// `r = e1 op e2` and run-time values of its variables on which the REAL optimize_stmt replaces the
// operation by something the target would not compute.  The recorded finding (x / x, x % x with x = 0)
// is excluded, exactly as in the paired restricted obligation.
use super::*;
use samlang_heap::Heap;
include!("/verif/kx/harness/common/wasm_sem_core.rs");

const VALS: [i32; 13] = [0, 1, -1, 2, -2, 7, -7, 31, 32, 33, i32::MIN, i32::MAX, i32::MIN + 1];

fn eval(e: &Expression, x: PStr, xv: i32, y: PStr, yv: i32) -> Option<i32> {
  match e {
    Expression::Int32Literal(v) => Some(*v),
    Expression::Variable(v) if v.name == x => Some(xv),
    Expression::Variable(v) if v.name == y => Some(yv),
    _ => None,
  }
}

#[test]
fn verif_witness_search() {
  let heap = &mut Heap::new();
  let x = heap.alloc_str_for_test("x");
  let y = heap.alloc_str_for_test("y");
  let r = heap.alloc_str_for_test("r");
  let mut operands = vec![Expression::var_name(x, INT_32_TYPE), Expression::var_name(y, INT_32_TYPE)];
  for v in VALS {
    operands.push(Expression::i32(v));
  }
  let mut checked = 0u64;
  for k in 0..16u8 {
    let op = op_of(k);
    for e1 in operands.iter() {
      for e2 in operands.iter() {
        let self_division = matches!((e1, e2), (Expression::Variable(a), Expression::Variable(b)) if a.name == b.name)
          && (op == BinaryOperator::DIV || op == BinaryOperator::MOD);
        let stmt = Statement::Binary(Binary { name: r, operator: op, e1: *e1, e2: *e2 });
        let mut value_cx = LocalValueContextForOptimization::new();
        let mut index_access_cx = LocalStackedContext::new();
        let mut binary_expr_cx = BinaryExpressionContext::new();
        let mut collector = Vec::new();
        optimize_stmt(&stmt, &mut value_cx, &mut index_access_cx, &mut binary_expr_cx, &mut collector);
        let replaced_by = value_cx.get(&r).copied();
        for xv in VALS {
          for yv in VALS {
            let (Some(a), Some(b)) = (eval(e1, x, xv, y, yv), eval(e2, x, xv, y, yv)) else { continue };
            let want = wasm_sem(op, a, b);
            if self_division && want.is_none() {
              continue;
            }
            let got = if let Some(v) = &replaced_by {
              eval(v, x, xv, y, yv)
            } else if let Some(Statement::Binary(b2)) = collector.last() {
              match (eval(&b2.e1, x, xv, y, yv), eval(&b2.e2, x, xv, y, yv)) {
                (Some(a2), Some(b2v)) if b2.name == r => wasm_sem(b2.operator, a2, b2v),
                _ => continue,
              }
            } else {
              println!(
                "WITNESS: optimize_stmt dropped `r = {:?} {:?} {:?}` without binding r",
                e1, op, e2
              );
              return;
            };
            checked += 1;
            if got != want {
              println!(
                "WITNESS: r = e1 {:?} e2 with e1 = {}, e2 = {}, x = {}, y = {}: the target computes {:?} (None = trap), the optimised statement ({}) gives {:?}",
                op,
                e1.debug_print(heap, &SymbolTable::new()),
                e2.debug_print(heap, &SymbolTable::new()),
                xv,
                yv,
                want,
                if replaced_by.is_some() { "replaced by a value" } else { "rewritten operation" },
                got
              );
              return;
            }
          }
        }
      }
    }
  }
  println!("WITNESS-SEARCH: no violating history found ({} operator/operand/valuation combinations)", checked);
}
