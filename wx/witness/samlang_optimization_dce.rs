// Witness search for unit `dce` (C02).  NOT a deciding check: it runs only after Verus reported a failed
// obligation or could not process the changed code, and looks for a statement list on which the REAL
// dead-code elimination (optimize_stmts) removes an operation that can trap, removes a call, drops a result
// binding that is read, or leaves an operand of a kept statement undefined.
use super::*;
use samlang_ast::mir::{FunctionName, FunctionNameExpression, INT_32_TYPE, SymbolTable, Type, VariableName, ZERO};
use samlang_heap::Heap;

#[test]
fn verif_witness_search() {
  let heap = &mut Heap::new();
  let table = &mut SymbolTable::new();
  let ops = [
    BinaryOperator::MUL, BinaryOperator::DIV, BinaryOperator::MOD, BinaryOperator::PLUS, BinaryOperator::MINUS,
    BinaryOperator::LAND, BinaryOperator::LOR, BinaryOperator::SHL, BinaryOperator::SHR, BinaryOperator::XOR,
    BinaryOperator::LT, BinaryOperator::LE, BinaryOperator::GT, BinaryOperator::GE, BinaryOperator::EQ, BinaryOperator::NE,
  ];
  let a = heap.alloc_str_for_test("a");
  let b = heap.alloc_str_for_test("b");
  let u = heap.alloc_str_for_test("u");
  let r = heap.alloc_str_for_test("r");
  let fn_name = FunctionNameExpression {
    name: FunctionName { type_name: table.create_type_name_for_test(heap.alloc_str_for_test("T")), fn_name: heap.alloc_str_for_test("f") },
    type_: Type::new_fn_unwrapped(vec![INT_32_TYPE], INT_32_TYPE),
  };
  let var = |n| Expression::var_name(n, INT_32_TYPE);
  let mut checked = 0usize;
  for op in ops {
    for used in [false, true] {
      // a = <param>; u = a op b; (r = u + 0 when used); return r or a
      let mut stmts = vec![Statement::binary(u, op, var(a), var(b))];
      if used {
        stmts.push(Statement::binary(r, BinaryOperator::PLUS, var(u), ZERO));
      }
      let mut set = HashSet::new();
      collect_use_from_expression(&if used { var(r) } else { var(a) }, &mut set);
      optimize_stmts(&mut stmts, &mut set);
      checked += 1;
      let kept = stmts.iter().any(|s| matches!(s, Statement::Binary(x) if x.name == u));
      let can_trap = op == BinaryOperator::DIV || op == BinaryOperator::MOD;
      if (used || can_trap) && !kept {
        println!("WITNESS: dead-code elimination removed `u = a {:?} b` ({}): statements left: {}", op,
          if used { "its result is read by `r = u + 0`, which is returned" } else { "the operation can trap" }, stmts.len());
        return;
      }
      if kept && !(set.contains(&a) && set.contains(&b)) {
        println!("WITNESS: dead-code elimination kept `u = a {:?} b` but did not record its operands a, b as used", op);
        return;
      }
    }
  }
  // a call to an ordinary function and to every runtime function (a "pure looking" builtin can still trap or print)
  let mut callees = vec![fn_name.clone()];
  for name in [
    FunctionName::PROCESS_PRINTLN, FunctionName::PROCESS_PANIC, FunctionName::STR_FROM_INT, FunctionName::STR_TO_INT,
    FunctionName::STR_CONCAT, FunctionName::STR_EQ, FunctionName::VEC_EMPTY, FunctionName::VEC_OF,
    FunctionName::VEC_WITH_CAPACITY, FunctionName::VEC_LENGTH, FunctionName::VEC_CAPACITY, FunctionName::VEC_RESERVE,
    FunctionName::VEC_PUSH, FunctionName::VEC_POP, FunctionName::VEC_GET, FunctionName::VEC_SET, FunctionName::VEC_EQ,
  ] {
    callees.push(FunctionNameExpression { name, type_: Type::new_fn_unwrapped(vec![INT_32_TYPE], INT_32_TYPE) });
  }
  for callee in callees {
    for (collector, read) in [(None, false), (Some(u), false), (Some(u), true)] {
      let mut stmts = vec![Statement::Call {
        callee: Callee::FunctionName(callee.clone()),
        arguments: vec![var(a)],
        return_type: INT_32_TYPE,
        return_collector: collector,
      }];
      let mut set = HashSet::new();
      collect_use_from_expression(&if read { var(u) } else { ZERO }, &mut set);
      optimize_stmts(&mut stmts, &mut set);
      checked += 1;
      match stmts.first() {
        Some(Statement::Call { return_collector, .. }) => {
          if read && return_collector.is_none() {
            println!("WITNESS: dead-code elimination dropped the result binding `u` of a call although `u` is returned");
            return;
          }
          if !set.contains(&a) {
            println!("WITNESS: dead-code elimination kept a call but did not record its argument a as used");
            return;
          }
        }
        _ => {
          println!("WITNESS: dead-code elimination removed a call to {} (result {}): a call may print, trap or not return",
            callee.name.encoded_for_test(heap, table), if collector.is_some() { "bound but unread" } else { "unbound" });
          return;
        }
      }
    }
  }
  let _ = VariableName { name: a, type_: INT_32_TYPE };
  println!("WITNESS-SEARCH: no violating history found ({checked} statement lists)");
}
