// Witness search for unit `loopguard` (C02).  NOT a deciding check: it runs only after Verus reported a failed
// obligation or could not process the changed code (and in the thorough tier), and looks for a loop head
// `cc = e1 op e2; if (cc xor invert) break;` for which the REAL extract_loop_guard_structure returns a guard that
// is not the loop's continue condition, or a bound the loop changes.
use super::*;
use samlang_ast::mir::{INT_32_TYPE, SymbolTable, ZERO};
use samlang_heap::Heap;

fn holds(g: GuardOperator, a: i64, b: i64) -> bool {
  match g {
    GuardOperator::LT => a < b,
    GuardOperator::LE => a <= b,
    GuardOperator::GT => a > b,
    GuardOperator::GE => a >= b,
  }
}
fn cmp(op: BinaryOperator, a: i64, b: i64) -> Option<bool> {
  match op {
    BinaryOperator::LT => Some(a < b),
    BinaryOperator::LE => Some(a <= b),
    BinaryOperator::GT => Some(a > b),
    BinaryOperator::GE => Some(a >= b),
    _ => None,
  }
}

#[test]
fn verif_witness_search() {
  let heap = &mut Heap::new();
  let i = heap.alloc_str_for_test("i");
  let n = heap.alloc_str_for_test("n");
  let cc = heap.alloc_str_for_test("cc");
  let changed_by_the_loop = HashSet::from([i, cc]);
  let operands = [Expression::var_name(i, INT_32_TYPE), Expression::var_name(n, INT_32_TYPE), Expression::i32(5)];
  let value = |e: &Expression, iv: i64, nv: i64| match e {
    Expression::Variable(v) if v.name == i => iv,
    Expression::Variable(_) => nv,
    Expression::Int32Literal(c) => *c as i64,
    _ => 0,
  };
  let ops = [
    BinaryOperator::LT, BinaryOperator::LE, BinaryOperator::GT, BinaryOperator::GE, BinaryOperator::EQ,
    BinaryOperator::NE, BinaryOperator::PLUS,
  ];
  let mut checked = 0usize;
  for op in ops {
    for e1 in operands.iter() {
      for e2 in operands.iter() {
        for invert in [false, true] {
          let stmts = vec![
            Statement::Binary(Binary { name: cc, operator: op, e1: *e1, e2: *e2 }),
            Statement::SingleIf {
              condition: Expression::var_name(cc, INT_32_TYPE),
              invert_condition: invert,
              statements: vec![Statement::Break(ZERO)],
            },
          ];
          let Some(s) = extract_loop_guard_structure((&stmts, &None), &changed_by_the_loop) else { continue };
          checked += 1;
          if let PotentialLoopInvariantExpression::Var(v) = &s.guard_expression {
            if changed_by_the_loop.contains(&v.name) {
              println!("WITNESS: loop head `cc = {:?} {:?} {:?}` (invert {invert}): the guard bound is `i`, which the loop changes", e1, op, e2);
              return;
            }
          }
          for iv in [-3i64, 0, 4, 5, 6, 9] {
            for nv in [-3i64, 0, 4, 5, 6, 9] {
              let Some(c) = cmp(op, value(e1, iv, nv), value(e2, iv, nv)) else {
                println!("WITNESS: loop head with operator {:?} is taken for a guarded loop", op);
                return;
              };
              let keeps_running = !(if invert { !c } else { c });
              let p = if s.potential_basic_induction_variable_with_loop_guard == i { iv } else { nv };
              let b = match &s.guard_expression {
                PotentialLoopInvariantExpression::Int(c) => *c as i64,
                PotentialLoopInvariantExpression::Var(v) => if v.name == i { iv } else { nv },
              };
              if holds(s.guard_operator, p, b) != keeps_running {
                println!(
                  "WITNESS: loop head `cc = e1 {:?} e2; if ({}cc) break` with e1 = {}, e2 = {}, i = {iv}, n = {nv}: the loop {} but the extracted guard `{} {:?} bound` says it {}",
                  op, if invert { "!" } else { "" },
                  e1.debug_print(heap, &SymbolTable::new()), e2.debug_print(heap, &SymbolTable::new()),
                  if keeps_running { "keeps running" } else { "breaks" },
                  s.potential_basic_induction_variable_with_loop_guard.as_str(heap), s.guard_operator,
                  if keeps_running { "breaks" } else { "keeps running" }
                );
                return;
              }
            }
          }
        }
      }
    }
  }
  println!("WITNESS-SEARCH: no violating history found ({checked} recognised loop heads)");
}
