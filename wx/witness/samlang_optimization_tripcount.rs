// Witness search for unit `tripcount` (C02 / C05).  NOT a deciding check: it runs only after Verus reported a failed
// obligation or could not process the changed code (and in the thorough tier), and looks for (initial value, step,
// guard, bound) on which the REAL analyze_number_of_iterations_to_break_guard panics or returns a count that is
// not the number of iterations of the loop (computed in 64-bit arithmetic).
use super::*;

fn holds(g: GuardOperator, a: i64, b: i64) -> bool {
  match g {
    GuardOperator::LT => a < b,
    GuardOperator::LE => a <= b,
    GuardOperator::GT => a > b,
    GuardOperator::GE => a >= b,
  }
}

#[test]
fn verif_witness_search() {
  let interesting: [i32; 17] = [
    i32::MIN, i32::MIN + 1, i32::MIN + 2, -1_000_000_007, -1000, -7, -2, -1, 0, 1, 2, 7, 1000, 1_000_000_007,
    i32::MAX - 2, i32::MAX - 1, i32::MAX,
  ];
  let steps: [i32; 12] = [i32::MIN, -1_000_000_007, -1000, -3, -2, -1, 1, 2, 3, 1000, 1_000_000_007, i32::MAX];
  let mut checked = 0usize;
  for g in [GuardOperator::LT, GuardOperator::LE, GuardOperator::GT, GuardOperator::GE] {
    for init in interesting {
      for step in steps {
        for bound in interesting {
          let r = std::panic::catch_unwind(|| analyze_number_of_iterations_to_break_guard(init, step, g, bound));
          checked += 1;
          let Ok(r) = r else {
            println!("WITNESS: analyze_number_of_iterations_to_break_guard({init}, {step}, {:?}, {bound}) panics", g);
            return;
          };
          if let Some(n) = r {
            // the loop keeps running while `i g bound`; n must be the least k >= 0 with !(init + k*step g bound),
            // and the induction variable must not leave the i32 range on the way
            let (i0, s, b) = (init as i64, step as i64, bound as i64);
            let n64 = n as i64;
            let ok = n64 >= 0
              && !holds(g, i0 + n64 * s, b)
              && (n64 == 0 || holds(g, i0 + (n64 - 1) * s, b))
              && (i0 + n64 * s) >= i32::MIN as i64
              && (i0 + n64 * s) <= i32::MAX as i64;
            // for a monotone progression "holds at n-1 and fails at n" means n is the least such k
            if !ok {
              println!(
                "WITNESS: analyze_number_of_iterations_to_break_guard({init}, {step}, {:?}, {bound}) = Some({n}), but the loop `i {:?} {bound}` starting at {init} with step {step} does not stop after exactly {n} iterations inside the 32-bit range",
                g, g
              );
              return;
            }
          }
        }
      }
    }
  }
  println!("WITNESS-SEARCH: no violating history found ({checked} loops)");
}
