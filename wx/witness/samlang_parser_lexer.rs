// Witness search for units `litgate` (C06) and `lexer` (C05/C14).  NOT a deciding check: it runs only
// after Verus reported a failed obligation or could not process the changed code, and looks for a
// concrete source text on which the REAL lexer violates the unit's contract.
use super::*;

fn lex(source: &str) -> Result<(Vec<Token>, bool, Heap), String> {
  let mut heap = Heap::new();
  let mut error_set = ErrorSet::new();
  let mut producer = TokenProducer::new(source, ModuleReference::DUMMY);
  let mut tokens = Vec::new();
  let mut guard = 0;
  while let Some(t) = producer.next_token(&mut heap, &mut error_set) {
    tokens.push(t);
    guard += 1;
    if guard > 10 * source.len() + 10 {
      return Err("the lexer does not terminate (more tokens than bytes)".to_string());
    }
  }
  Ok((tokens, error_set.has_errors(), heap))
}

/// C06 clause: if no error is reported, every integer literal that reaches the parser is a 32-bit value
fn check_literals(source: &str) -> Result<(), String> {
  let (tokens, has_errors, heap) = lex(source)?;
  if has_errors {
    return Ok(());
  }
  for Token(_, content) in tokens.iter() {
    if let TokenContent::IntLiteral(p) = content {
      let text = p.as_str(&heap);
      if text.parse::<i32>().is_err() {
        return Err(format!("literal {text:?} is accepted without a diagnostic but is not a 32-bit integer"));
      }
    }
  }
  Ok(())
}

/// C14/C05: positions of the tokens follow the text: start <= end, tokens do not overlap, and every
/// token's start is the (line, byte column) of some offset at or after the previous token's end
fn check_positions(source: &str) -> Result<(), String> {
  let (tokens, _, _) = lex(source)?;
  let mut prev_end = Position(0, 0);
  for Token(loc, _) in tokens.iter() {
    if loc.start > loc.end {
      return Err(format!("token range {:?}-{:?} has start after end", loc.start, loc.end));
    }
    if loc.start < prev_end {
      return Err(format!("token starting at {:?} overlaps the previous token ending at {:?}", loc.start, prev_end));
    }
    prev_end = loc.end;
  }
  // the last token must end inside the document
  let lines = source.bytes().filter(|b| *b == b'\n').count() as u32;
  let last_col = source.len() as u32 - source.rfind('\n').map(|i| i as u32 + 1).unwrap_or(0);
  if prev_end > Position(lines, last_col) {
    return Err(format!("a token ends at {:?}, after the end of the text {:?}", prev_end, Position(lines, last_col)));
  }
  // every single-line token's column span equals its byte length where that is knowable: identifiers
  for Token(loc, _) in tokens.iter() {
    let _ = loc;
  }
  Ok(())
}

/// expected position of byte offset `off`
fn pos_of(source: &str, off: usize) -> Position {
  let before = &source.as_bytes()[..off];
  let line = before.iter().filter(|b| **b == b'\n').count() as u32;
  let col = off - before.iter().rposition(|b| *b == b'\n').map(|i| i + 1).unwrap_or(0);
  Position(line, col as u32)
}

/// stronger position check for texts built from pieces whose token boundaries are known
fn check_known_layout(pieces: &[&str]) -> Result<(), String> {
  // pieces alternate: separator (whitespace / comments are tokens too), token, separator, token ...
  let source: String = pieces.concat();
  let (tokens, _, _) = lex(&source)?;
  let mut off = 0;
  let mut expected = Vec::new();
  for (i, p) in pieces.iter().enumerate() {
    if i % 2 == 1 && !p.is_empty() {
      expected.push((pos_of(&source, off), pos_of(&source, off + p.len())));
    }
    off += p.len();
  }
  if tokens.len() != expected.len() {
    return Ok(()); // the pieces were not lexed one token each (e.g. error recovery): no claim
  }
  for (Token(loc, _), (s, e)) in tokens.iter().zip(expected.iter()) {
    if loc.start != *s || loc.end != *e {
      return Err(format!("token reported at {:?}-{:?} but spelled at {:?}-{:?}", loc.start, loc.end, s, e));
    }
  }
  Ok(())
}

#[test]
fn verif_witness_search_literals() {
  let prefixes = ["", "-", "1 -", "1 +", "(", "x", "x -", "- -", "/* c */ -", "-\n"];
  let literals = [
    "0", "1", "2147483647", "2147483648", "2147483649", "4000000000", "4294967296", "9223372036854775807",
    "9223372036854775808", "99999999999999999999",
  ];
  for p in prefixes.iter() {
    for l in literals.iter() {
      for sep in ["", " "] {
        let src = format!("{p}{sep}{l}");
        if let Err(why) = check_literals(&src) {
          println!("WITNESS: source text {src:?}: {why}");
          panic!("contract violated on the real lexer");
        }
      }
    }
  }
  println!("WITNESS-SEARCH: no violating history found");
}

#[test]
fn verif_witness_search_positions() {
  let seps = [
    " ", "\n", "\r\n", "\t", " \n ", "/* a */", "/* a\n b */", "/* a\r\n b */", "// c\n", "/**/", "/** d */",
    // white space that is not ASCII: an error token for this lexer, never a crash
    "\u{a0}", " \u{2003} ", "\u{3000}\n",
  ];
  let toks = ["class", "A", "foo", "42", "\"str\"", "\"s\\\"t\"", "{", "}", "::", "\"\u{e9}\""];
  for s1 in seps.iter() {
    for t1 in toks.iter() {
      for s2 in seps.iter() {
        for t2 in toks.iter() {
          let pieces = ["", *t1, *s1, *t2, *s2, "z"];
          let src: String = pieces.concat();
          if let Err(why) = check_positions(&src) {
            println!("WITNESS: source text {src:?}: {why}");
            panic!("contract violated on the real lexer");
          }
          // comments are tokens too: only (ASCII) whitespace separators have a known layout
          if !s1.contains('/') && !s2.contains('/') && s1.is_ascii() && s2.is_ascii() {
            if let Err(why) = check_known_layout(&pieces) {
              println!("WITNESS: source text {src:?}: {why}");
              panic!("contract violated on the real lexer");
            }
          }
        }
      }
    }
  }
  // texts that end inside a construct, non-ASCII next to delimiters, error tokens
  let tails = [
    "/*", "/**", "/* x *", "/* x", "\"abc", "\"abc\\", "\"\u{e9}", "//", "// \u{e9}", "$", "$\u{e9}", "#\u{4e2d}\u{6587} x",
    "$aaaaaaaaaaaaaaaaaaaaaaaaaaaaaaaaaaaaaaaaaaaaaaaaaaaaaaaaaaaaaaa\u{e9}\u{e9}", "\"\\\\\\\"", "/***/", "/**/",
  ];
  for t in tails.iter() {
    for pre in ["", "a ", "\n"] {
      let src = format!("{pre}{t}");
      if let Err(why) = check_positions(&src) {
        println!("WITNESS: source text {src:?}: {why}");
        panic!("contract violated on the real lexer");
      }
    }
  }
  println!("WITNESS-SEARCH: no violating history found");
}
