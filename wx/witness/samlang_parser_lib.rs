// Thorough-tier exploration for C05 (NOT a deciding check, no unit of its own: it is attached to unit `lexer`):
// the REAL parser on texts that end inside a construct or contain a token that cannot start what the grammar
// expects next.  Every parse must return (with diagnostics) within the time limit.
use samlang_errors::ErrorSet;
use samlang_heap::{Heap, ModuleReference};
use std::sync::mpsc;
use std::time::Duration;

#[test]
fn verif_witness_search_parser_terminates() {
  let heads = [
    "class Main { function f(x: Opt): int = match (x) { A -> 1, ",
    "class Main { function f(x: Opt): int = match (x) { ",
    "class Main { function f(): int = if a { ",
    "class Main { function f(): int = { let x = ",
    "class Main { function f(): int = (",
    "class Main { function f(): int = f(1, ",
    "class Main<",
    "class Main(val a: ",
    "import { A, ",
    "interface I { method m(",
    "class Main { function f(): int = [",
    "class Main { function f(): int = (x) -> ",
  ];
  let tails = ["", "else } }", "class Other {}", "# } }", "}", "} } }", "-> ;", "val", "import", "\u{a0}", "/* open", "\"open", ", , ,", "))))", "{{{{"];
  let mut checked = 0usize;
  for h in heads {
    for t in tails {
      let text = format!("{h}{t}");
      let (tx, rx) = mpsc::channel();
      let owned = text.clone();
      std::thread::spawn(move || {
        let mut heap = Heap::new();
        let mut error_set = ErrorSet::new();
        let r = std::panic::catch_unwind(std::panic::AssertUnwindSafe(|| {
          super::parse_source_module_from_text(&owned, ModuleReference::DUMMY, &mut heap, &mut error_set);
        }));
        let _ = tx.send(r.is_ok());
      });
      match rx.recv_timeout(Duration::from_secs(5)) {
        Ok(true) => {}
        Ok(false) => {
          println!("WITNESS: the parser panics on the text {text:?}");
          return;
        }
        Err(_) => {
          println!("WITNESS: the parser does not return within 5 s on the text {text:?}");
          std::process::exit(0);
        }
      }
      checked += 1;
    }
  }
  println!("WITNESS-SEARCH: no violating history found ({checked} truncated or malformed texts)");
}

// Witness search for unit `parsetok` (C14): the range reported for the module name of an import must cover exactly
// the characters that spell it, also when a comment follows.
#[test]
fn verif_witness_search_import_ranges() {
  let texts = [
    "import { Foo } from Bar.Baz /* why */;\nclass A {}",
    "import { Qux } from Quux // note\nclass A {}",
    "import { Foo } from Bar.Baz;\nclass A {}",
    "import { Foo } from Bar . /* c */ Baz /** d */\nclass A {}",
    "/* head */ import { Foo } from Bar /* tail */",
  ];
  let mut checked = 0usize;
  for text in texts {
    let mut heap = Heap::new();
    let mut error_set = ErrorSet::new();
    let m = super::parse_source_module_from_text(text, ModuleReference::DUMMY, &mut heap, &mut error_set);
    for import in m.imports.iter() {
      let loc = import.imported_module_loc;
      checked += 1;
      let lines: Vec<&str> = text.split('\n').collect();
      let covered = if loc.start.0 == loc.end.0 && (loc.start.0 as usize) < lines.len() {
        lines[loc.start.0 as usize].get(loc.start.1 as usize..loc.end.1 as usize).unwrap_or("<outside the line>").to_string()
      } else {
        format!("<lines {}..{}>", loc.start.0, loc.end.0)
      };
      let spelled = import.imported_module.pretty_print(&heap);
      let squeezed: String = covered.chars().filter(|c| !c.is_whitespace()).collect();
      // comments inside the dotted name are part of its extent; a comment AFTER the last part is not
      if !squeezed.ends_with(spelled.rsplit('.').next().unwrap_or("")) || !squeezed.starts_with(spelled.split('.').next().unwrap_or("")) {
        println!("WITNESS: in {text:?} the module name {spelled} is reported at {}:{}-{}:{}, which covers {covered:?}", loc.start.0 + 1, loc.start.1 + 1, loc.end.0 + 1, loc.end.1 + 1);
        return;
      }
    }
  }
  println!("WITNESS-SEARCH: no violating history found ({checked} import lines)");
}

// Witness search for unit `prodloc` (C14): a type parameter's range must enclose its name and its whole bound.
#[test]
fn verif_witness_search_type_parameter_ranges() {
  use samlang_ast::source::Toplevel;
  let texts = [
    "class Sorted<K: Comparable<K>, V>(val k: K, val v: V) {}",
    "class Main { function <A: Comparable<A>, B> pick(a: A, b: B): A = a }",
    "interface Cmp<T: Comparable<Pair<T, T>>> {}",
    "class Plain<A, B: Foo>(val a: A) {}",
  ];
  let mut checked = 0usize;
  for text in texts {
    let mut heap = Heap::new();
    let mut error_set = ErrorSet::new();
    let m = super::parse_source_module_from_text(text, ModuleReference::DUMMY, &mut heap, &mut error_set);
    let mut lists = Vec::new();
    for t in m.toplevels.iter() {
      if let Some(tp) = t.type_parameters() {
        lists.push(tp.clone());
      }
      if let Toplevel::Class(c) = t {
        for member in c.members.members.iter() {
          if let Some(tp) = member.decl.type_parameters.as_ref() {
            lists.push(tp.clone());
          }
        }
      }
    }
    for tps in lists {
      for tp in tps.parameters.iter() {
        checked += 1;
        let inside = tp.loc.contains(&tp.name.loc) && tp.bound.as_ref().map(|b| tp.loc.contains(&b.location)).unwrap_or(true);
        if !inside {
          println!(
            "WITNESS: in {text:?} the type parameter {} is reported at {} but its bound at {}: the parameter's range does not enclose its bound",
            tp.name.name.as_str(&heap),
            tp.loc.pretty_print_without_file(),
            tp.bound.as_ref().map(|b| b.location.pretty_print_without_file()).unwrap_or_default()
          );
          return;
        }
      }
    }
  }
  println!("WITNESS-SEARCH: no violating history found ({checked} type parameters)");
}
