// Bounded exploration for C14 (faithful positions, whole syntax tree): every sample module of the repository
// (std/*.sam, tests/*.sam) and one module of rarely used constructs is parsed; in the resulting tree
//   * the range of every node encloses the ranges of its parts (expressions, statements, patterns, annotations,
//     type parameters, members), and is well-formed (start <= end, inside the text);
//   * the text under the range of every identifier is that identifier, the text under the range of an int / bool /
//     string literal is that literal.
// Relations that do not hold on the unchanged tree by design are not checked (a class's type-definition range is
// widened over its type parameters; a member's range does not include `private`).
use super::*;
use samlang_ast::Location;
use samlang_ast::source::{annotation, expr, pattern, Id, Literal, Module, Toplevel, TypeDefinition};
use samlang_errors::ErrorSet;
use samlang_heap::{Heap, ModuleReference};

struct Node {
  what: String,
  loc: Location,
  /// the exact source text the range must cover, when the node is a leaf with known spelling
  text: Option<String>,
  children: Vec<Node>,
}

fn leaf(what: &str, loc: Location, text: Option<String>) -> Node {
  Node { what: what.to_string(), loc, text, children: Vec::new() }
}

fn id_node(h: &Heap, what: &str, id: &Id) -> Node {
  leaf(what, id.loc, Some(id.name.as_str(h).to_string()))
}

fn targs_nodes(h: &Heap, t: &Option<annotation::TypeArguments>) -> Vec<Node> {
  match t {
    None => Vec::new(),
    Some(t) => vec![Node {
      what: "type arguments".to_string(),
      loc: t.location,
      text: None,
      children: t.arguments.iter().map(|a| annot_node(h, a)).collect(),
    }],
  }
}

fn id_annot_node(h: &Heap, a: &annotation::Id) -> Node {
  let mut children = vec![id_node(h, "class name of an annotation", &a.id)];
  children.extend(targs_nodes(h, &a.type_arguments));
  Node { what: "class type annotation".to_string(), loc: a.location, text: None, children }
}

fn annot_node(h: &Heap, a: &annotation::T) -> Node {
  match a {
    annotation::T::Primitive(l, _, k) => leaf("primitive type", *l, Some(k.kind_str().to_string())),
    annotation::T::Id(a) => id_annot_node(h, a),
    annotation::T::Generic(l, id) => {
      Node { what: "type parameter use".to_string(), loc: *l, text: None, children: vec![id_node(h, "type parameter name", id)] }
    }
    annotation::T::Fn(f) => {
      let mut children = vec![Node {
        what: "parameter types".to_string(),
        loc: f.parameters.location,
        text: None,
        children: f.parameters.annotations.iter().map(|a| annot_node(h, a)).collect(),
      }];
      children.push(annot_node(h, &f.return_type));
      Node { what: "function type".to_string(), loc: f.location, text: None, children }
    }
  }
}

fn tparams_nodes(h: &Heap, t: &Option<annotation::TypeParameters>) -> Vec<Node> {
  match t {
    None => Vec::new(),
    Some(t) => vec![Node {
      what: "type parameters".to_string(),
      loc: t.location,
      text: None,
      children: t
        .parameters
        .iter()
        .map(|p| {
          let mut c = vec![id_node(h, "type parameter", &p.name)];
          if let Some(b) = &p.bound {
            c.push(id_annot_node(h, b));
          }
          Node { what: "type parameter with bound".to_string(), loc: p.loc, text: None, children: c }
        })
        .collect(),
    }],
  }
}

fn tuple_pat_node(h: &Heap, t: &pattern::TuplePattern<()>) -> Node {
  Node {
    what: "tuple pattern".to_string(),
    loc: t.location,
    text: None,
    children: t.elements.iter().map(|e| pat_node(h, &e.pattern)).collect(),
  }
}

fn pat_node(h: &Heap, p: &pattern::MatchingPattern<()>) -> Node {
  match p {
    pattern::MatchingPattern::Id(id, _) => id_node(h, "variable pattern", id),
    pattern::MatchingPattern::Wildcard { location, .. } => leaf("wildcard", *location, Some("_".to_string())),
    pattern::MatchingPattern::Tuple(t) => tuple_pat_node(h, t),
    pattern::MatchingPattern::Object { location, elements, .. } => Node {
      what: "object pattern".to_string(),
      loc: *location,
      text: None,
      children: elements
        .iter()
        .map(|e| Node {
          what: "object pattern element".to_string(),
          loc: e.loc,
          text: None,
          children: vec![id_node(h, "field name of a pattern", &e.field_name), pat_node(h, &e.pattern)],
        })
        .collect(),
    },
    pattern::MatchingPattern::Variant(v) => {
      let mut c = vec![id_node(h, "variant tag", &v.tag)];
      if let Some(t) = &v.data_variables {
        c.push(tuple_pat_node(h, t));
      }
      Node { what: "variant pattern".to_string(), loc: v.loc, text: None, children: c }
    }
    pattern::MatchingPattern::Or { location, patterns } => Node {
      what: "or-pattern".to_string(),
      loc: *location,
      text: None,
      children: patterns.iter().map(|p| pat_node(h, p)).collect(),
    },
  }
}

fn block_node(h: &Heap, b: &expr::Block<()>) -> Node {
  let mut children = Vec::new();
  for s in &b.statements {
    children.push(match s {
      expr::Statement::Declaration(d) => {
        let mut c = vec![pat_node(h, &d.pattern)];
        if let Some(a) = &d.annotation {
          c.push(annot_node(h, a));
        }
        c.push(expr_node(h, &d.assigned_expression));
        Node { what: "let statement".to_string(), loc: d.loc, text: None, children: c }
      }
      expr::Statement::Expression(e) => expr_node(h, e),
    });
  }
  if let Some(e) = &b.expression {
    children.push(expr_node(h, e));
  }
  Node { what: "block".to_string(), loc: b.common.loc, text: None, children }
}

fn if_else_node(h: &Heap, e: &expr::IfElse<()>) -> Node {
  let mut children = Vec::new();
  match e.condition.as_ref() {
    expr::IfElseCondition::Expression(c) => children.push(expr_node(h, c)),
    expr::IfElseCondition::Guard(p, c) => {
      children.push(pat_node(h, p));
      children.push(expr_node(h, c));
    }
  }
  children.push(block_node(h, &e.e1));
  children.push(match e.e2.as_ref() {
    expr::IfElseOrBlock::IfElse(n) => if_else_node(h, n),
    expr::IfElseOrBlock::Block(b) => block_node(h, b),
  });
  Node { what: "if-else".to_string(), loc: e.common.loc, text: None, children }
}

fn expr_node(h: &Heap, e: &expr::E<()>) -> Node {
  match e {
    expr::E::Literal(c, Literal::Bool(b)) => leaf("bool literal", c.loc, Some(b.to_string())),
    expr::E::Literal(c, Literal::Int(i)) => leaf("int literal", c.loc, Some(i.to_string())),
    expr::E::Literal(c, Literal::String(_)) => leaf("string literal", c.loc, None),
    expr::E::LocalId(c, id) => Node { what: "variable".to_string(), loc: c.loc, text: Some(id.name.as_str(h).to_string()), children: vec![id_node(h, "variable name", id)] },
    expr::E::ClassId(c, _, id) => Node { what: "class reference".to_string(), loc: c.loc, text: Some(id.name.as_str(h).to_string()), children: vec![id_node(h, "class name", id)] },
    expr::E::Tuple(c, l) => Node { what: "tuple".to_string(), loc: c.loc, text: None, children: l.expressions.iter().map(|e| expr_node(h, e)).collect() },
    expr::E::FieldAccess(f) => {
      let mut c = vec![expr_node(h, &f.object), id_node(h, "member name", &f.field_name)];
      c.extend(targs_nodes(h, &f.explicit_type_arguments));
      Node { what: "member access".to_string(), loc: f.common.loc, text: None, children: c }
    }
    expr::E::MethodAccess(f) => {
      let mut c = vec![expr_node(h, &f.object), id_node(h, "method name", &f.method_name)];
      c.extend(targs_nodes(h, &f.explicit_type_arguments));
      Node { what: "method access".to_string(), loc: f.common.loc, text: None, children: c }
    }
    expr::E::Unary(u) => Node { what: "unary expression".to_string(), loc: u.common.loc, text: None, children: vec![expr_node(h, &u.argument)] },
    expr::E::Call(c) => {
      let mut ch = vec![expr_node(h, &c.callee)];
      ch.push(Node {
        what: "argument list".to_string(),
        loc: c.arguments.loc,
        text: None,
        children: c.arguments.expressions.iter().map(|e| expr_node(h, e)).collect(),
      });
      Node { what: "call".to_string(), loc: c.common.loc, text: None, children: ch }
    }
    expr::E::Binary(b) => Node { what: "binary expression".to_string(), loc: b.common.loc, text: None, children: vec![expr_node(h, &b.e1), expr_node(h, &b.e2)] },
    expr::E::IfElse(e) => if_else_node(h, e),
    expr::E::Match(m) => {
      let mut c = vec![expr_node(h, &m.matched)];
      for case in &m.cases {
        c.push(Node { what: "match case".to_string(), loc: case.loc, text: None, children: vec![pat_node(h, &case.pattern), expr_node(h, &case.body)] });
      }
      Node { what: "match".to_string(), loc: m.common.loc, text: None, children: c }
    }
    expr::E::Lambda(l) => {
      let mut params = Vec::new();
      for p in &l.parameters.parameters {
        params.push(id_node(h, "lambda parameter", &p.name));
        if let Some(a) = &p.annotation {
          params.push(annot_node(h, a));
        }
      }
      let c = vec![Node { what: "lambda parameters".to_string(), loc: l.parameters.loc, text: None, children: params }, expr_node(h, &l.body)];
      Node { what: "lambda".to_string(), loc: l.common.loc, text: None, children: c }
    }
    expr::E::Block(b) => block_node(h, b),
  }
}

fn member_decl_nodes(h: &Heap, d: &samlang_ast::source::ClassMemberDeclaration) -> Vec<Node> {
  let mut c = vec![id_node(h, "member name", &d.name)];
  c.extend(tparams_nodes(h, &d.type_parameters));
  let mut params = Vec::new();
  for p in d.parameters.parameters.iter() {
    params.push(id_node(h, "parameter", &p.name));
    params.push(annot_node(h, &p.annotation));
  }
  c.push(Node { what: "parameter list".to_string(), loc: d.parameters.location, text: None, children: params });
  c.push(annot_node(h, &d.return_type));
  c
}

fn module_nodes(h: &Heap, m: &Module<()>) -> Vec<Node> {
  let mut out = Vec::new();
  for i in &m.imports {
    let mut c: Vec<Node> = i.imported_members.iter().map(|id| id_node(h, "imported name", id)).collect();
    c.push(leaf("imported module path", i.imported_module_loc, Some(i.imported_module.pretty_print(h))));
    out.push(Node { what: "import".to_string(), loc: i.loc, text: None, children: c });
  }
  for t in &m.toplevels {
    match t {
      Toplevel::Interface(i) => {
        let mut c = vec![id_node(h, "interface name", &i.name)];
        c.extend(tparams_nodes(h, &i.type_parameters));
        if let Some(e) = &i.extends_or_implements_nodes {
          c.push(Node { what: "extends list".to_string(), loc: e.location, text: None, children: e.nodes.iter().map(|n| id_annot_node(h, n)).collect() });
        }
        for d in &i.members.members {
          c.push(Node { what: "member declaration".to_string(), loc: d.loc, text: None, children: member_decl_nodes(h, d) });
        }
        out.push(Node { what: "interface".to_string(), loc: i.loc, text: None, children: c });
      }
      Toplevel::Class(cl) => {
        let mut c = vec![id_node(h, "class name", &cl.name)];
        c.extend(tparams_nodes(h, &cl.type_parameters));
        if let Some(e) = &cl.extends_or_implements_nodes {
          c.push(Node { what: "implements list".to_string(), loc: e.location, text: None, children: e.nodes.iter().map(|n| id_annot_node(h, n)).collect() });
        }
        match &cl.type_definition {
          None => {}
          Some(TypeDefinition::Struct { loc, fields, .. }) => {
            let mut f = Vec::new();
            for field in fields {
              f.push(id_node(h, "field name", &field.name));
              f.push(annot_node(h, &field.annotation));
            }
            c.push(Node { what: "field list".to_string(), loc: *loc, text: None, children: f });
          }
          Some(TypeDefinition::Enum { loc, variants, .. }) => {
            let mut f = Vec::new();
            for v in variants {
              f.push(id_node(h, "variant name", &v.name));
              if let Some(l) = &v.associated_data_types {
                f.push(Node { what: "variant payload".to_string(), loc: l.location, text: None, children: l.annotations.iter().map(|a| annot_node(h, a)).collect() });
              }
            }
            c.push(Node { what: "variant list".to_string(), loc: *loc, text: None, children: f });
          }
        }
        for member in &cl.members.members {
          let mut mc = member_decl_nodes(h, &member.decl);
          mc.push(expr_node(h, &member.body));
          c.push(Node { what: "member definition".to_string(), loc: member.decl.loc, text: None, children: mc });
        }
        out.push(Node { what: "class".to_string(), loc: cl.loc, text: None, children: c });
      }
    }
  }
  out
}

struct Text<'a> {
  text: &'a str,
  line_starts: Vec<usize>,
}

impl<'a> Text<'a> {
  fn new(text: &'a str) -> Text<'a> {
    let mut line_starts = vec![0];
    for (i, b) in text.bytes().enumerate() {
      if b == b'\n' {
        line_starts.push(i + 1);
      }
    }
    Text { text, line_starts }
  }
  fn offset(&self, p: samlang_ast::Position) -> Option<usize> {
    let start = *self.line_starts.get(p.0 as usize)?;
    let o = start + p.1 as usize;
    if o <= self.text.len() { Some(o) } else { None }
  }
  fn slice(&self, l: &Location) -> Option<&'a str> {
    let (a, b) = (self.offset(l.start)?, self.offset(l.end)?);
    self.text.get(a..b)
  }
}

fn check(text: &Text, parent: Option<&Node>, n: &Node) -> Result<usize, String> {
  let show = |n: &Node| format!("{} at {} (`{}`)", n.what, n.loc.pretty_print_without_file(), text.slice(&n.loc).unwrap_or("<outside the text>").chars().take(60).collect::<String>().replace('\n', " "));
  if n.loc.start > n.loc.end || text.slice(&n.loc).is_none() {
    return Err(format!("the range of the {} is not a range of the text", show(n)));
  }
  if let Some(p) = parent
    && !p.loc.contains(&n.loc)
  {
    return Err(format!("the {} does not enclose its part, the {}", show(p), show(n)));
  }
  if let Some(expected) = &n.text
    && text.slice(&n.loc) != Some(expected.as_str())
  {
    return Err(format!("the {} should cover exactly `{expected}`", show(n)));
  }
  let mut count = 1;
  for c in &n.children {
    count += check(text, Some(n), c)?;
  }
  Ok(count)
}

const EXTRA: &str = r#"/*
* a block comment whose gutter stars and closing star sit in column 0
*
*/
/** a doc comment that ends in column 0
*/
import { Pair, Triple } from std.tuples;
import { Comparable } from std.interfaces
import { Triple } from std.tuples /* why */ ;

private interface Walker<T: Comparable<T>, R> : Comparable<T> {
  method <A, B: Comparable<B>> walk(start: T, f: (T, A) -> B, g: () -> unit): R
}

/*
  stars in other columns * and ** and a line that is only a star:
*
  */ class Shape(Circle(int), Square(int), Line(int), Dot) {
  method size(): int = match (this) { Circle(r) | Square(r) | Line(r) -> r, Dot -> 0 }
}

class Point<T>(val x: T, private val y: Pair<T, Pair<int, Str>>) : Comparable<Point<T>> {
  method compare(other: Point<T>): int = 0
  function <A> origin(a: A): Point<A> = Point.init(a, Pair.init(a, Pair.init(1, "s")))
  method firstOf(): T = {
    let { x as first, y as (_) } = this;
    let { x, y as { e0 as second, e1 as { e0, e1 as name } } } = this;
    let (a, (b, c)) = (1, (2, 3));
    let f = (p: int, q) -> p + q + a;
    let fold = (acc, item: int) -> acc + item;
    let pick = (u, v, w: int, z) -> if w > 0 { u } else { v + z };
    let none = () -> 1;
    let g: (int) -> Pair<int, int> = (n) -> Pair.init<int, int>(n, n);
    if let { x as again, y as _ } = this { first } else { second }
  }
}
"#;

#[test]
fn verif_witness_search_location_tree() {
  let root = std::path::Path::new(env!("CARGO_MANIFEST_DIR")).join("../..");
  let mut files: Vec<(String, String)> = vec![("<constructs>".to_string(), EXTRA.to_string())];
  for dir in ["std", "tests"] {
    if let Ok(rd) = std::fs::read_dir(root.join(dir)) {
      let mut paths = rd.filter_map(|e| e.ok()).map(|e| e.path()).filter(|p| p.extension().is_some_and(|x| x == "sam")).collect::<Vec<_>>();
      paths.sort();
      for p in paths {
        if let Ok(text) = std::fs::read_to_string(&p) {
          files.push((format!("{dir}/{}", p.file_name().unwrap().to_string_lossy()), text));
        }
      }
    }
  }
  let (mut modules, mut nodes) = (0usize, 0usize);
  for (name, source) in &files {
    if !source.is_ascii() {
      continue; // columns are byte offsets (stated in DESIGN.md); the text check below slices by bytes
    }
    let heap = &mut Heap::new();
    let mut error_set = ErrorSet::new();
    let m = parse_source_module_from_text(source, ModuleReference::DUMMY, heap, &mut error_set);
    if error_set.has_errors() {
      if name == "<constructs>" {
        println!("WITNESS-SEARCH-BROKEN: the hand-written module does not parse: {}", error_set.pretty_print_error_messages_no_frame_for_test(heap).replace('\n', " "));
        return;
      }
      continue;
    }
    let text = Text::new(source);
    modules += 1;
    for n in module_nodes(heap, &m) {
      match check(&text, None, &n) {
        Ok(c) => nodes += c,
        Err(w) => {
          println!("WITNESS: in {name}: {w}");
          return;
        }
      }
    }
  }
  println!("WITNESS-SEARCH: no violating history found ({modules} modules, {nodes} syntax-tree nodes)");
}
