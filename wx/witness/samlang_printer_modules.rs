// Bounded round-trip exploration for C08 (whole modules): every sample program of the repository (std/*.sam,
// tests/*.sam) and a hand-written module with the constructs the samples hardly use is formatted at several
// line widths and parsed again; the formatted text must parse without errors to the same syntax tree
// (positions and comments dropped, import lines compared as a multiset of (module, member) pairs).
// The two recorded findings (`::` next to another operator; `a op (b op c)`) do not occur in these texts.
use super::*;
use samlang_ast::source::{annotation, expr, pattern, Literal, Module, Toplevel, TypeDefinition};
use samlang_errors::ErrorSet;
use samlang_heap::{Heap, ModuleReference};
use samlang_parser::parse_source_module_from_text;

fn targs(h: &Heap, t: &Option<annotation::TypeArguments>) -> String {
  match t {
    None => String::new(),
    Some(t) => format!("<{}>", t.arguments.iter().map(|a| annot(h, a)).collect::<Vec<_>>().join(",")),
  }
}

fn id_annot(h: &Heap, a: &annotation::Id) -> String {
  format!("{}.{}{}", a.module_reference.pretty_print(h), a.id.name.as_str(h), targs(h, &a.type_arguments))
}

fn annot(h: &Heap, a: &annotation::T) -> String {
  match a {
    annotation::T::Primitive(_, _, k) => k.kind_str().to_string(),
    annotation::T::Id(a) => id_annot(h, a),
    annotation::T::Generic(_, id) => format!("'{}", id.name.as_str(h)),
    annotation::T::Fn(f) => format!(
      "({})->{}",
      f.parameters.annotations.iter().map(|a| annot(h, a)).collect::<Vec<_>>().join(","),
      annot(h, &f.return_type)
    ),
  }
}

fn opt_annot(h: &Heap, a: &Option<annotation::T>) -> String {
  a.as_ref().map(|a| format!(":{}", annot(h, a))).unwrap_or_default()
}

fn tparams(h: &Heap, t: &Option<annotation::TypeParameters>) -> String {
  match t {
    None => String::new(),
    Some(t) => format!(
      "<{}>",
      t.parameters
        .iter()
        .map(|p| format!("{}{}", p.name.name.as_str(h), p.bound.as_ref().map(|b| format!(":{}", id_annot(h, b))).unwrap_or_default()))
        .collect::<Vec<_>>()
        .join(",")
    ),
  }
}

fn tuple_pat(h: &Heap, t: &pattern::TuplePattern<()>) -> String {
  format!("(tuple {})", t.elements.iter().map(|e| pat(h, &e.pattern)).collect::<Vec<_>>().join(" "))
}

fn pat(h: &Heap, p: &pattern::MatchingPattern<()>) -> String {
  match p {
    pattern::MatchingPattern::Id(id, _) => format!("(id {})", id.name.as_str(h)),
    pattern::MatchingPattern::Wildcard { .. } => "_".to_string(),
    pattern::MatchingPattern::Tuple(t) => tuple_pat(h, t),
    pattern::MatchingPattern::Object { elements, .. } => format!(
      "(object {})",
      elements
        .iter()
        .map(|e| format!("[{} {} {}]", e.field_name.name.as_str(h), e.shorthand, pat(h, &e.pattern)))
        .collect::<Vec<_>>()
        .join(" ")
    ),
    pattern::MatchingPattern::Variant(v) => format!(
      "(variant {} {})",
      v.tag.name.as_str(h),
      v.data_variables.as_ref().map(|t| tuple_pat(h, t)).unwrap_or_else(|| "-".to_string())
    ),
    pattern::MatchingPattern::Or { patterns, .. } => {
      format!("(or {})", patterns.iter().map(|p| pat(h, p)).collect::<Vec<_>>().join(" "))
    }
  }
}

fn block(h: &Heap, b: &expr::Block<()>) -> String {
  let mut parts = Vec::new();
  for s in &b.statements {
    parts.push(match s {
      expr::Statement::Declaration(d) => {
        format!("(let {}{} {})", pat(h, &d.pattern), opt_annot(h, &d.annotation), ex(h, &d.assigned_expression))
      }
      expr::Statement::Expression(e) => format!("(stmt {})", ex(h, e)),
    });
  }
  parts.push(match &b.expression {
    Some(e) => format!("(final {})", ex(h, e)),
    None => "(final -)".to_string(),
  });
  format!("(block {})", parts.join(" "))
}

fn if_else(h: &Heap, e: &expr::IfElse<()>) -> String {
  let c = match e.condition.as_ref() {
    expr::IfElseCondition::Expression(c) => ex(h, c),
    expr::IfElseCondition::Guard(p, c) => format!("(guard {} {})", pat(h, p), ex(h, c)),
  };
  let e2 = match e.e2.as_ref() {
    expr::IfElseOrBlock::IfElse(n) => if_else(h, n),
    expr::IfElseOrBlock::Block(b) => block(h, b),
  };
  format!("(if {} {} {})", c, block(h, &e.e1), e2)
}

fn ex(h: &Heap, e: &expr::E<()>) -> String {
  match e {
    expr::E::Literal(_, Literal::Bool(b)) => format!("(bool {b})"),
    expr::E::Literal(_, Literal::Int(i)) => format!("(int {i})"),
    expr::E::Literal(_, Literal::String(s)) => format!("(string {:?})", s.as_str(h)),
    expr::E::LocalId(_, id) => format!("(local {})", id.name.as_str(h)),
    expr::E::ClassId(_, m, id) => format!("(class {} {})", m.pretty_print(h), id.name.as_str(h)),
    expr::E::Tuple(_, l) => format!("(tuple {})", l.expressions.iter().map(|e| ex(h, e)).collect::<Vec<_>>().join(" ")),
    expr::E::FieldAccess(f) => {
      format!("(field {} {}{})", ex(h, &f.object), f.field_name.name.as_str(h), targs(h, &f.explicit_type_arguments))
    }
    expr::E::MethodAccess(f) => {
      format!("(method {} {}{})", ex(h, &f.object), f.method_name.name.as_str(h), targs(h, &f.explicit_type_arguments))
    }
    expr::E::Unary(u) => format!("(unary {} {})", u.operator.kind_str(), ex(h, &u.argument)),
    expr::E::Call(c) => format!(
      "(call {} [{}])",
      ex(h, &c.callee),
      c.arguments.expressions.iter().map(|e| ex(h, e)).collect::<Vec<_>>().join(" ")
    ),
    expr::E::Binary(b) => format!("(binary {} {} {})", b.operator.kind_str(), ex(h, &b.e1), ex(h, &b.e2)),
    expr::E::IfElse(e) => if_else(h, e),
    expr::E::Match(m) => format!(
      "(match {} {})",
      ex(h, &m.matched),
      m.cases.iter().map(|c| format!("[{} => {}]", pat(h, &c.pattern), ex(h, &c.body))).collect::<Vec<_>>().join(" ")
    ),
    expr::E::Lambda(l) => format!(
      "(lambda [{}] {})",
      l.parameters
        .parameters
        .iter()
        .map(|p| format!("{}{}", p.name.name.as_str(h), opt_annot(h, &p.annotation)))
        .collect::<Vec<_>>()
        .join(" "),
      ex(h, &l.body)
    ),
    expr::E::Block(b) => block(h, b),
  }
}

fn member_decl(h: &Heap, d: &samlang_ast::source::ClassMemberDeclaration) -> String {
  format!(
    "({} {} {}{}({}):{})",
    if d.is_public { "public" } else { "private" },
    if d.is_method { "method" } else { "function" },
    d.name.name.as_str(h),
    tparams(h, &d.type_parameters),
    d.parameters.parameters.iter().map(|p| format!("{}:{}", p.name.name.as_str(h), annot(h, &p.annotation))).collect::<Vec<_>>().join(","),
    annot(h, &d.return_type)
  )
}

fn extends(h: &Heap, e: &Option<samlang_ast::source::ExtendsOrImplementsNodes>) -> String {
  e.as_ref().map(|e| format!(" : {}", e.nodes.iter().map(|n| id_annot(h, n)).collect::<Vec<_>>().join(","))).unwrap_or_default()
}

/// the module without positions and comments; import lines as a sorted list of (module, member) pairs
fn module_tree(h: &Heap, m: &Module<()>) -> Vec<String> {
  let mut out = Vec::new();
  let mut imports = Vec::new();
  for i in &m.imports {
    for member in &i.imported_members {
      imports.push(format!("{}::{}", i.imported_module.pretty_print(h), member.name.as_str(h)));
    }
  }
  imports.sort(); // merged and sorted, but an imported name that occurs twice still occurs twice
  out.push(format!("(imports {})", imports.join(" ")));
  for t in &m.toplevels {
    match t {
      Toplevel::Interface(i) => {
        out.push(format!(
          "(interface {} {}{}{} {})",
          if i.private { "private" } else { "public" },
          i.name.name.as_str(h),
          tparams(h, &i.type_parameters),
          extends(h, &i.extends_or_implements_nodes),
          i.members.members.iter().map(|d| member_decl(h, d)).collect::<Vec<_>>().join(" ")
        ));
      }
      Toplevel::Class(c) => {
        let def = match &c.type_definition {
          None => "-".to_string(),
          Some(TypeDefinition::Struct { fields, .. }) => format!(
            "(struct {})",
            fields
              .iter()
              .map(|f| format!("[{} {}:{}]", if f.is_public { "val" } else { "private val" }, f.name.name.as_str(h), annot(h, &f.annotation)))
              .collect::<Vec<_>>()
              .join(" ")
          ),
          Some(TypeDefinition::Enum { variants, .. }) => format!(
            "(enum {})",
            variants
              .iter()
              .map(|v| {
                format!(
                  "[{} {}]",
                  v.name.name.as_str(h),
                  v.associated_data_types
                    .as_ref()
                    .map(|l| l.annotations.iter().map(|a| annot(h, a)).collect::<Vec<_>>().join(","))
                    .unwrap_or_else(|| "-".to_string())
                )
              })
              .collect::<Vec<_>>()
              .join(" ")
          ),
        };
        out.push(format!(
          "(class {} {}{}{} {})",
          if c.private { "private" } else { "public" },
          c.name.name.as_str(h),
          tparams(h, &c.type_parameters),
          extends(h, &c.extends_or_implements_nodes),
          def
        ));
        for member in &c.members.members {
          out.push(format!("  {} = {}", member_decl(h, &member.decl), ex(h, &member.body)));
        }
      }
    }
  }
  out
}

fn parse(heap: &mut Heap, src: &str) -> (usize, Module<()>) {
  let mut error_set = ErrorSet::new();
  let m = parse_source_module_from_text(src, ModuleReference::DUMMY, heap, &mut error_set);
  if std::env::var("VERIF_WITNESS_VERBOSE").is_ok() && error_set.has_errors() {
    println!("{}", error_set.pretty_print_error_messages_no_frame_for_test(heap));
  }
  (error_set.group_errors().values().map(|v| v.len()).sum::<usize>(), m)
}

const EXTRA: &str = r#"import { Pair, Triple } from std.tuples;
import { Comparable } from std.interfaces;
import { Triple } from std.tuples;

private interface Walker<T: Comparable<T>, R> : Comparable<T> {
  method <A, B: Comparable<B>> walk(start: T, f: (T, A) -> B, g: () -> unit): R
  function make(): int
}

class Opt<T>(None, Some(T), Both(T, T)) {}

private class Settings(val lookupTheSettingsForCurrentUser: (int) -> Settings, private val size: int, val name: Str) : Comparable<Settings> {
  method compare(other: Settings): int = this.size - other.size
  method <R> normalize(a: int, b: R): Settings = this
  private method me(): Settings = this
}

class Main {
  function patterns(x: Pair<Opt<int>, int>, t: Triple<int, int, int>): int = {
    let (a) = (1);
    let ((b), c) = ((2), 3);
    let (d, (e, f), _) = (1, (2, 3), 4);
    let { e0 as Some((g)), e1 } = x;
    let { e0, e1 as second, e2 as _ } = t;
    let wide: ((int) -> int, Str) -> bool = (fn, s) -> fn(1) == 2;
    match x { { e0 as Some(y) | Both(y, _), e1 as k } -> y + k, { e0 as None, e1 as (k) } -> k, (Some(q), _) -> q, (g) -> 0 }
  }
  function lambdas(): int = {
    let f1 = (acc, x: int) -> acc + x;
    let f2 = (acc: int, x) -> acc + x;
    let f3 = (a, b: (int) -> int, c, d: Str) -> b(a) + c;
    let f4 = () -> 1;
    let f5 = (a: int, b: Opt<Pair<int, Str>>) -> a;
    f4() + (if f4() == 1 { f1 } else { f2 })(1, 2) + ((a) -> a)(3) + (() -> 4)()
  }
  function chains(configurationForTheWholeProgram: Settings, c: bool): int = {
    let s1 = configurationForTheWholeProgram.lookupTheSettingsForCurrentUser(1).normalize<int>(2, 3).size;
    let s2 = configurationForTheWholeProgram.lookupTheSettingsForCurrentUser(1).normalize<Opt<Pair<int, int>>>(2, Opt.None<Pair<int, int>>()).name;
    let s3 = (if c { configurationForTheWholeProgram } else { configurationForTheWholeProgram.me() }).size;
    let s4 = (match Opt.Some(c) { Some(_) -> configurationForTheWholeProgram, _ -> configurationForTheWholeProgram }).me().me().size;
    let s5 = { configurationForTheWholeProgram }.size;
    let s6 = (configurationForTheWholeProgram.size + 1, 2).e0;
    let s7 = (-configurationForTheWholeProgram.size) + (!c && c || !(c && c) == (1 < 2)).toString().length();
    let s8 = Main.chains(configurationForTheWholeProgram, (1 + 2) * (3 - (4 - 5)) / (6 % 7) < 8 && "a" :: "b" == "ab" || !c);
    s1 + s3 + s4 + s5 + s6 + s7 + s8
  }
  function statements(c: bool): unit = {
    if c { let _ = 1; } else if !c { let _ = 2; } else { let _ = 3; };
    match Opt.Some(c) { Some(b) -> { let _ = b; }, None | Both(_, _) -> {} };
    { let _ = "a\"b\\n"; };
    let _: int = if let Some(v) = Opt.Some(1) { v } else { 0 };
    let _ = if let (Some(v), w) = (Opt.Some(1), 2) { v + w } else if c { -2147483648 } else { 2147483647 };
    Process.println("done")
  }
}
"#;


const COMMENTED: &str = r#"/* leading */ import /* a */ { /* b */ Pair /* c */, /* d */ Triple /* e */ } /* f */ from /* g */ std.tuples /* h */ ; // i
// line comment before a class
/** doc comment */
class /* c1 */ Point /* c2 */ < /* c3 */ T /* c4 */ > /* c5 */ ( /* c6 */ val /* c7 */ x /* c8 */ : /* c9 */ T /* c10 */ , /* c11 */ private val y: int /* c12 */ ) /* c13 */ { /* c14 */
  /** doc of a member */
  // line comment before a member
  method /* m1 */ get /* m2 */ ( /* m3 */ a /* m4 */ : /* m5 */ int /* m6 */ , b: (int /* m7 */ ) -> /* m8 */ int ) /* m9 */ : /* m10 */ int /* m11 */ = /* m12 */ {
    // statement comment
    let /* s1 */ z /* s2 */ : /* s3 */ int /* s4 */ = /* s5 */ a /* s6 */ + /* s7 */ b( /* s8 */ 1 /* s9 */ ) /* s10 */ ; /* s11 */
    let (p /* t1 */, /* t2 */ q) = ( /* t3 */ 1, 2 /* t4 */ ); // trailing line comment
    let { x as /* o1 */ first /* o2 */, y /* o3 */ } = this;
    /* before the final expression */
    if /* i1 */ z > 0 /* i2 */ { /* i3 */ z /* i4 */ } /* i5 */ else /* i6 */ if z < 0 { 0 - z } else /* i7 */ { /* i8 */ 0 /* i9 */ }
    // comment at the end of a block
  } /* after the member */
  function /* f1 */ <A /* f2 */ , B: /* f3 */ Pair<A, A>> pick(o: Opt<A>, f: (A, /* f4 */ B) -> A): int = /* f5 */ match /* f6 */ o /* f7 */ { /* f8 */
    // comment before an arm
    Some( /* a1 */ v /* a2 */ ) /* a3 */ -> /* a4 */ 1, /* a5 */
    /* before the last arm */ None -> ((x /* l1 */, y: int /* l2 */) -> /* l3 */ x)(1, 2) /* a6 */,
    // comment after the last arm
  }
  // comment at the end of a class
} // after the class
class Opt<T>(/* v1 */ None /* v2 */, /* v3 */ Some( /* v4 */ T /* v5 */ ) /* v6 */) {}
/* before an interface */ private /* p1 */ interface /* p2 */ Show /* p3 */ : /* p4 */ Other /* p5 */ { /* p6 */ method /* p7 */ show(): Str /* p8 */ } /* trailing comment of the module */
// the very last line comment
"#;

#[test]
fn verif_witness_search_modules() {
  let root = std::path::Path::new(env!("CARGO_MANIFEST_DIR")).join("../..");
  let mut files: Vec<(String, String)> = vec![("<constructs>".to_string(), EXTRA.to_string()), ("<comments everywhere>".to_string(), COMMENTED.to_string())];
  for dir in ["std", "tests"] {
    if let Ok(rd) = std::fs::read_dir(root.join(dir)) {
      let mut paths = rd.filter_map(|e| e.ok()).map(|e| e.path()).filter(|p| p.extension().is_some_and(|x| x == "sam")).collect::<Vec<_>>();
      paths.sort();
      for p in paths {
        if let Ok(text) = std::fs::read_to_string(&p) {
          files.push((format!("{dir}/{}", p.file_name().unwrap().to_string_lossy()), text));
        }
      }
    }
  }
  let mut checked = 0usize;
  for (name, text) in &files {
    let heap = &mut Heap::new();
    let (e1, m1) = parse(heap, text);
    if e1 != 0 {
      if name.starts_with('<') {
        println!("WITNESS-SEARCH-BROKEN: the hand-written module {name} does not parse");
        return;
      }
      continue;
    }
    let t1 = module_tree(heap, &m1);
    for width in [100usize, 60, 40, 20, 1] {
      let printed = super::pretty_print_source_module(heap, width, &m1);
      let (e2, m2) = parse(heap, &printed);
      let t2 = module_tree(heap, &m2);
      checked += 1;
      if e2 != 0 || t1 != t2 {
        let at = t1.iter().zip(t2.iter()).position(|(a, b)| a != b).unwrap_or(t1.len().min(t2.len()));
        println!(
          "WITNESS: {name} formatted at width {width} re-parses with {e2} error(s); first difference: {:?} became {:?}",
          t1.get(at).map(|s| s.chars().take(600).collect::<String>()),
          t2.get(at).map(|s| s.chars().take(600).collect::<String>())
        );
        return;
      }
    }
  }
  println!("WITNESS-SEARCH: no violating history found ({} sample modules, {checked} formatted texts)", files.len());
}


// Bounded exploration for C05 (the formatter terminates): nested expressions of moderate depth are parsed and formatted
// at two widths; each must be done within a few seconds (formatting time must not multiply with every nesting level).
// Nested if-else is kept shallow: on the unchanged tree its formatting time already doubles per level (DESIGN.md, observed).
#[test]
fn verif_witness_search_formatter_terminates() {
  use std::sync::mpsc;
  use std::time::Duration;
  let mut inputs: Vec<(String, String)> = Vec::new();
  let mut horner = "a".to_string();
  for _ in 0..18 {
    horner = format!("({horner} * x + b)");
  }
  inputs.push(("a polynomial in Horner form of degree 18".to_string(), horner));
  let mut mixed = "a".to_string();
  for k in 0..16 {
    mixed = if k % 2 == 0 { format!("(c - ({mixed} && d || e) :: f)") } else { format!("(!({mixed} < 1) == (g % 2 >= 3))") };
  }
  inputs.push(("16 levels of operators of alternating precedence".to_string(), mixed));
  inputs.push(("a chain of 60 member accesses and calls".to_string(), format!("a{}", ".f(1).g".repeat(30))));
  let mut lambdas = "x".to_string();
  for k in 0..12 {
    lambdas = format!("((p{k}) -> {lambdas})");
  }
  inputs.push(("12 nested lambdas".to_string(), lambdas));
  let mut matches = "z".to_string();
  for _ in 0..8 {
    matches = format!("match o {{ Some(v) -> {matches}, None -> 0 }}");
  }
  inputs.push(("8 nested match expressions".to_string(), matches));
  let mut ifs = "z".to_string();
  for _ in 0..8 {
    ifs = format!("if c {{ {ifs} }} else {{ 0 }}");
  }
  inputs.push(("8 nested if-else expressions".to_string(), ifs));
  let mut tuples = "1".to_string();
  for _ in 0..14 {
    tuples = format!("({tuples}, [{tuples}].f, 2)");
  }
  let _ = tuples;
  let mut checked = 0usize;
  for (what, e) in inputs {
    let text = format!("class Main {{ function f(): int = {e} }}");
    let (tx, rx) = mpsc::channel();
    let owned = text.clone();
    std::thread::spawn(move || {
      let r = std::panic::catch_unwind(|| {
        let heap = &mut Heap::new();
        let (errors, m) = parse(heap, &owned);
        if errors != 0 {
          return false;
        }
        for width in [100usize, 30] {
          let _ = super::pretty_print_source_module(heap, width, &m);
        }
        true
      });
      let _ = tx.send(r);
    });
    match rx.recv_timeout(Duration::from_secs(15)) {
      Ok(Ok(true)) => {}
      Ok(Ok(false)) => {
        println!("WITNESS-SEARCH-BROKEN: {what} does not parse");
        return;
      }
      Ok(Err(_)) => {
        println!("WITNESS: the formatter panics on {what}: {}", text.chars().take(300).collect::<String>());
        return;
      }
      Err(_) => {
        println!("WITNESS: the formatter does not finish within 15 s on {what}: {}", text.chars().take(300).collect::<String>());
        std::process::exit(0);
      }
    }
    checked += 1;
  }
  println!("WITNESS-SEARCH: no violating history found ({checked} nested expressions formatted within the time limit)");
}
