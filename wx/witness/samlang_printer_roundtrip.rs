// Witness search for unit `paren` (C08).  NOT a deciding check: it runs only after Verus reported a failed
// obligation or could not process the changed code (and in the thorough tier), and looks for an expression or
// statement list that the REAL formatter prints so that it no longer parses, or parses to another tree.
// The two recorded findings (`::` next to another operator; `a op (b op c)` for the same associative operator)
// are not generated.
use super::*;
use samlang_ast::source::{Literal, Toplevel, expr, pattern};
use samlang_errors::ErrorSet;
use samlang_heap::{Heap, ModuleReference};
use samlang_parser::parse_source_module_from_text;

fn pat(h: &Heap, p: &pattern::MatchingPattern<()>) -> String {
  match p {
    pattern::MatchingPattern::Id(id, _) => format!("(id {})", id.name.as_str(h)),
    pattern::MatchingPattern::Wildcard { .. } => "_".to_string(),
    pattern::MatchingPattern::Variant(v) => format!(
      "(variant {} {})",
      v.tag.name.as_str(h),
      v.data_variables
        .as_ref()
        .map(|t| t.elements.iter().map(|e| pat(h, &e.pattern)).collect::<Vec<_>>().join(" "))
        .unwrap_or_default()
    ),
    _ => "(pattern)".to_string(),
  }
}

fn block(h: &Heap, b: &expr::Block<()>) -> String {
  let mut parts = Vec::new();
  for s in &b.statements {
    parts.push(match s {
      expr::Statement::Declaration(d) => format!("(let {} {})", pat(h, &d.pattern), ex(h, &d.assigned_expression)),
      expr::Statement::Expression(e) => format!("(stmt {})", ex(h, e)),
    });
  }
  parts.push(match &b.expression {
    Some(e) => format!("(final {})", ex(h, e)),
    None => "(final -)".to_string(),
  });
  format!("(block {})", parts.join(" "))
}

fn if_else(h: &Heap, e: &expr::IfElse<()>) -> String {
  let c = match e.condition.as_ref() {
    expr::IfElseCondition::Expression(c) => ex(h, c),
    expr::IfElseCondition::Guard(p, c) => format!("(guard {} {})", pat(h, p), ex(h, c)),
  };
  let e2 = match e.e2.as_ref() {
    expr::IfElseOrBlock::IfElse(n) => if_else(h, n),
    expr::IfElseOrBlock::Block(b) => block(h, b),
  };
  format!("(if {} {} {})", c, block(h, &e.e1), e2)
}

/// the syntax tree without positions and comments
fn ex(h: &Heap, e: &expr::E<()>) -> String {
  match e {
    expr::E::Literal(_, Literal::Bool(b)) => format!("(bool {b})"),
    expr::E::Literal(_, Literal::Int(i)) => format!("(int {i})"),
    expr::E::Literal(_, Literal::String(s)) => format!("(string {:?})", s.as_str(h)),
    expr::E::LocalId(_, id) => format!("(local {})", id.name.as_str(h)),
    expr::E::ClassId(_, _, id) => format!("(class {})", id.name.as_str(h)),
    expr::E::Tuple(_, l) => format!("(tuple {})", l.expressions.iter().map(|e| ex(h, e)).collect::<Vec<_>>().join(" ")),
    expr::E::FieldAccess(f) => format!("(field {} {})", ex(h, &f.object), f.field_name.name.as_str(h)),
    expr::E::MethodAccess(f) => format!("(method {} {})", ex(h, &f.object), f.method_name.name.as_str(h)),
    expr::E::Unary(u) => format!("(unary {} {})", u.operator.kind_str(), ex(h, &u.argument)),
    expr::E::Call(c) => format!(
      "(call {} [{}])",
      ex(h, &c.callee),
      c.arguments.expressions.iter().map(|e| ex(h, e)).collect::<Vec<_>>().join(" ")
    ),
    expr::E::Binary(b) => format!("(binary {} {} {})", b.operator.kind_str(), ex(h, &b.e1), ex(h, &b.e2)),
    expr::E::IfElse(e) => if_else(h, e),
    expr::E::Match(m) => format!(
      "(match {} {})",
      ex(h, &m.matched),
      m.cases.iter().map(|c| format!("[{} => {}]", pat(h, &c.pattern), ex(h, &c.body))).collect::<Vec<_>>().join(" ")
    ),
    expr::E::Lambda(l) => format!(
      "(lambda [{}] {})",
      l.parameters.parameters.iter().map(|p| p.name.name.as_str(h).to_string()).collect::<Vec<_>>().join(" "),
      ex(h, &l.body)
    ),
    expr::E::Block(b) => block(h, b),
  }
}

fn bodies(heap: &mut Heap, src: &str) -> (usize, Vec<String>, String) {
  let mut error_set = ErrorSet::new();
  let m = parse_source_module_from_text(src, ModuleReference::DUMMY, heap, &mut error_set);
  let printed = super::pretty_print_source_module(heap, 60, &m);
  let errors = error_set.group_errors().values().map(|v| v.len()).sum::<usize>();
  let mut out = Vec::new();
  for t in &m.toplevels {
    if let Toplevel::Class(c) = t {
      for member in &c.members.members {
        out.push(ex(heap, &member.body));
      }
    }
  }
  (errors, out, printed)
}

#[test]
fn verif_witness_search() {
  let heap = &mut Heap::new();
  let ops = ["*", "/", "%", "+", "-", "<", "<=", ">", ">=", "==", "!=", "&&", "||"];
  let associative = ["*", "+", "&&", "||"];
  let mut exprs: Vec<String> = Vec::new();
  for o1 in ops {
    for o2 in ops {
      exprs.push(format!("(a {o1} b) {o2} c"));
      if !(o1 == o2 && associative.contains(&o1)) {
        exprs.push(format!("a {o1} (b {o2} c)"));
      }
    }
    for u in ["!", "-"] {
      exprs.push(format!("{u}(a {o1} b)"));
      exprs.push(format!("{u}a {o1} b"));
      exprs.push(format!("a {o1} {u}b"));
    }
  }
  exprs.push("(a :: b) :: c".to_string());
  // `x.name <` would be read as the start of type arguments: these only parse with their parentheses
  for e in ["(a.f) < b", "(Main.g) < 3", "(a + b.f) < c", "(-a.f) < c", "(a.f) < (c.g)", "(a.f) > c", "(a.f) <= c", "(a.m(b)) < c", "(a.f) < b && c"] {
    exprs.push(e.to_string());
  }
  let operands = [
    "a", "1", "(-a)", "(!a)", "a.f", "a.m(b)", "Main.f(a)", "(a + b)", "(if a { b } else { c })",
    "(match a { A(x) -> x, B -> 0 })", "({ let x = a; x })", "((x) -> x)",
  ];
  for u in ["!", "-"] {
    for o in operands {
      exprs.push(format!("{u}{o}"));
      exprs.push(format!("{u}{o}.g"));
    }
  }
  // statements inside blocks
  exprs.push("{ let _ = a; if a { let _ = b; } else { let _ = c; }; let n = 1; n }".to_string());
  exprs.push("{ match a { A(x) -> { let _ = x; }, B -> { } }; let n = 1; n }".to_string());
  exprs.push("{ { let _ = a; }; let n = 1; n }".to_string());
  exprs.push("{ let _ = a; if a { b } else { c } }".to_string());
  exprs.push("{ if a { let _ = b; } else { let _ = c; }; }".to_string());
  exprs.push("if a { b } else if c { d } else { e }".to_string());
  exprs.push("if a { b } else { let _ = c; if d { e } else { f } }".to_string());
  // inputs whose grouping the formatter changes by design (the recorded finding `a op (b op c)`): the tree is not compared, but the
  // formatted text must still parse — the left operand of `<` that now ends with a member name needs its parentheses
  for e in ["a + (b + c.d) < e", "a * (b * c.d) < e", "(a + (b + c.d)) < e", "a + (b + c.d<T>) < e", "a && (b && c.d < e)"] {
    let one = format!("class Main {{ function f(): int = {e} }}");
    let (e1, _, printed) = bodies(heap, &one);
    if e1 != 0 {
      continue;
    }
    let (e2, _, _) = bodies(heap, &printed);
    if e2 != 0 {
      println!("WITNESS: `{e}` is formatted as: {} -- which re-parses with {e2} error(s)", printed.replace('\n', " "));
      return;
    }
  }
  let mut checked = 0usize;
  for chunk in exprs.chunks(20) {
    let src = format!(
      "class Main {{\n{}\n}}",
      chunk.iter().enumerate().map(|(i, e)| format!("  function f{i}(): int = {e}")).collect::<Vec<_>>().join("\n")
    );
    let (e1, t1, printed) = bodies(heap, &src);
    if e1 != 0 {
      // find the offending expression and skip it (not a program that parses)
      for e in chunk {
        let one = format!("class Main {{ function f(): int = {e} }}");
        let (e1, t1, printed) = bodies(heap, &one);
        if e1 != 0 {
          continue;
        }
        checked += 1;
        let (e2, t2, _) = bodies(heap, &printed);
        if e2 != 0 || t1 != t2 {
          println!("WITNESS: `{e}` is formatted as: {} -- which re-parses with {e2} error(s) to {:?} instead of {:?}", printed.replace('\n', " "), t2, t1);
          return;
        }
      }
      continue;
    }
    checked += chunk.len();
    let (e2, t2, _) = bodies(heap, &printed);
    if e2 != 0 || t1 != t2 {
      for (i, e) in chunk.iter().enumerate() {
        let one = format!("class Main {{ function f(): int = {e} }}");
        let (_, t1, printed) = bodies(heap, &one);
        let (e2, t2, _) = bodies(heap, &printed);
        if e2 != 0 || t1 != t2 {
          println!("WITNESS: `{e}` is formatted as: {} -- which re-parses with {e2} error(s) to {:?} instead of {:?}", printed.replace('\n', " "), t2, t1);
          return;
        }
        let _ = i;
      }
      println!("WITNESS: a class of 20 members is formatted to text that re-parses with {e2} error(s) or to other trees: {}", printed.replace('\n', " "));
      return;
    }
  }
  println!("WITNESS-SEARCH: no violating history found ({checked} expressions)");
}
