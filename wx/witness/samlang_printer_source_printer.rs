// Witness search for unit `strlit` (C08).  NOT a deciding check: it runs only after Verus reported a failed
// obligation or could not process the changed code, and looks for a string literal that the REAL parser and
// printer do not carry through formatting: the formatted module must re-parse without errors to the same
// stored literal, and must contain the source token unchanged.
use super::*;
use samlang_ast::source::{Literal, Toplevel, expr};
use samlang_errors::ErrorSet;
use samlang_heap::{Heap, ModuleReference};
use samlang_parser::parse_source_module_from_text;

fn literal_of(heap: &mut Heap, src: &str) -> (usize, Option<String>, String) {
  let mut error_set = ErrorSet::new();
  let m = parse_source_module_from_text(src, ModuleReference::DUMMY, heap, &mut error_set);
  let printed = super::super::pretty_print_source_module(heap, 100, &m);
  let errors = error_set.group_errors().values().map(|v| v.len()).sum::<usize>();
  let lit = match m.toplevels.first() {
    Some(Toplevel::Class(c)) => match c.members.members.first().map(|mem| &mem.body) {
      Some(expr::E::Literal(_, Literal::String(s))) => Some(s.as_str(heap).to_string()),
      _ => None,
    },
    _ => None,
  };
  (errors, lit, printed)
}

#[test]
fn verif_witness_search() {
  let heap = &mut Heap::new();
  // bodies built from pieces that matter to the two replacements: plain text, an escaped quote, an escaped
  // backslash, another escape
  let pieces = ["a", "\\\"", "\\\\", "\\n", " ", "b"];
  let mut bodies: Vec<String> = vec![String::new()];
  let mut frontier: Vec<String> = vec![String::new()];
  for _ in 0..4 {
    let mut next = Vec::new();
    for b in frontier.iter() {
      for p in pieces {
        next.push(format!("{b}{p}"));
      }
    }
    bodies.extend(next.iter().cloned());
    frontier = next;
  }
  let mut checked = 0usize;
  for body in bodies {
    let token = format!("\"{body}\"");
    let src = format!("class Main {{ function f(): Str = {token} }}");
    let (e1, l1, printed) = literal_of(heap, &src);
    if e1 != 0 || l1.is_none() {
      continue; // not a program that parses: outside the property
    }
    checked += 1;
    if !printed.contains(&token) {
      println!("WITNESS: the literal {token} is formatted differently; formatted module: {}", printed.replace('\n', " "));
      return;
    }
    let (e2, l2, _) = literal_of(heap, &printed);
    if e2 != 0 || l2 != l1 {
      println!(
        "WITNESS: the literal {token} (stored as {:?}) is formatted to a module that re-parses with {e2} error(s) to {:?}: {}",
        l1, l2, printed.replace('\n', " ")
      );
      return;
    }
  }
  println!("WITNESS-SEARCH: no violating history found ({checked} string literals)");
}
