// Witness search for unit `depgraph` (C10).  NOT a deciding check: it runs only after Verus reported a
// failed obligation or could not process the changed code, and looks for a concrete import graph and
// dirty set on which the REAL DependencyGraph::new / affected_set violate their contract.
use super::*;
use samlang_heap::Heap;
use samlang_parser::parse_source_module_from_text;
use std::collections::{BTreeSet, HashMap, HashSet};

struct Rng(u64);
impl Rng {
  fn next(&mut self) -> u64 {
    self.0 ^= self.0 << 13;
    self.0 ^= self.0 >> 7;
    self.0 ^= self.0 << 17;
    self.0
  }
}

const NAMES: [&str; 6] = ["A", "B", "C", "D", "E", "F"];

/// `edges[i]` = indices (into NAMES) that module i imports; modules `present..` do not exist
fn check(edges: &[Vec<usize>], present: usize, dirty: &[usize]) -> Result<(), String> {
  let heap = &mut Heap::new();
  let error_set = &mut samlang_errors::ErrorSet::new();
  let refs: Vec<ModuleReference> =
    NAMES.iter().map(|n| heap.alloc_module_reference_from_string_vec(vec![n.to_string()])).collect();
  let mut sources = HashMap::new();
  for i in 0..present {
    let text = edges[i].iter().map(|j| format!("import {{ X }} from {}\n", NAMES[*j])).collect::<String>();
    sources.insert(refs[i], parse_source_module_from_text(&text, refs[i], heap, error_set));
  }
  let graph = DependencyGraph::new(&sources);
  // contract of `new`: no import edge is dropped, in either direction
  for i in 0..present {
    for j in edges[i].iter() {
      if !graph.forward.get(&refs[i]).map(|s| s.contains(&refs[*j])).unwrap_or(false) {
        return Err(format!("new: forward edge {} -> {} is missing", NAMES[i], NAMES[*j]));
      }
      if !graph.reverse.get(&refs[*j]).map(|s| s.contains(&refs[i])).unwrap_or(false) {
        return Err(format!("new: reverse edge {} <- {} is missing", NAMES[*j], NAMES[i]));
      }
    }
  }
  // contract of `affected_set`: contains the dirty set, everything that transitively imports a dirty
  // module, and is closed under imports
  let dirty_set: HashSet<ModuleReference> = dirty.iter().map(|i| refs[*i]).collect();
  let got = graph.affected_set(dirty_set.clone());
  let mut want: BTreeSet<usize> = dirty.iter().copied().collect();
  loop {
    let mut grew = false;
    for i in 0..present {
      if !want.contains(&i) && edges[i].iter().any(|j| want.contains(j)) {
        want.insert(i);
        grew = true;
      }
    }
    if !grew {
      break;
    }
  }
  for i in want.iter() {
    if !got.contains(&refs[*i]) {
      return Err(format!("affected_set: {} (transitively) imports a dirty module but is not rechecked", NAMES[*i]));
    }
  }
  for i in 0..present {
    if got.contains(&refs[i]) {
      for j in edges[i].iter() {
        if !got.contains(&refs[*j]) {
          return Err(format!("affected_set: not closed under imports: {} is in, its import {} is not", NAMES[i], NAMES[*j]));
        }
      }
    }
  }
  Ok(())
}

#[test]
fn verif_witness_search() {
  let seed: u64 = std::env::var("VERIF_SEED").ok().and_then(|s| s.parse().ok()).unwrap_or(0);
  let mut rng = Rng(0x9E3779B97F4A7C15 ^ seed.wrapping_mul(0xD1B54A32D192ED03) | 1);
  // hand-picked shapes first: chain, diamond, cycle, self-import, missing targets
  let shapes: Vec<(Vec<Vec<usize>>, usize)> = vec![
    (vec![vec![], vec![0], vec![1], vec![2]], 4),
    (vec![vec![], vec![0], vec![0], vec![1, 2]], 4),
    (vec![vec![2], vec![0], vec![1]], 3),
    (vec![vec![0], vec![0, 1]], 2),
    (vec![vec![4], vec![0, 5], vec![1]], 3),
  ];
  for (edges, present) in shapes.iter() {
    for d in 0..NAMES.len() {
      if let Err(why) = check(edges, *present, &[d]) {
        println!("WITNESS: imports {:?} (modules 0..{} exist), dirty {:?}: {}", edges, present, [NAMES[d]], why);
        panic!("contract violated on the real dependency graph");
      }
    }
  }
  for _ in 0..3000 {
    let present = 1 + (rng.next() % 5) as usize;
    let edges: Vec<Vec<usize>> = (0..present)
      .map(|_| {
        let n = (rng.next() % 3) as usize;
        (0..n).map(|_| (rng.next() % NAMES.len() as u64) as usize).collect()
      })
      .collect();
    let nd = 1 + (rng.next() % 2) as usize;
    let dirty: Vec<usize> = (0..nd).map(|_| (rng.next() % NAMES.len() as u64) as usize).collect();
    if let Err(why) = check(&edges, present, &dirty) {
      let dn: Vec<&str> = dirty.iter().map(|i| NAMES[*i]).collect();
      println!("WITNESS: imports {:?} (modules 0..{} exist), dirty {:?}: {}", edges, present, dn, why);
      panic!("contract violated on the real dependency graph");
    }
  }
  println!("WITNESS-SEARCH: no violating history found");
}
