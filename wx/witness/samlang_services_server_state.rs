// Witness search for unit `srvstate` (C10).  NOT a deciding check: it runs only after Verus reported a failed
// obligation or could not process the changed code (and in the thorough tier), and looks for a history of
// update / rename_module / remove on the REAL ServerState after which its diagnostics differ from those of a
// freshly started server on the same file contents.
use super::*;
use samlang_heap::{Heap, ModuleReference};
use std::collections::{BTreeMap, HashMap};

const NAMES: [&str; 4] = ["A", "B", "C", "D"];
const TEXTS: [&str; 6] = [
  "class Foo(val x: int) { function make(): Foo = Foo.init(1) }",
  "import { Foo } from A\nclass UseA { function f(): Foo = Foo.make() }",
  "import { Foo } from C\nclass UseC { function f(): Foo = Foo.make() }",
  "class Foo(val x: int) { function make(): int = 1 }",
  "import { UseA } from B\nclass Chain { function g(): int = UseA.f().x }",
  // a type error and a syntax error in one module
  "class Test {\n  function f(): int = \"one\"\n  function g(): int =\n}\n",
];

#[derive(Clone, Copy, Debug)]
enum Op {
  Update(usize, usize),
  Rename(usize, usize),
  Remove(usize),
}

fn all_ops() -> Vec<Op> {
  let mut v = Vec::new();
  for m in 0..NAMES.len() {
    for t in 0..TEXTS.len() {
      v.push(Op::Update(m, t));
    }
    for n in 0..NAMES.len() {
      if n != m {
        v.push(Op::Rename(m, n));
      }
    }
    v.push(Op::Remove(m));
  }
  v
}

fn dump_of(contents: &BTreeMap<usize, usize>) -> String {
  let mut heap = Heap::new();
  let mut sources = HashMap::new();
  for (m, t) in contents {
    sources.insert(heap.alloc_module_reference_from_string_vec(vec![NAMES[*m].to_string()]), TEXTS[*t].to_string());
  }
  ServerState::new(heap, false, sources).get_error_dump()
}

fn run(history: &[Op]) -> Result<(), String> {
  let mut heap = Heap::new();
  let refs: Vec<ModuleReference> =
    NAMES.iter().map(|n| heap.alloc_module_reference_from_string_vec(vec![n.to_string()])).collect();
  let mut contents: BTreeMap<usize, usize> = BTreeMap::from([(0, 0), (1, 1), (3, 4)]);
  let sources = contents.iter().map(|(m, t)| (refs[*m], TEXTS[*t].to_string())).collect::<HashMap<_, _>>();
  let mut state = ServerState::new(heap, false, sources);
  for op in history {
    match *op {
      Op::Update(m, t) => {
        state.update(vec![(refs[m], TEXTS[t].to_string())]);
        contents.insert(m, t);
      }
      Op::Rename(m, n) => {
        state.rename_module(vec![(refs[m], refs[n])]);
        if let Some(t) = contents.remove(&m) {
          contents.insert(n, t);
        }
      }
      Op::Remove(m) => {
        state.remove(&[refs[m]]);
        contents.remove(&m);
      }
    }
  }
  let incremental = state.get_error_dump();
  let from_scratch = dump_of(&contents);
  if incremental != from_scratch {
    let show = |op: &Op| match *op {
      Op::Update(m, t) => format!("update {}.sam := {:?}", NAMES[m], TEXTS[t]),
      Op::Rename(m, n) => format!("rename {}.sam -> {}.sam", NAMES[m], NAMES[n]),
      Op::Remove(m) => format!("remove {}.sam", NAMES[m]),
    };
    return Err(format!(
      "start {{A.sam: {:?}, B.sam: {:?}, D.sam: {:?}}}; history: {}; the server holds {:?} but a freshly started server on the same files reports {:?}",
      TEXTS[0], TEXTS[1], TEXTS[4],
      history.iter().map(show).collect::<Vec<_>>().join("; "),
      incremental.lines().filter(|l| l.starts_with("Error") || l.contains('`')).take(4).collect::<Vec<_>>().join(" | "),
      from_scratch.lines().filter(|l| l.starts_with("Error") || l.contains('`')).take(4).collect::<Vec<_>>().join(" | ")
    ));
  }
  Ok(())
}

#[test]
fn verif_witness_search() {
  let ops = all_ops();
  let mut checked = 0usize;
  for a in ops.iter() {
    if let Err(w) = run(&[*a]) {
      println!("WITNESS: {w}");
      return;
    }
    checked += 1;
    for b in ops.iter() {
      if let Err(w) = run(&[*a, *b]) {
        println!("WITNESS: {w}");
        return;
      }
      checked += 1;
    }
  }
  let mut x: u64 = 0x9E3779B97F4A7C15 ^ std::env::var("VERIF_SEED").ok().and_then(|s| s.parse::<u64>().ok()).unwrap_or(0);
  let mut next = || {
    x ^= x << 13;
    x ^= x >> 7;
    x ^= x << 17;
    x
  };
  for _ in 0..1500 {
    let len = 3 + (next() % 2) as usize;
    let h: Vec<Op> = (0..len).map(|_| ops[(next() % ops.len() as u64) as usize]).collect();
    if let Err(w) = run(&h) {
      println!("WITNESS: {w}");
      return;
    }
    checked += 1;
  }
  println!("WITNESS-SEARCH: no violating history found ({checked} histories)");
}
