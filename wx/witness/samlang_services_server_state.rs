// Witness search for unit `srvstate` (C10).  NOT a deciding check: it runs only after Verus reported a failed
// obligation or could not process the changed code (and in the thorough tier), and looks for a history of
// update / rename_module / remove on the REAL ServerState after which its diagnostics differ from those of a
// freshly started server on the same file contents.
use super::*;
use samlang_heap::{Heap, ModuleReference};
use std::collections::{BTreeMap, HashMap};

const NAMES: [&str; 4] = ["A", "B", "C", "D"];
const TEXTS: [&str; 8] = [
  "class FooConfigurationRecord(val x: int) { function makeTheDefaultConfiguration(): FooConfigurationRecord = FooConfigurationRecord.init(1) }",
  "import { FooConfigurationRecord } from A\nclass UseOfModuleAlphaRecord { function f(): FooConfigurationRecord = FooConfigurationRecord.makeTheDefaultConfiguration() }",
  "import { FooConfigurationRecord } from C\nclass UseOfModuleGammaRecord { function f(): FooConfigurationRecord = FooConfigurationRecord.makeTheDefaultConfiguration() }",
  "class FooConfigurationRecord(val x: int) { function makeTheDefaultConfiguration(): int = 1 }",
  "import { UseOfModuleAlphaRecord } from B\nclass ChainOfDependenciesRecord { function g(): int = UseOfModuleAlphaRecord.f().x }",
  // a type error and a syntax error in one module
  "class Test {\n  function f(): int = \"one\"\n  function g(): int =\n}\n",
  // names longer than 15 bytes (kept in the collected heap) that occur only in the parameters of members and do not resolve:
  // the stored diagnostics must still be printable after the string GC that ends the recheck
  "class ParameterAnnotationsOnly { function f(theOnlyParameterOfThisFunction: NotDefinedVeryLongNameHere): int = 1 }",
  "interface ParameterAnnotationsOnly { method m(theOnlyParameterOfThisMethod: AnotherUndefinedVeryLongName): int }",
];

#[derive(Clone, Copy, Debug)]
enum Op {
  Update(usize, usize),
  Rename(usize, usize),
  Remove(usize),
  /// one call with two items (the same module may be named twice)
  UpdateBatch(usize, usize, usize, usize),
  RenameBatch(usize, usize, usize, usize),
  RemoveBatch(usize, usize),
  /// deleting a file the server was never told about: the language server maps its URL to ROOT
  RemoveUnknown,
}

fn all_ops() -> Vec<Op> {
  let mut v = Vec::new();
  for m in 0..NAMES.len() {
    for t in 0..TEXTS.len() {
      v.push(Op::Update(m, t));
    }
    for n in 0..NAMES.len() {
      if n != m {
        v.push(Op::Rename(m, n));
      }
    }
    v.push(Op::Remove(m));
  }
  v.push(Op::RemoveUnknown);
  v
}

fn dump_of(contents: &BTreeMap<usize, usize>) -> String {
  let mut heap = Heap::new();
  let mut sources = HashMap::new();
  for (m, t) in contents {
    sources.insert(heap.alloc_module_reference_from_string_vec(vec![NAMES[*m].to_string()]), TEXTS[*t].to_string());
  }
  ServerState::new(heap, false, sources).get_error_dump()
}

fn run(history: &[Op]) -> Result<(), String> {
  let mut heap = Heap::new();
  let refs: Vec<ModuleReference> =
    NAMES.iter().map(|n| heap.alloc_module_reference_from_string_vec(vec![n.to_string()])).collect();
  let mut contents: BTreeMap<usize, usize> = BTreeMap::from([(0, 0), (1, 1), (3, 4)]);
  let sources = contents.iter().map(|(m, t)| (refs[*m], TEXTS[*t].to_string())).collect::<HashMap<_, _>>();
  // garbage collection of interned strings on, as in the language server (identifiers longer than 15 bytes live in the heap)
  let mut state = ServerState::new(heap, true, sources);
  for op in history {
    match *op {
      Op::Update(m, t) => {
        state.update(vec![(refs[m], TEXTS[t].to_string())]);
        contents.insert(m, t);
      }
      Op::Rename(m, n) => {
        state.rename_module(vec![(refs[m], refs[n])]);
        if let Some(t) = contents.remove(&m) {
          contents.insert(n, t);
        }
      }
      Op::Remove(m) => {
        state.remove(&[refs[m]]);
        contents.remove(&m);
      }
      Op::UpdateBatch(m1, t1, m2, t2) => {
        state.update(vec![(refs[m1], TEXTS[t1].to_string()), (refs[m2], TEXTS[t2].to_string())]);
        contents.insert(m1, t1);
        contents.insert(m2, t2);
      }
      Op::RenameBatch(m1, n1, m2, n2) => {
        state.rename_module(vec![(refs[m1], refs[n1]), (refs[m2], refs[n2])]);
        for (m, n) in [(m1, n1), (m2, n2)] {
          if let Some(t) = contents.remove(&m) {
            contents.insert(n, t);
          }
        }
      }
      Op::RemoveUnknown => state.remove(&[ModuleReference::ROOT]),
      Op::RemoveBatch(m1, m2) => {
        state.remove(&[refs[m1], refs[m2]]);
        contents.remove(&m1);
        contents.remove(&m2);
      }
    }
  }
  let incremental = state.get_error_dump();
  let from_scratch = dump_of(&contents);
  if incremental != from_scratch {
    let show = |op: &Op| match *op {
      Op::Update(m, t) => format!("update {}.sam := {:?}", NAMES[m], TEXTS[t]),
      Op::Rename(m, n) => format!("rename {}.sam -> {}.sam", NAMES[m], NAMES[n]),
      Op::Remove(m) => format!("remove {}.sam", NAMES[m]),
      Op::UpdateBatch(m1, t1, m2, t2) => format!("update in one call [{}.sam := {:?}, {}.sam := {:?}]", NAMES[m1], TEXTS[t1], NAMES[m2], TEXTS[t2]),
      Op::RenameBatch(m1, n1, m2, n2) => format!("rename in one call [{}.sam -> {}.sam, {}.sam -> {}.sam]", NAMES[m1], NAMES[n1], NAMES[m2], NAMES[n2]),
      Op::RemoveUnknown => "remove a file the server was never told about (ROOT)".to_string(),
      Op::RemoveBatch(m1, m2) => format!("remove in one call [{}.sam, {}.sam]", NAMES[m1], NAMES[m2]),
    };
    return Err(format!(
      "start {{A.sam: {:?}, B.sam: {:?}, D.sam: {:?}}}; history: {}; the server holds {:?} but a freshly started server on the same files reports {:?}",
      TEXTS[0], TEXTS[1], TEXTS[4],
      history.iter().map(show).collect::<Vec<_>>().join("; "),
      incremental.lines().filter(|l| l.starts_with("Error") || l.contains('`')).take(4).collect::<Vec<_>>().join(" | "),
      from_scratch.lines().filter(|l| l.starts_with("Error") || l.contains('`')).take(4).collect::<Vec<_>>().join(" | ")
    ));
  }
  Ok(())
}

#[test]
fn verif_witness_search() {
  let ops = all_ops();
  let mut checked = 0usize;
  for a in ops.iter() {
    if let Err(w) = run(&[*a]) {
      println!("WITNESS: {w}");
      return;
    }
    checked += 1;
    for b in ops.iter() {
      if let Err(w) = run(&[*a, *b]) {
        println!("WITNESS: {w}");
        return;
      }
      checked += 1;
    }
  }
  let mut x: u64 = 0x9E3779B97F4A7C15 ^ std::env::var("VERIF_SEED").ok().and_then(|s| s.parse::<u64>().ok()).unwrap_or(0);
  let mut next = || {
    x ^= x << 13;
    x ^= x >> 7;
    x ^= x << 17;
    x
  };
  for _ in 0..1500 {
    let len = 3 + (next() % 2) as usize;
    let h: Vec<Op> = (0..len).map(|_| ops[(next() % ops.len() as u64) as usize]).collect();
    if let Err(w) = run(&h) {
      println!("WITNESS: {w}");
      return;
    }
    checked += 1;
  }
  // calls with two items, the same module possibly named twice
  let (nn, nt) = (NAMES.len() as u64, TEXTS.len() as u64);
  for _ in 0..1500 {
    let len = 1 + (next() % 3) as usize;
    let h: Vec<Op> = (0..len)
      .map(|_| match next() % 5 {
        0 | 1 => Op::UpdateBatch((next() % nn) as usize, (next() % nt) as usize, (next() % nn) as usize, (next() % nt) as usize),
        2 => Op::RenameBatch((next() % nn) as usize, (next() % nn) as usize, (next() % nn) as usize, (next() % nn) as usize),
        3 => Op::RemoveBatch((next() % nn) as usize, (next() % nn) as usize),
        _ => ops[(next() % ops.len() as u64) as usize],
      })
      .collect();
    if let Err(w) = run(&h) {
      println!("WITNESS: {w}");
      return;
    }
    checked += 1;
  }
  println!("WITNESS-SEARCH: no violating history found ({checked} histories)");
}


// Bounded exploration for C05 (the language server does not crash on a formatting request): a formatting request for
// every module — with and without errors, existing or not — straight after start-up and after every single edit.
#[test]
fn verif_witness_search_format_requests() {
  let mut checked = 0usize;
  let mut histories: Vec<Vec<Op>> = vec![Vec::new()];
  for op in all_ops() {
    histories.push(vec![op]);
  }
  for history in histories {
    let mut heap = Heap::new();
    let refs: Vec<ModuleReference> =
      NAMES.iter().map(|n| heap.alloc_module_reference_from_string_vec(vec![n.to_string()])).collect();
    let sources = [(0usize, 0usize), (1, 1), (2, 5), (3, 4)].iter().map(|(m, t)| (refs[*m], TEXTS[*t].to_string())).collect::<HashMap<_, _>>();
    let mut state = ServerState::new(heap, true, sources);
    for op in &history {
      match *op {
        Op::Update(m, t) => state.update(vec![(refs[m], TEXTS[t].to_string())]),
        Op::Rename(m, n) => state.rename_module(vec![(refs[m], refs[n])]),
        Op::Remove(m) => state.remove(&[refs[m]]),
        _ => {}
      }
    }
    for m in refs.iter() {
      // a panic of the real code is the witness (reported by the runner)
      if let Some(text) = crate::rewrite::format_entire_document(&state, m)
        && text.is_empty()
        && !state.get_errors(m).is_empty()
      {
        println!("WITNESS: formatting a module with errors produced an empty document");
        return;
      }
      checked += 1;
    }
  }
  println!("WITNESS-SEARCH: no violating history found ({checked} formatting requests)");
}
